(** Model of stream-ciphers/chacha/src/guts.rs as written (after the fix:
    commits): the vectorised rounds on 4-lane (narrow) and 4x4-lane (wide)
    vectors with [diagonalize]/[undiagonalize], [refill_narrow_rounds],
    [output_narrow], [inc_block_ct], [refill_wide_impl] with [d0123],
    [transpose4] and [add_pos], stream parameters, stream equality,
    [init_chacha], [init_chacha_x].

    Vectors are lists of 32-bit words in lane order (Spec/Lanes.v gives the
    lane meaning of every ppv-lite86 operation; the back ends are tied to that
    meaning under C12/C13/C03). Parametric in the word operations for the
    structural proofs; instantiated at wrapping 32-bit arithmetic below. *)
From Coq Require Import NArith List Lia Arith Bool.
From CC Require Import Lib.Words Lib.Bytes Lib.ListX Spec.Lanes.
Import ListNotations.

Record vstate := VS { va : list N; vb : list N; vc : list N; vd : list N }.

Section Rounds.
  Variables (add xor : N -> N -> N) (rotr : N -> N -> N).

  Definition vadd (a b : list N) := map2 add a b.
  Definition vxor (a b : list N) := map2 xor a b.
  Definition vrot (k : N) (a : list N) := map (rotr k) a.

  (** [round] *)
  Definition round (x : vstate) : vstate :=
    let a := vadd (va x) (vb x) in
    let d := vrot 16 (vxor (vd x) a) in
    let c := vadd (vc x) d in
    let b := vrot 20 (vxor (vb x) c) in
    let a := vadd a b in
    let d := vrot 24 (vxor d a) in
    let c := vadd c d in
    let b := vrot 25 (vxor b c) in
    VS a b c d.

  Definition diagonalize (x : vstate) : vstate :=
    VS (per_lane4 shuffle1230 (va x)) (vb x) (per_lane4 shuffle3012 (vc x)) (per_lane4 shuffle2301 (vd x)).

  Definition undiagonalize (x : vstate) : vstate :=
    VS (per_lane4 shuffle3012 (va x)) (vb x) (per_lane4 shuffle1230 (vc x)) (per_lane4 shuffle2301 (vd x)).

  Definition dround (x : vstate) : vstate := undiagonalize (round (diagonalize (round x))).

  Fixpoint iter {A} (n : nat) (f : A -> A) (x : A) : A :=
    match n with O => x | S k => iter k f (f x) end.

  Definition rounds (drounds : nat) (x : vstate) : vstate := iter drounds dround x.
End Rounds.

Local Open Scope N_scope.

(** [ChaCha { b, c, d }]: three 128-bit words, each as four u32 *)
Record chacha := CC { cb : list N; cc : list N; cd : list N }.

Definition K : list N := [0x61707865; 0x3320646e; 0x79622d32; 0x6b206574].
Definition add32 := addw 32.
Definition rotr32 := rotrw 32.
Definition m_rounds := rounds add32 N.lxor rotr32.
Definition vadd32 := vadd add32.

(** [pos64]: words 0,1 of d as a 64-bit integer *)
Definition pos64 (s : chacha) : N := N.lor (N.shiftl (nth 1 (cd s) 0) 32) (nth 0 (cd s) 0).

(** [d.insert(hi,1).insert(lo,0)] *)
Definition set_pos (d : list N) (pos : N) : list N :=
  upd 0 (wrap 32 pos) (upd 1 (wrap 32 (N.shiftr pos 32)) d).

Definition seek64 (s : chacha) (blockct : N) : chacha := CC (cb s) (cc s) (set_pos (cd s) blockct).
Definition seek32 (s : chacha) (blockct : N) : chacha := CC (cb s) (cc s) (upd 0 (wrap 32 blockct) (cd s)).

(** [refill_narrow_rounds]: the rounds only, no feed-forward *)
Definition refill_narrow_rounds (s : chacha) (drounds : nat) : vstate :=
  m_rounds drounds (VS K (cb s) (cc s) (cd s)).

(** [output_narrow] *)
Definition output_narrow (s : chacha) (x : vstate) : list N :=
  bytes_le 4 (vadd32 (va x) K) ++ bytes_le 4 (vadd32 (vb x) (cb s)) ++
  bytes_le 4 (vadd32 (vc x) (cc s)) ++ bytes_le 4 (vadd32 (vd x) (cd s)).

(** [inc_block_ct] (wrapping, after fix 6ea9774) *)
Definition inc_block_ct (s : chacha) : chacha :=
  CC (cb s) (cc s) (set_pos (cd s) (wrap 64 (pos64 s + 1))).

(** [refill]: one block of output, then advance *)
Definition refill (s : chacha) (drounds : nat) : list N * chacha :=
  (output_narrow s (refill_narrow_rounds s drounds), inc_block_ct s).

(** little-endian [add_pos]: d viewed as u64x2, plus [i, 0] *)
Definition add_pos (d : list N) (i : N) : list N :=
  reinterpret 8 4 (v_add 64 (reinterpret 4 8 d) [i; 0]).

(** little-endian [d0123]: four copies of d as u64x2 plus [0,0],[1,0],[2,0],[3,0] *)
Definition d0123 (d : list N) : list N :=
  let d0 := reinterpret 4 8 d in
  reinterpret 8 4 (v_add 64 (d0 ++ d0 ++ d0 ++ d0) [0; 0; 1; 0; 2; 0; 3; 0]).

Definition x4 (v : list N) : list N := v ++ v ++ v ++ v.
Definition lane (i : nat) (v : list N) : list N := firstn 4 (skipn (4 * i) v).

(** [refill_wide_impl] *)
Definition refill_wide (s : chacha) (drounds : nat) : list N * chacha :=
  let x := m_rounds drounds (VS (x4 K) (x4 (cb s)) (x4 (cc s)) (d0123 (cd s))) in
  let sd := d0123 (cd s) in
  let ra := vadd32 (va x) (x4 K) in
  let rb := vadd32 (vb x) (x4 (cb s)) in
  let rc := vadd32 (vc x) (x4 (cc s)) in
  let rd := vadd32 (vd x) sd in
  (* transpose4: result i = (a_i, b_i, c_i, d_i) *)
  let res i := lane i ra ++ lane i rb ++ lane i rc ++ lane i rd in
  (bytes_le 4 (res 0%nat) ++ bytes_le 4 (res 1%nat) ++ bytes_le 4 (res 2%nat) ++ bytes_le 4 (res 3%nat),
   CC (cb s) (cc s) (add_pos (lane 0 sd) 4)).

(** stream parameters; [None] = index out of bounds panic ([param >= 2]) *)
Definition set_stream_param (s : chacha) (param : N) (value : N) : option chacha :=
  if 2 <=? param then None
  else Some (CC (cb s) (cc s)
               (upd (N.to_nat (2 * param)) (wrap 32 value)
                    (upd (N.to_nat (2 * param + 1)) (wrap 32 (N.shiftr value 32)) (cd s)))).
Definition get_stream_param (s : chacha) (param : N) : option N :=
  if 2 <=? param then None
  else Some (N.lor (N.shiftl (nth (N.to_nat (2 * param + 1)) (cd s) 0) 32) (nth (N.to_nat (2 * param)) (cd s) 0)).

Definition stream32_eq (a b : chacha) : bool :=
  nlist_eqb (cb a) (cb b) && nlist_eqb (cc a) (cc b) &&
  (nth 3 (cd a) 0 =? nth 3 (cd b) 0) && (nth 2 (cd a) 0 =? nth 2 (cd b) 0) && (nth 1 (cd a) 0 =? nth 1 (cd b) 0).
Definition stream64_eq (a b : chacha) : bool :=
  nlist_eqb (cb a) (cb b) && nlist_eqb (cc a) (cc b) &&
  (nth 3 (cd a) 0 =? nth 3 (cd b) 0) && (nth 2 (cd a) 0 =? nth 2 (cd b) 0).

(** [ChaCha::new] / [init_chacha]: nonce of 8 or 12 bytes *)
Definition init_chacha (key nonce : list N) : chacha :=
  let n := length nonce in
  let w0 := if Nat.eqb n 12 then le_join (firstn 4 nonce) else 0 in
  CC (words_le 4 (firstn 16 key)) (words_le 4 (skipn 16 key))
     [0; w0; le_join (firstn 4 (skipn (n - 8) nonce)); le_join (skipn (n - 4) nonce)].

(** [init_chacha_x] *)
Definition init_chacha_x (key nonce : list N) (drounds : nat) : chacha :=
  let s := CC (words_le 4 (firstn 16 key)) (words_le 4 (skipn 16 key)) (words_le 4 (firstn 16 nonce)) in
  let x := refill_narrow_rounds s drounds in
  CC (va x) (vd x) [0; 0; le_join (firstn 4 (skipn 16 nonce)); le_join (firstn 4 (skipn 20 nonce))].
