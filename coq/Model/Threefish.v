(** Model of block-ciphers/threefish/src/lib.rs as written: key schedule
    [with_tweak], the in-place round body of [encrypt_block] with the
    permutation table used as *destination* index, [decrypt_block], both
    expansions of [unroll8!]/[unroll8_rev!]. Parametric in word operations;
    [Model64] instantiates with wrapping 64-bit arithmetic. *)
From Coq Require Import NArith List Lia Arith.
From CC Require Import Lib.Words Lib.Bytes Lib.ListX.
Import ListNotations.

Section Model.
  Variables (add sub xor : N -> N -> N) (rotl rotr : N -> N -> N).
  Variable c240 : N.

  Record cfg := { n_w : nat; rounds : nat; rot : list (list N); perm : list nat }.
  Variable c : cfg.

  Definition mix (r : N) (x : N * N) : N * N :=
    let y0 := add (fst x) (snd x) in
    let y1 := xor (rotl r (snd x)) y0 in (y0, y1).

  Definition inv_mix (r : N) (y : N * N) : N * N :=
    let x1 := rotr r (xor (fst y) (snd y)) in
    let x0 := sub (fst y) x1 in (x0, x1).

  (** [with_tweak]: sk[s][i] for s in 0..=rounds/4 *)
  Definition sk_entry (k t : list N) (s i : nat) : N :=
    let x := nth ((s + i) mod (n_w c + 1)) k 0%N in
    if i =? n_w c - 3 then add x (nth (s mod 3) t 0%N)
    else if i =? n_w c - 2 then add x (nth ((s + 1) mod 3) t 0%N)
    else if i =? n_w c - 1 then add x (N.of_nat s)
    else x.

  Definition with_tweak (key_words : list N) (tweak0 tweak1 : N) : list (list N) :=
    let k := key_words ++ [fold_left xor key_words c240] in
    let t := [tweak0; tweak1; xor tweak0 tweak1] in
    map (fun s => map (sk_entry k t s) (seq 0 (n_w c))) (seq 0 (rounds c / 4 + 1)).

  (** body of the [unroll8!] block in [encrypt_block] for outer index [i], inner [d] *)
  Definition enc_body (sk : list (list N)) (i d : nat) (v : list N) : list N :=
    let v_tmp := v in
    fold_left (fun v j =>
      let v0 := nth (2 * j) v_tmp 0%N in
      let v1 := nth (2 * j + 1) v_tmp 0%N in
      let e := if d mod 4 =? 0
               then (add v0 (nth2 (2 * i + d / 4) (2 * j) sk 0%N),
                     add v1 (nth2 (2 * i + d / 4) (2 * j + 1) sk 0%N))
               else (v0, v1) in
      let r := nth2 (d mod 8) j (rot c) 0%N in
      let f := mix r e in
      let pi0 := nth (2 * j) (perm c) 0 in
      let pi1 := nth (2 * j + 1) (perm c) 0 in
      upd pi1 (snd f) (upd pi0 (fst f) v)) (seq 0 (n_w c / 2)) v.

  Definition dec_body (sk : list (list N)) (i d : nat) (v : list N) : list N :=
    let v_tmp := v in
    fold_left (fun v j =>
      let inv_pi0 := nth (2 * j) (perm c) 0 in
      let inv_pi1 := nth (2 * j + 1) (perm c) 0 in
      let f := (nth inv_pi0 v_tmp 0%N, nth inv_pi1 v_tmp 0%N) in
      let r := nth2 (d mod 8) j (rot c) 0%N in
      let e := inv_mix r f in
      let v01 := if d mod 4 =? 0
                 then (sub (fst e) (nth2 (2 * i + d / 4) (2 * j) sk 0%N),
                       sub (snd e) (nth2 (2 * i + d / 4) (2 * j + 1) sk 0%N))
                 else e in
      upd (2 * j + 1) (snd v01) (upd (2 * j) (fst v01) v)) (seq 0 (n_w c / 2)) v.

  (** the two expansions of the unrolling macros *)
  Definition unroll8_loop (body : nat -> list N -> list N) (v : list N) : list N :=
    fold_left (fun v d => body d v) (seq 0 8) v.
  Definition unroll8_unrolled (body : nat -> list N -> list N) (v : list N) : list N :=
    body 7 (body 6 (body 5 (body 4 (body 3 (body 2 (body 1 (body 0 v))))))).
  Definition unroll8_rev_loop (body : nat -> list N -> list N) (v : list N) : list N :=
    fold_left (fun v d => body d v) (rev (seq 0 8)) v.
  Definition unroll8_rev_unrolled (body : nat -> list N -> list N) (v : list N) : list N :=
    body 0 (body 1 (body 2 (body 3 (body 4 (body 5 (body 6 (body 7 v))))))).

  Variable no_unroll : bool.
  Definition unroll8 := if no_unroll then unroll8_loop else unroll8_unrolled.
  Definition unroll8_rev := if no_unroll then unroll8_rev_loop else unroll8_rev_unrolled.

  Definition encrypt_words (sk : list (list N)) (v : list N) : list N :=
    let v := fold_left (fun v i => unroll8 (enc_body sk i) v) (seq 0 (rounds c / 8)) v in
    map2 add v (nth (rounds c / 4) sk []).

  Definition decrypt_words (sk : list (list N)) (v : list N) : list N :=
    let v := map2 sub v (nth (rounds c / 4) sk []) in
    fold_left (fun v i => unroll8_rev (dec_body sk i) v) (rev (seq 0 (rounds c / 8))) v.
End Model.

Local Open Scope N_scope.
Definition add64 := addw 64.
Definition sub64 := subw 64.
(** [u64::rotate_left(r)] rotates by [r mod 64] *)
Definition rotl64 (r x : N) := rotlw 64 (r mod 64) x.
Definition rotr64 (r x : N) := rotrw 64 (r mod 64) x.
Definition C240 : N := 0x1BD11BDAA9FC1A22.

Definition R_256 : list (list N) :=
  [[14;16];[52;57];[23;40];[5;37];[25;33];[46;12];[58;22];[32;32]].
Definition R_512 : list (list N) :=
  [[46;36;19;37];[33;27;14;42];[17;49;36;39];[44;9;54;56];
   [39;30;34;24];[13;50;10;17];[25;29;39;43];[8;35;56;22]].
Definition R_1024 : list (list N) :=
  [[24;13;8;47;8;17;22;37];[38;19;10;55;49;18;23;52];[33;4;51;13;34;41;59;17];
   [5;20;48;41;47;28;16;25];[41;9;37;31;12;47;44;30];[16;34;56;51;4;53;42;41];
   [31;44;47;46;19;42;44;25];[9;48;35;52;23;31;37;20]].
Definition P_256 : list nat := [0;3;2;1]%nat.
Definition P_512 : list nat := [6;1;0;7;2;5;4;3]%nat.
Definition P_1024 : list nat := [0;15;2;11;6;13;4;9;14;1;8;5;10;3;12;7]%nat.

Definition threefish256 := {| n_w := 4; rounds := 72; rot := R_256; perm := P_256 |}.
Definition threefish512 := {| n_w := 8; rounds := 72; rot := R_512; perm := P_512 |}.
Definition threefish1024 := {| n_w := 16; rounds := 80; rot := R_1024; perm := P_1024 |}.

Definition m_with_tweak (c : cfg) := with_tweak add64 N.lxor C240 c.
Definition m_encrypt_words (c : cfg) (nu : bool) := encrypt_words add64 N.lxor rotl64 c nu.
Definition m_decrypt_words (c : cfg) (nu : bool) := decrypt_words sub64 N.lxor rotr64 c nu.

(** byte level: [read_u64v_le] / [write_u64v_le] around the word functions *)
Definition m_encrypt (c : cfg) (nu : bool) (key : list N) (t0 t1 : N) (block : list N) : list N :=
  bytes_le 8 (m_encrypt_words c nu (m_with_tweak c (words_le 8 key) t0 t1) (words_le 8 block)).
Definition m_decrypt (c : cfg) (nu : bool) (key : list N) (t0 t1 : N) (block : list N) : list N :=
  bytes_le 8 (m_decrypt_words c nu (m_with_tweak c (words_le 8 key) t0 t1) (words_le 8 block)).
