(** PROFILE-EXPLICIT model of the wrapper of stream-ciphers/chacha/src/rustcrypto_impl.rs
    (audit finding C02-F1 / C11: "none of these calls panics in ANY BUILD PROFILE").

    [Model/ChaChaStream.v] has no build-profile parameter: its only panic sites are
    [BLOCK - have] and the [assert!] of [seek32].  This file is a second transcription of
    the same Rust in which EVERY arithmetic operation on a fixed-width integer that rustc
    compiles with an overflow check in a debug build (`+ - *`, `+=`, `-=`, unary `-`) is
    written [chk prof ty (mathematical result)]:

      prof = Debug    the result is out of the range of [ty]  ->  panic
      prof = Release  the result is wrapped (two's complement) into [ty]

    Operations that never panic in either profile are modelled as wrapping:
    `wrapping_sub`, `overflowing_sub`, `as` casts ([cast ty]), `<<`/`>>` by a constant
    smaller than the bit width, `/` and `%` by the non-zero constant [BLOCK64], `&`, `|`, `!`.
    Panics that do not depend on the profile stay unconditional: `assert!`, a slice start
    beyond the end, `split_at_mut(mid)` with [mid > len].

    Types (rustcrypto_impl.rs:13-19): have : i8, len : u64, fresh : bool; slice lengths
    usize (64 bit); try_current_pos computes in u128 / i128.  Integers are carried as [Z]
    here (the value the Rust variable holds) and converted to the [N] fields of
    [Model.ChaChaStream.buffer] at the stores.

    The block producers [state.refill], [state.refill4] and [state.seek64/seek32] are the
    same parameters / definitions as in Model/ChaChaStream.v (guts.rs; their arithmetic is
    `wrapping_add`, `as u32`, `>> 32`, `<< 32` only - nothing rustc checks).

    Inventory of the checked operations, by line of rustcrypto_impl.rs:
      :44   self.have += BLOCK as i8                i8    [lazy_fill_chk]
      :53   data.len() - have_ready                 usize [apply_body_chk]
      :54   datalen / BLOCK64 + u64::from(..)       u64   [apply_body_chk]
      :63   BLOCK - have                            usize [apply_body_chk] (+ slice start, both profiles)
      :67   have -= have_ready                      usize [apply_body_chk]
      :86   BLOCK - dd.len()                        usize [tail_loop_chk]
      :98   -((ct % BLOCK64) as i8)                 i8    [seek64b_chk]
      :107  SMALL_LEN - blockct                     u64   [seek32b_chk]   (after the assert!, both profiles)
      :108  -((ct % BLOCK64) as i8)                 i8    [seek32b_chk]
      :236  total - left                            u128  [try_current_pos_chk]
      :236  (..) * u128::from(BLOCK64)              u128  [try_current_pos_chk]
      :236  (.. as i128) - i128::from(have)         i128  [try_current_pos_chk]
      :242  SMALL_LEN * BLOCK64                     u64   [try_seek_chk]
    Unchecked (wrapping / cannot fail): :46 wrapping_sub, :49 `as usize`, :53 `as u64`,
    :55 overflowing_sub, :70 `& !(BUFSZ - 1)` (constant), :88 `as i8`, :96 wrapping_sub,
    :98/:108 `as i8`, :109 `as u32`, :182 `>> 32`, :186 `&`, :187 `<< 32`, `|`, :229 `1 << 64` (u128),
    :236 `as i128`, :237 `as u128`. *)
From Coq Require Import NArith ZArith List Lia Arith Bool.
From CC Require Import Lib.Words Lib.Bytes Lib.ListX Model.ChaChaGuts Model.ChaChaStream.
Import ListNotations.
Local Open Scope N_scope.

Inductive profile := Debug | Release.

(** the integer types that occur in the wrapper *)
Inductive ity := I8 | U64 | USize | U128 | I128.

Definition ity_bits (t : ity) : Z :=
  match t with I8 => 8 | U64 | USize => 64 | U128 | I128 => 128 end.
Definition ity_signed (t : ity) : bool :=
  match t with I8 | I128 => true | _ => false end.
Definition ity_min (t : ity) : Z :=
  if ity_signed t then (- 2 ^ (ity_bits t - 1))%Z else 0%Z.
Definition ity_max (t : ity) : Z :=
  (if ity_signed t then 2 ^ (ity_bits t - 1) - 1 else 2 ^ ity_bits t - 1)%Z.

Definition in_ity (t : ity) (x : Z) : bool := ((ity_min t <=? x) && (x <=? ity_max t))%Z.

(** two's-complement wrap of the mathematical value [x] into [t] (what release code computes,
    and what an `as` cast computes in every profile) *)
Definition wrap_ity (t : ity) (x : Z) : Z :=
  let m := (x mod 2 ^ ity_bits t)%Z in
  if ity_signed t && (2 ^ (ity_bits t - 1) <=? m)%Z then (m - 2 ^ ity_bits t)%Z else m.

(** `x as t` *)
Definition cast (t : ity) (x : Z) : Z := wrap_ity t x.

(** a checked arithmetic operation whose mathematical result is [x]:
    [None] = "attempt to add/subtract/multiply/negate with overflow" *)
Definition chk (prof : profile) (t : ity) (x : Z) : option Z :=
  if in_ity t x then Some x
  else match prof with Debug => None | Release => Some (wrap_ity t x) end.

(** observations: those of Model/ChaChaStream.v, plus a panic of [try_current_pos]
    (which [obs] cannot express) *)
Inductive obsc := OC (o : obs) | OCPosPanic.

Definition obsc_panics (o : obsc) : bool :=
  match o with
  | OC (ObsSeek RPanic) | OC (ObsApply RPanic _) | OCPosPanic => true
  | _ => false
  end.

(** outcome of [try_current_pos]: a panic, or the [Result] of the Rust *)
Inductive pos_outcome := PosPanic | PosRet (r : option Z).

Section StreamChk.
  Variable prof : profile.
  Variable refill1 : chacha -> list N * chacha.
  Variable refill4 : chacha -> list N * chacha.

  (** rustcrypto_impl.rs:42-48
        if self.have < 0 {
            self.state.refill(drounds, &mut self.out);
            self.have += BLOCK as i8;                     // checked, i8
            self.len = self.len.wrapping_sub(1);          // wrapping
            self.fresh = false;
        }
      [None] = panic *)
  Definition lazy_fill_chk (b : buffer) : option buffer :=
    if (b_have b <? 0)%Z then
      let '(o, s') := refill1 (b_state b) in
      match chk prof I8 (b_have b + cast I8 64)%Z with
      | None => None
      | Some h' => Some (Buf s' o h' (wrap 64 (b_len b + (2 ^ 64 - 1))) false)
      end
    else Some b.

  (** rustcrypto_impl.rs:81-87
        for dd in data.chunks_mut(BLOCK) {
            self.state.refill(drounds, &mut self.out);
            for (data_b, key_b) in dd.iter_mut().zip(self.out.iter()) { *data_b ^= *key_b; }
            have = BLOCK - dd.len();                      // checked, usize
        } *)
  Fixpoint tail_loop_chk (cs : list (list N)) (s : chacha) (out : list N) (have : N)
    : option (chacha * list N * N * list N) :=
    match cs with
    | [] => Some (s, out, have, [])
    | dd :: r =>
        let '(o, s') := refill1 s in
        match chk prof USize (64 - Z.of_nat (length dd))%Z with
        | None => None
        | Some hz =>
            match tail_loop_chk r s' o (Z.to_N hz) with
            | None => None
            | Some (s'', out', have', rest) => Some (s'', out', have', xor_bytes dd o ++ rest)
            end
        end
    end.

  (** [Buffer::try_apply_keystream::<EnableWide>], rustcrypto_impl.rs:49-89 (after the lazy fill) *)
  Definition apply_body_chk (wide : bool) (b : buffer) (data : list N) : result * buffer * list N :=
    let panic := (RPanic, b, data) in
    (* :49  let mut have = self.have as usize;                        cast (sign-extending) *)
    let have := Z.to_N (cast USize (b_have b)) in
    let dl := N.of_nat (length data) in
    (* :50  let have_ready = cmp::min(have, data.len()); *)
    let have_ready := N.min have dl in
    (* :53  let datalen = (data.len() - have_ready) as u64;           checked usize, then cast *)
    match chk prof USize (Z.of_N dl - Z.of_N have_ready)%Z with
    | None => panic
    | Some dz =>
    let datalen := Z.to_N (cast U64 dz) in
    (* :54  let blocks_needed = datalen / BLOCK64 + u64::from(datalen % BLOCK64 != 0);   checked u64 *)
    match chk prof U64 (Z.of_N (datalen / 64) + (if (datalen mod 64 =? 0)%N then 0 else 1))%Z with
    | None => panic
    | Some bz =>
    let blocks_needed := Z.to_N bz in
    (* :55  let (l, o) = self.len.overflowing_sub(blocks_needed);     never panics *)
    let o := b_len b <? blocks_needed in
    let l := wrap 64 (b_len b + 2 ^ 64 - blocks_needed) in
    (* :56  if o && !self.fresh { return Err(()); } *)
    if o && negb (b_fresh b) then (RErr, b, data)
    else
      (* :59-60 *)
      let fresh' := b_fresh b && (blocks_needed =? 0) in
      (* :62  data.split_at_mut(have_ready)       panics in both profiles if have_ready > data.len() *)
      if dl <? have_ready then panic
      else
      let hr := N.to_nat have_ready in
      (* :63  &self.out[(BLOCK - have)..]         checked usize; then the slice start must be <= 64 (both profiles) *)
      match chk prof USize (64 - Z.of_N have)%Z with
      | None => panic
      | Some stz =>
      let start := Z.to_N stz in
      if 64 <? start then panic
      else
      let d0 := xor_bytes (firstn hr data) (skipn (N.to_nat start) (b_out b)) in
      let data1 := skipn hr data in
      (* :67  have -= have_ready;                 checked usize *)
      match chk prof USize (Z.of_N have - Z.of_N have_ready)%Z with
      | None => panic
      | Some h1z =>
      let have1 := Z.to_N h1z in
      (* :69-79  wide chunks: data.len() & !(BUFSZ - 1) is a constant mask, split_at_mut(mid <= len) *)
      let nwide := if wide then (length data1 / 256)%nat else 0%nat in
      let '(s2, out_w) := wide_loop refill4 nwide (b_state b) data1 in
      let data2 := skipn (256 * nwide) data1 in
      (* :81-87 *)
      match tail_loop_chk (chunks 64 (length data2) data2) s2 (b_out b) have1 with
      | None => panic
      | Some (s3, outb, have3, out_t) =>
          (* :88  self.have = have as i8;         cast (truncating) *)
          (ROk, Buf s3 outb (cast I8 (Z.of_N have3)) l fresh', d0 ++ out_w ++ out_t)
      end end end
    end end.

  Definition apply_core_chk (wide : bool) (b0 : buffer) (data : list N) : result * buffer * list N :=
    match lazy_fill_chk b0 with
    | None => (RPanic, b0, data)
    | Some b1 => apply_body_chk wide b1 data
    end.

  (** [ChaChaAny::try_apply_keystream], rustcrypto_impl.rs:174-189; `>> 32`, `& 0xffff_ffff`,
      `<< 32`, `|` on u64 never panic (constant shift amounts below 64) - as in Model/ChaChaStream.v
      the net effect is "d word 1 is put back" *)
  Definition try_apply_chk (is12 : bool) (b : buffer) (data : list N) : result * buffer * list N :=
    if negb is12 then apply_core_chk true b data
    else
      let nonce0 := nth 1 (cd (b_state b)) 0 in
      let '(r, b', out) := apply_core_chk true b data in
      let s := b_state b' in
      (r, Buf (CC (cb s) (cc s) (upd 1 nonce0 (cd s))) (b_out b') (b_have b') (b_len b') (b_fresh b'), out).

  (** `-((ct % BLOCK64) as i8)`: the cast wraps, the negation is checked (i8) *)
  Definition neg_offset_chk (ct : N) : option Z :=
    chk prof I8 (- cast I8 (Z.of_N (ct mod 64)))%Z.

  (** rustcrypto_impl.rs:94-100 *)
  Definition seek64b_chk (b : buffer) (ct : N) : option buffer :=
    let blockct := ct / 64 in
    match neg_offset_chk ct with
    | None => None
    | Some h => Some (Buf (seek64 (b_state b) blockct) (b_out b) h
                          (wrap 64 (2 ^ 64 - blockct)) (blockct =? 0))
    end.

  (** rustcrypto_impl.rs:104-110; the assert! panics in both profiles; `SMALL_LEN - blockct` checked u64 *)
  Definition seek32b_chk (b : buffer) (ct : N) : result * buffer :=
    let blockct := ct / 64 in
    if (blockct <? 2 ^ 32) || ((blockct =? 2 ^ 32) && (ct mod 64 =? 0)) then
      match chk prof U64 (2 ^ 32 - Z.of_N blockct)%Z with
      | None => (RPanic, b)
      | Some lz =>
          match neg_offset_chk ct with
          | None => (RPanic, b)
          | Some h => (ROk, Buf (seek32 (b_state b) blockct) (b_out b) h (Z.to_N lz) (b_fresh b))
          end
      end
    else (RPanic, b).

  (** rustcrypto_impl.rs:240-247; `SMALL_LEN * BLOCK64` checked u64 (evaluated only when NonceSize = 12:
      `&&` is short-circuit) *)
  Definition try_seek_chk (is12 : bool) (b : buffer) (pos : Z) : result * buffer :=
    if ((pos <? 0) || (2 ^ 64 <=? pos))%Z then (RErr, b)
    else
      let ct := Z.to_N pos in
      if is12 then
        match chk prof U64 (2 ^ 32 * 64)%Z with
        | None => (RPanic, b)
        | Some lim =>
            if (lim <? Z.of_N ct)%Z then (RErr, b) else seek32b_chk b ct
        end
      else
        match seek64b_chk b ct with
        | None => (RPanic, b)
        | Some b' => (ROk, b')
        end.

  (** rustcrypto_impl.rs:222-238
        let total: u128 = if NonceSize::U32 == 12 { u128::from(SMALL_LEN) } else { 1 << 64 };
        let left = if self.state.fresh { total } else { u128::from(self.state.len) };
        let pos = ((total - left) * u128::from(BLOCK64)) as i128 - i128::from(self.state.have);
        T::try_from(pos as u128).map_err(|_| OverflowError) *)
  Definition try_current_pos_chk (is12 : bool) (b : buffer) (tmax : Z) : pos_outcome :=
    let total := (if is12 then 2 ^ 32 else cast U128 (1 * 2 ^ 64))%Z in
    let left := if b_fresh b then total else Z.of_N (b_len b) in
    match chk prof U128 (total - left)%Z with
    | None => PosPanic
    | Some d =>
    match chk prof U128 (d * 64)%Z with
    | None => PosPanic
    | Some m =>
    match chk prof I128 (cast I128 m - b_have b)%Z with
    | None => PosPanic
    | Some p =>
        let posu := cast U128 p in
        PosRet (if (posu <=? tmax)%Z then Some posu else None)
    end end end.

  (** * Histories *)
  Definition step_chk (is12 : bool) (b : buffer) (o : op) : buffer * obsc :=
    match o with
    | OSeek pos => let '(r, b') := try_seek_chk is12 b pos in (b', OC (ObsSeek r))
    | OApply data => let '(r, b', out) := try_apply_chk is12 b data in (b', OC (ObsApply r out))
    | OPos tmax => match try_current_pos_chk is12 b tmax with
                   | PosPanic => (b, OCPosPanic)
                   | PosRet p => (b, OC (ObsPos p))
                   end
    end.

  Fixpoint run_chk (is12 : bool) (b : buffer) (ops : list op) : list obsc :=
    match ops with
    | [] => []
    | o :: r => let '(b', ob) := step_chk is12 b o in ob :: run_chk is12 b' r
    end.
End StreamChk.

(** the seven cipher types with the real block producers, in build profile [prof] *)
Definition m_run_chk (prof : profile) (v : variant) (drounds : nat) (key nonce : list N) (ops : list op)
  : list obsc :=
  run_chk prof (real_refill1 drounds) (real_refill4 drounds) (is12_of v) (m_new v drounds key nonce) ops.
