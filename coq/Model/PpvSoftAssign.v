(** Model of the compound-assignment forwarding macros of ppv-lite86's soft.rs,
    [fwd_binop_assign_x2!] (soft.rs lines 31-41) and [fwd_binop_assign_x4!] (lines 242-253),
    instantiated there for [BitAndAssign], [BitOrAssign], [BitXorAssign] and [AddAssign]
    ([&=], [|=], [^=], [+=] on [x2<W,G>] / [x4<W>] — what ChaCha's and BLAKE's [+=]/[^=] call).
    They are separate Rust code from [fwd_binop_x2!]/[fwd_binop_x4!] (Model/PpvSoft.v,
    [x2_binop]/[x4_binop]): each statement updates ONE element of [self] in place through the
    ELEMENT's compound-assignment method,

        (self.0[0]).$fn_assign(rhs.0[0]);
        (self.0[1]).$fn_assign(rhs.0[1]);            (x4: four statements, 0 to 3)

    The model is the state after each statement, in the order of the source: [self] is the
    array (list of elements, element 0 first), statement [i] reads [self.0[i]] from the
    CURRENT array and [rhs.0[i]] from the (by-value, unchanged) right operand, calls the
    element's assign method [fa : W -> W -> outcome W] (old value of [*self], [rhs] |-> new value
    of [*self], or panic) and stores the result back at index [i].

    The element assign methods are [*self = self.$fn(rhs)] on every back end
    (x86_64/sse2.rs [impl_binop_assign!] and, for u32x4x2_avx2, [impl_assign!];
    generic.rs [bitand_assign]/[bitor_assign]/[bitxor_assign]/[add_assign]): [elem_assign]. *)
From Coq Require Import NArith List Bool Arith.
From CC Require Import Lib.ListX Model.PpvSoft.
Import ListNotations.

Section SoftAssign.
  Context {W : Type}.
  (** filler for [self.0[j]] with a literal [j] on a fixed-size array (cannot fail) *)
  Variable d : W.

  (** [fn $fn_assign(&mut self, rhs: Self) { *self = self.$fn(rhs); }] *)
  Definition elem_assign (f : W -> W -> outcome W) (self rhs : W) : outcome W :=
    let* r := f self rhs in Ok r.

  (** [fwd_binop_assign_x2!] *)
  Definition x2_binop_assign (fa : W -> W -> outcome W) (self rhs : list W) : outcome (list W) :=
    let* e0 := fa (nth 0 self d) (nth 0 rhs d) in
    let self := upd 0 e0 self in
    let* e1 := fa (nth 1 self d) (nth 1 rhs d) in
    let self := upd 1 e1 self in
    Ok self.

  (** [fwd_binop_assign_x4!] *)
  Definition x4_binop_assign (fa : W -> W -> outcome W) (self rhs : list W) : outcome (list W) :=
    let* e0 := fa (nth 0 self d) (nth 0 rhs d) in
    let self := upd 0 e0 self in
    let* e1 := fa (nth 1 self d) (nth 1 rhs d) in
    let self := upd 1 e1 self in
    let* e2 := fa (nth 2 self d) (nth 2 rhs d) in
    let self := upd 2 e2 self in
    let* e3 := fa (nth 3 self d) (nth 3 rhs d) in
    let self := upd 3 e3 self in
    Ok self.
End SoftAssign.

(** an element method that cannot panic (every x86 one-register method is a total function
    of the register image), as the outcome-valued method the wrappers forward to *)
Definition ok1 {A B} (f : A -> B) : A -> outcome B := fun x => Ok (f x).
Definition ok2 {A B C} (f : A -> B -> C) : A -> B -> outcome C := fun x y => Ok (f x y).
