(** Model of the portable back end of ppv-lite86,
    /repo/utils-simd/ppv-lite86/src/generic.rs (cargo feature [no_simd]), as
    written, after the repairs P6 ([u64x4_generic::insert]) and P7
    ([u64x4_generic::shuffle1230/3012]).

    Values.  [u32x4_generic([u32;4])], [u64x2_generic([u64;2])],
    [u128x1_generic([u128;1])] are the lists of their words (element 0 first).
    [vec128_storage] (a [repr(C)] union of [[u32;4]] and [[u64;2]]) is the list
    of its 16 bytes in memory order; building it from one field and reading
    the other is little-endian reinterpretation ([bytes_le]/[words_le]; the
    big-endian [cfg] arms do not exist in this file and the host is
    little-endian).  [vec256_storage]/[vec512_storage] are structs holding an
    array of 2 / 4 [vec128_storage]: lists of 2 / 4 byte lists.  The wide
    vector types are [x2]/[x4] of the three base types (Model/PpvSoft.v).

    Checked operators.  Every [<<], [>>], [-] of the source goes through
    [shl_chk]/[shr_chk]/[sub_chk], which panic in the [Debug] profile exactly
    when rustc's overflow checks do (shift amount >= width, negative
    difference) and wrap in [Release]; array indexing with a run-time index
    and the [unwrap()] of zerocopy's size check panic in both profiles.
    [wrapping_add], [rotate_left/right], [swap_bytes], [to_le/to_be], [!], [&],
    [|], [^] are total. *)
From Coq Require Import NArith List Bool Arith.
From CC Require Import Lib.Words Lib.Bytes Lib.ListX Model.PpvSoft.
Import ListNotations.
Local Open Scope N_scope.

(** * Rust scalar primitives *)
Definition overflow {A} (p : profile) (wrapped : A) : outcome A :=
  match p with Debug => Panic | Release => Ok wrapped end.
(** [x << s], [x >> s] on [w]-bit unsigned integers: overflow iff [s >= w];
    unchecked code masks the amount; bits shifted out are lost *)
Definition shl_chk (p : profile) (w x s : N) : outcome N :=
  if s <? w then Ok (wrap w (N.shiftl x s))
  else overflow p (wrap w (N.shiftl x (N.land s (w - 1)))).
Definition shr_chk (p : profile) (w x s : N) : outcome N :=
  if s <? w then Ok (N.shiftr x s)
  else overflow p (N.shiftr x (N.land s (w - 1))).
(** [a - b] *)
Definition sub_chk (p : profile) (w a b : N) : outcome N :=
  if b <=? a then Ok (a - b) else overflow p (subw w a b).
(** [x.rotate_right(n)], [x.rotate_left(n)]: total, amount taken modulo the width *)
Definition rotate_right (w x n : N) : N := rotrw w (N.land n (w - 1)) x.
Definition rotate_left (w x n : N) : N := rotlw w (N.land n (w - 1)) x.
Definition wrapping_add (w a b : N) : N := addw w a b.
(** [!x] *)
Definition bitnot (w x : N) : N := notw w x.
(** [x.swap_bytes()]; [to_le] is the identity and [to_be] is [swap_bytes] on this (little-endian) target *)
Definition swap_bytes (w x : N) : N := le_join (rev (le_split (N.to_nat (w / 8)) x)).
Definition to_le (w x : N) : N := x.
Definition to_be (w x : N) : N := swap_bytes w x.

(** * vec128_storage *)
Definition st128 := list N.
(** [vec128_storage { d }], [s.d], [vec128_storage { q }], [s.q] *)
Definition st_of_d (d : list N) : st128 := bytes_le 4 d.
Definition st_d (s : st128) : list N := words_le 4 s.
Definition st_of_q (q : list N) : st128 := bytes_le 8 q.
Definition st_q (s : st128) : list N := words_le 8 s.
(** [Default]: [Self { q: [0, 0] }];  [PartialEq]: [self.q == rhs.q] *)
Definition st128_default : st128 := st_of_q [0; 0].
Definition st128_eq (a b : st128) : bool := nlist_eqb (st_q a) (st_q b).

(** [vec256_storage], [vec512_storage]: [new128], [split128] *)
Definition new128 (v : list st128) : list st128 := v.
Definition split128 (s : list st128) : list st128 := s.
(** [From<vec256_storage> for [u64; 4]], [From<[u64; 4]> for vec256_storage] *)
Definition st256_to_q4 (s : list st128) : list N :=
  let ab := st_q (nth 0 s []) in
  let cd := st_q (nth 1 s []) in
  [nth 0 ab 0; nth 1 ab 0; nth 0 cd 0; nth 1 cd 0].
Definition st256_of_q4 (q : list N) : list st128 :=
  [st_of_q [nth 0 q 0; nth 1 q 0]; st_of_q [nth 2 q 0; nth 3 q 0]].
Definition st256_default : list st128 := [st128_default; st128_default].
Definition st512_default : list st128 := [st128_default; st128_default; st128_default; st128_default].

(** * the three 128-bit vector types *)
Inductive vt := U32x4 | U64x2 | U128x1.
(** word width in bits / bytes, number of words *)
Definition vt_w (t : vt) : N := match t with U32x4 => 32 | U64x2 => 64 | U128x1 => 128 end.
Definition vt_k (t : vt) : nat := match t with U32x4 => 4 | U64x2 => 8 | U128x1 => 16 end%nat.
Definition vt_n (t : vt) : nat := match t with U32x4 => 4 | U64x2 => 2 | U128x1 => 1 end%nat.

(** [o_of_q]: [u128::from(q[0]) | (u128::from(q[1]) << 64)];  [q_of_o]: [[o as u64, (o >> 64) as u64]] *)
Definition o_of_q (p : profile) (q : list N) : outcome N :=
  let* hi := shl_chk p 128 (nth 1 q 0) 64 in Ok (N.lor (nth 0 q 0) hi).
Definition q_of_o (p : profile) (o : N) : outcome (list N) :=
  let* hi := shr_chk p 128 o 64 in Ok [wrap 64 o; wrap 64 hi].

(** [From<T> for vec128_storage] and [Store<vec128_storage>::unpack] *)
Definition into128 (p : profile) (t : vt) (v : list N) : outcome st128 :=
  match t with
  | U32x4 => Ok (st_of_d v)
  | U64x2 => Ok (st_of_q v)
  | U128x1 => let* q := q_of_o p (nth 0 v 0) in Ok (st_of_q q)
  end.
Definition unpack128 (p : profile) (t : vt) (s : st128) : outcome (list N) :=
  match t with
  | U32x4 => Ok (st_d s)
  | U64x2 => Ok (st_q s)
  | U128x1 => let* o := o_of_q p (st_q s) in Ok [o]
  end.

(** * dmap, dmap2, qmap, qmap2, omap, omap2 *)
Section Maps.
  Variable p : profile.
  Variable t : vt.
  Definition dmap (f : N -> outcome N) (v : list N) : outcome (list N) :=
    let* s := into128 p t v in
    let d := st_d s in
    let* r0 := f (nth 0 d 0) in
    let* r1 := f (nth 1 d 0) in
    let* r2 := f (nth 2 d 0) in
    let* r3 := f (nth 3 d 0) in
    unpack128 p t (st_of_d [r0; r1; r2; r3]).
  Definition dmap2 (f : N -> N -> outcome N) (a b : list N) : outcome (list N) :=
    let* sa := into128 p t a in
    let* sb := into128 p t b in
    let ao := st_d sa in
    let bo := st_d sb in
    let* r0 := f (nth 0 ao 0) (nth 0 bo 0) in
    let* r1 := f (nth 1 ao 0) (nth 1 bo 0) in
    let* r2 := f (nth 2 ao 0) (nth 2 bo 0) in
    let* r3 := f (nth 3 ao 0) (nth 3 bo 0) in
    unpack128 p t (st_of_d [r0; r1; r2; r3]).
  Definition qmap (f : N -> outcome N) (v : list N) : outcome (list N) :=
    let* s := into128 p t v in
    let q := st_q s in
    let* r0 := f (nth 0 q 0) in
    let* r1 := f (nth 1 q 0) in
    unpack128 p t (st_of_q [r0; r1]).
  Definition qmap2 (f : N -> N -> outcome N) (a b : list N) : outcome (list N) :=
    let* sa := into128 p t a in
    let* sb := into128 p t b in
    let ao := st_q sa in
    let bo := st_q sb in
    let* r0 := f (nth 0 ao 0) (nth 0 bo 0) in
    let* r1 := f (nth 1 ao 0) (nth 1 bo 0) in
    unpack128 p t (st_of_q [r0; r1]).
  Definition omap (f : N -> outcome N) (v : list N) : outcome (list N) :=
    let* s := into128 p t v in
    let* ao := o_of_q p (st_q s) in
    let* r := f ao in
    let* q := q_of_o p r in
    unpack128 p t (st_of_q q).
  Definition omap2 (f : N -> N -> outcome N) (a b : list N) : outcome (list N) :=
    let* sa := into128 p t a in
    let* sb := into128 p t b in
    let* ao := o_of_q p (st_q sa) in
    let* bo := o_of_q p (st_q sb) in
    let* r := f ao bo in
    let* q := q_of_o p r in
    unpack128 p t (st_of_q q).

  (** * impl_bitops! (instantiated for all three types) *)
  Definition g_not (v : list N) := omap (fun x => Ok (bitnot 128 x)) v.
  Definition g_and (a b : list N) := omap2 (fun x y => Ok (N.land x y)) a b.
  Definition g_or (a b : list N) := omap2 (fun x y => Ok (N.lor x y)) a b.
  Definition g_xor (a b : list N) := omap2 (fun x y => Ok (N.lxor x y)) a b.
  Definition g_andnot (a b : list N) := omap2 (fun x y => Ok (N.land (bitnot 128 x) y)) a b.
  (** [*self = *self & rhs] etc. *)
  Definition g_and_assign := g_and.
  Definition g_or_assign := g_or.
  Definition g_xor_assign := g_xor.

  (** [((x & lo) << n) | ((x & hi) >> n)] on u64 *)
  Definition swap_formula (lo hi n x : N) : outcome N :=
    let* a := shl_chk p 64 (N.land x lo) n in
    let* b := shr_chk p 64 (N.land x hi) n in
    Ok (N.lor a b).
  Definition g_swap1 := qmap (swap_formula 0x5555555555555555 0xaaaaaaaaaaaaaaaa 1).
  Definition g_swap2 := qmap (swap_formula 0x3333333333333333 0xcccccccccccccccc 2).
  Definition g_swap4 := qmap (swap_formula 0x0f0f0f0f0f0f0f0f 0xf0f0f0f0f0f0f0f0 4).
  Definition g_swap8 := qmap (swap_formula 0x00ff00ff00ff00ff 0xff00ff00ff00ff00 8).
  Definition g_swap16 := dmap (fun x => Ok (rotate_left 32 x 16)).
  Definition g_swap32 := qmap (fun x => Ok (rotate_left 64 x 32)).
  (** [(x << 64) | (x >> 64)] on u128 *)
  Definition g_swap64 :=
    omap (fun x => let* a := shl_chk p 128 x 64 in
                   let* b := shr_chk p 128 x 64 in Ok (N.lor a b)).
End Maps.

(** [rotate_u128_right(x, i)]: [(x >> i) | (x << (128 - i))], [i : u32] *)
Definition rotate_u128_right (p : profile) (x i : N) : outcome N :=
  let* a := shr_chk p 128 x i in
  let* s := sub_chk p 32 128 i in
  let* b := shl_chk p 128 x s in
  Ok (N.lor a b).

(** [RotateEachWord32] (k = 7 8 11 12 16 20 24 25) and [RotateEachWord64] (k = 32;
    not implemented for [u32x4_generic]) *)
Definition g_rotr (p : profile) (t : vt) (k : N) (v : list N) : outcome (list N) :=
  match t with
  | U32x4 => dmap p t (fun x => Ok (rotate_right 32 x k)) v
  | U64x2 => qmap p t (fun x => Ok (rotate_right 64 x k)) v
  | U128x1 => let* r := rotate_u128_right p (nth 0 v 0) k in Ok [r]
  end.

(** [Add]: [dmap2/qmap2/omap2 (wrapping_add)]; [AddAssign]: [*self = *self + rhs] *)
Definition g_add (p : profile) (t : vt) (a b : list N) : outcome (list N) :=
  match t with
  | U32x4 => dmap2 p t (fun x y => Ok (wrapping_add 32 x y)) a b
  | U64x2 => qmap2 p t (fun x y => Ok (wrapping_add 64 x y)) a b
  | U128x1 => omap2 p t (fun x y => Ok (wrapping_add 128 x y)) a b
  end.
Definition g_add_assign := g_add.

(** [BSwap] *)
Definition g_bswap (p : profile) (t : vt) (v : list N) : outcome (list N) :=
  match t with
  | U32x4 => dmap p t (fun x => Ok (swap_bytes 32 x)) v
  | U64x2 => qmap p t (fun x => Ok (swap_bytes 64 x)) v
  | U128x1 => omap p t (fun x => Ok (swap_bytes 128 x)) v
  end.

(** [StoreBytes] for [u32x4_generic] and [u64x2_generic] ([u128x1_generic] has none).
    [read_from_bytes(input).unwrap()]: the slice must have exactly the size of the
    type; the bytes are the native (little-endian) image of the array.
    [x.write_to(out).unwrap()]: likewise for the destination. *)
Definition read_from_bytes (t : vt) (input : list N) : outcome (list N) :=
  if (length input =? 16)%nat then Ok (words_le (vt_k t) input) else Panic.
Definition write_to (t : vt) (v : list N) (outlen : nat) : outcome (list N) :=
  if (outlen =? 16)%nat then Ok (bytes_le (vt_k t) v) else Panic.
Definition wmap (p : profile) (t : vt) (f : N -> outcome N) (v : list N) : outcome (list N) :=
  match t with U32x4 => dmap p t f v | _ => qmap p t f v end.
Definition g_read_le (p : profile) (t : vt) (input : list N) : outcome (list N) :=
  let* x := read_from_bytes t input in wmap p t (fun x => Ok (to_le (vt_w t) x)) x.
Definition g_read_be (p : profile) (t : vt) (input : list N) : outcome (list N) :=
  let* x := read_from_bytes t input in wmap p t (fun x => Ok (to_be (vt_w t) x)) x.
Definition g_write_le (p : profile) (t : vt) (v : list N) (outlen : nat) : outcome (list N) :=
  let* x := wmap p t (fun x => Ok (to_le (vt_w t) x)) v in write_to t x outlen.
Definition g_write_be (p : profile) (t : vt) (v : list N) (outlen : nat) : outcome (list N) :=
  let* x := wmap p t (fun x => Ok (to_be (vt_w t) x)) v in write_to t x outlen.

(** [MultiLane<[u32;4]>], [MultiLane<[u64;2]>], [MultiLane<[u128;1]>]: [self.0] / [Self(xs)] *)
Definition g_to_lanes (v : list N) : list N := v.
Definition g_from_lanes (xs : list N) : list N := xs.

(** [Vec4<u32> for u32x4_generic], [Vec2<u64> for u64x2_generic] *)
Definition g_extract (v : list N) (i : N) : outcome N := index v i.
Definition g_insert (v : list N) (x : N) (i : N) : outcome (list N) := store v i x.

(** [Words4 for u32x4_generic] ([shuffle2301] is [swap64]) and [LaneWords4] (forwards to [Words4]) *)
Definition g32_shuffle2301 (p : profile) (v : list N) : outcome (list N) := g_swap64 p U32x4 v.
Definition g32_shuffle1230 (v : list N) : list N := [nth 3 v 0; nth 0 v 0; nth 1 v 0; nth 2 v 0].
Definition g32_shuffle3012 (v : list N) : list N := [nth 1 v 0; nth 2 v 0; nth 3 v 0; nth 0 v 0].
Definition g32_shuffle_lane_words2301 := g32_shuffle2301.
Definition g32_shuffle_lane_words1230 := g32_shuffle1230.
Definition g32_shuffle_lane_words3012 := g32_shuffle3012.

(** * u64x4_generic = x2<u64x2_generic, G1>: the methods written in generic.rs
      (everything else comes from the x2 forwarding of soft.rs) *)
Definition u64x4_to_lanes (v : list (list N)) : list N :=
  let a := g_to_lanes (nth 0 v []) in
  let b := g_to_lanes (nth 1 v []) in
  [nth 0 a 0; nth 1 a 0; nth 0 b 0; nth 1 b 0].
Definition u64x4_from_lanes (xs : list N) : list (list N) :=
  [g_from_lanes [nth 0 xs 0; nth 1 xs 0]; g_from_lanes [nth 2 xs 0; nth 3 xs 0]].
(** [Vec4<u64>]: [extract]: [let d = self.to_lanes(); d[i]];
    [insert] (after repair P6): [self.0[i/2] = self.0[i/2].insert(v, i % 2); self] *)
Definition u64x4_extract (v : list (list N)) (i : N) : outcome N := index (u64x4_to_lanes v) i.
Definition u64x4_insert (v : list (list N)) (x : N) (i : N) : outcome (list (list N)) :=
  let* lane := index v (i / 2) in
  let* lane' := g_insert lane x (i mod 2) in
  store v (i / 2) lane'.
(** [Words4] (after repair P7) *)
Definition u64x4_shuffle2301 (v : list (list N)) : list (list N) := [nth 1 v []; nth 0 v []].
Definition u64x4_shuffle1230 (v : list (list N)) : list (list N) :=
  let x := u64x4_to_lanes v in u64x4_from_lanes [nth 3 x 0; nth 0 x 0; nth 1 x 0; nth 2 x 0].
Definition u64x4_shuffle3012 (v : list (list N)) : list (list N) :=
  let x := u64x4_to_lanes v in u64x4_from_lanes [nth 1 x 0; nth 2 x 0; nth 3 x 0; nth 0 x 0].

(** [Vector<[u32; 16]> for u32x4x4_generic] *)
Definition u32x4x4_to_scalars (v : list (list N)) : list N :=
  let a := nth 0 v [] in let b := nth 1 v [] in let c := nth 2 v [] in let e := nth 3 v [] in
  [nth 0 a 0; nth 1 a 0; nth 2 a 0; nth 3 a 0;
   nth 0 b 0; nth 1 b 0; nth 2 b 0; nth 3 b 0;
   nth 0 c 0; nth 1 c 0; nth 2 c 0; nth 3 c 0;
   nth 0 e 0; nth 1 e 0; nth 2 e 0; nth 3 e 0].

(** * the operations by name, for the case runner and the theorems *)
Inductive unop :=
| ONot | ORotr (k : N) | OSwap (n : N) | OBswap
| OShuffle (k : N)       (* Words4 of u32x4: 1230 2301 3012 *)
| OLaneShuffle (k : N).  (* LaneWords4 of u32x4 *)
Inductive binop := OAdd | OXor | OAnd | OOr | OAndnot.

(** [None]: the type has no such method *)
Definition g_unop (p : profile) (t : vt) (o : unop) (v : list N) : option (outcome (list N)) :=
  match o with
  | ONot => Some (g_not p t v)
  | ORotr k =>
      if existsb (N.eqb k) [7; 8; 11; 12; 16; 20; 24; 25] then Some (g_rotr p t k v)
      else if (k =? 32) && negb (match t with U32x4 => true | _ => false end) then Some (g_rotr p t k v)
      else None
  | OSwap 1 => Some (g_swap1 p t v)
  | OSwap 2 => Some (g_swap2 p t v)
  | OSwap 4 => Some (g_swap4 p t v)
  | OSwap 8 => Some (g_swap8 p t v)
  | OSwap 16 => Some (g_swap16 p t v)
  | OSwap 32 => Some (g_swap32 p t v)
  | OSwap 64 => Some (g_swap64 p t v)
  | OSwap _ => None
  | OBswap => Some (g_bswap p t v)
  | OShuffle k | OLaneShuffle k =>
      match t with
      | U32x4 =>
          if k =? 2301 then Some (g32_shuffle2301 p v)
          else if k =? 1230 then Some (Ok (g32_shuffle1230 v))
          else if k =? 3012 then Some (Ok (g32_shuffle3012 v))
          else None
      | _ => None
      end
  end.
Definition g_binop (p : profile) (t : vt) (o : binop) (a b : list N) : outcome (list N) :=
  match o with
  | OAdd => g_add p t a b
  | OXor => g_xor p t a b
  | OAnd => g_and p t a b
  | OOr => g_or p t a b
  | OAndnot => g_andnot p t a b
  end.
