(** Model of block-buffer 0.9 [BlockBuffer] (as used by the four hash crates)
    and of block-padding 0.2 [ZeroPadding::pad_block].

    The callback [f(&block)] becomes a returned list of emitted blocks, in
    call order; the hasher folds its compression function over that list.
    The buffer keeps its stale bytes exactly as the Rust does. *)
From Coq Require Import NArith List Arith Lia.
From CC Require Import Lib.Words Lib.Bytes Lib.ListX.
Import ListNotations.

Record bb := BB { bb_buf : list N; bb_pos : nat }.

Definition bb_new (size : nat) : bb := BB (repeat 0%N size) 0.

(** [dst[off..off+len(src)].copy_from_slice(src)] *)
Definition copy_at (dst : list N) (off : nat) (src : list N) : list N :=
  firstn off dst ++ src ++ skipn (off + length src) dst.

(** [set_zero(&mut dst[from..])] *)
Definition zero_from (dst : list N) (from : nat) : list N :=
  firstn from dst ++ repeat 0%N (length dst - from).
(** [set_zero(&mut dst[..upto])] *)
Definition zero_upto (dst : list N) (upto : nat) : list N :=
  repeat 0%N upto ++ skipn upto dst.

Definition bb_size (b : bb) : nat := length (bb_buf b).
Definition bb_remaining (b : bb) : nat := bb_size b - bb_pos b.

(** [input_block]: eager — a block is emitted as soon as it is full *)
Definition input_block (b : bb) (input : list N) : bb * list (list N) :=
  let size := bb_size b in
  let r := bb_remaining b in
  if length input <? r then
    (BB (copy_at (bb_buf b) (bb_pos b) input) (bb_pos b + length input), [])
  else
    let '(buf1, input1, out1) :=
      if negb (bb_pos b =? 0) then
        let buf1 := copy_at (bb_buf b) (bb_pos b) (firstn r input) in
        (buf1, skipn r input, [buf1])
      else (bb_buf b, input, []) in
    let chunks := chunks_exact size (length input1) input1 in
    let rem := skipn (size * length chunks) input1 in
    (BB (copy_at buf1 0 rem) (length rem), out1 ++ chunks).

(** [input_lazy]: the last (possibly full) block stays in the buffer *)
Definition input_lazy (b : bb) (input : list N) : bb * list (list N) :=
  let size := bb_size b in
  let r := bb_remaining b in
  if length input <=? r then
    (BB (copy_at (bb_buf b) (bb_pos b) input) (bb_pos b + length input), [])
  else
    let '(buf1, input1, out1) :=
      if negb (bb_pos b =? 0) then
        let buf1 := copy_at (bb_buf b) (bb_pos b) (firstn r input) in
        (buf1, skipn r input, [buf1])
      else (bb_buf b, input, []) in
    (* while input.len() > size: emit a block *)
    let n := (length input1 - 1) / size in
    let chunks := chunks_exact size n (firstn (size * n) input1) in
    let rem := skipn (size * n) input1 in
    (BB (copy_at buf1 0 rem) (length rem), out1 ++ chunks).

(** [digest_pad(up_to)] *)
Definition digest_pad (b : bb) (up_to : nat) : bb * list (list N) :=
  let size := bb_size b in
  let '(b1, out1) := if bb_pos b =? size then (BB (bb_buf b) 0, [bb_buf b]) else (b, []) in
  let buf2 := upd (bb_pos b1) 0x80%N (bb_buf b1) in
  let pos2 := bb_pos b1 + 1 in
  let buf3 := zero_from buf2 pos2 in
  if size - pos2 <? up_to then
    (BB (zero_upto buf3 pos2) pos2, out1 ++ [buf3])
  else (BB buf3 pos2, out1).

(** [len64_padding_be(data_len)] / [len128_padding_be]: [lenbytes] = 8 / 16 *)
Definition len_padding_be (lenbytes : nat) (b : bb) (data_len : N) : bb * list (list N) :=
  let '(b1, out1) := digest_pad b lenbytes in
  let n := bb_size b1 - lenbytes in
  let buf := copy_at (bb_buf b1) n (be_split lenbytes data_len) in
  (BB buf 0, out1 ++ [buf]).

(** [pad_with::<ZeroPadding>()]: returns the padded block; [None] is [Err(PadError)] *)
Definition pad_with_zero (b : bb) : option (bb * list N) :=
  if bb_size b <? bb_pos b then None
  else let buf := zero_from (bb_buf b) (bb_pos b) in Some (BB buf 0, buf).

Definition bb_reset (b : bb) : bb := BB (bb_buf b) 0.
