(** C18 — concurrent first use and interleaving of instances: the scheduling model.

    Global state: lazy dispatch cells ([lazy_static] IMPL cells of groestl/compressor.rs, the
    feature-detection cache behind [is_x86_feature_detected!]), a table of instances (hashers,
    ciphers), and threads. Every operation of a thread first obtains the implementation from
    the dispatch cell it consults and then runs on ITS OWN entry of the instance table.

    A lazy cell access is NOT atomic here: [read; if None then compute; write] are three
    separate micro-steps that any other thread's steps may interleave with. That is weaker than
    [std::sync::Once] (which lazy_static uses) and equal to the relaxed load/store cache of
    std_detect, so every behaviour of the real cells is a behaviour of this model.

    The initialiser is a deterministic function [choose cpu c] of the CPU oracle [cpu] (which
    features the processor reports) — a Section variable, not an axiom. *)
From Coq Require Import List Arith Lia Bool.
Import ListNotations.

Definition update {A} (f : nat -> A) (k : nat) (v : A) : nat -> A :=
  fun x => if Nat.eqb x k then v else f x.

Fixpoint set_nth {A} (l : list A) (i : nat) (x : A) : list A :=
  match l, i with
  | [], _ => []
  | _ :: r, O => x :: r
  | y :: r, S j => y :: set_nth r j x
  end.

Section Conc.
  Variables (V St Op Out : Type).
  Variable cpu : nat -> bool.
  Variable choose : (nat -> bool) -> nat -> V.
  Variable cell_of : Op -> nat.
  Variable exec : V -> Op -> St -> St * Out.

  Definition init (c : nat) : V := choose cpu c.

  (** where a thread is inside its current operation *)
  Inductive pc : Type :=
  | Idle                            (* about to read the dispatch cell *)
  | SawNone (c : nat)               (* read the cell, found it empty *)
  | Computed (c : nat) (v : V)      (* ran the initialiser, about to store *)
  | Ready (v : V).                  (* holds the implementation, about to run the operation *)

  Record thread := Th { t_inst : nat; t_prog : list Op; t_pc : pc; t_outs : list Out }.
  Record gstate := G { cells : nat -> option V; tbl : nat -> St; threads : list thread }.

  (** one micro-step of thread [i] *)
  Definition step_thread (g : gstate) (i : nat) (t : thread) : gstate :=
    match t_prog t with
    | [] => g
    | o :: rest =>
      let put t' := set_nth (threads g) i t' in
      match t_pc t with
      | Idle =>
        match cells g (cell_of o) with
        | Some v => G (cells g) (tbl g) (put (Th (t_inst t) (t_prog t) (Ready v) (t_outs t)))
        | None => G (cells g) (tbl g) (put (Th (t_inst t) (t_prog t) (SawNone (cell_of o)) (t_outs t)))
        end
      | SawNone c => G (cells g) (tbl g) (put (Th (t_inst t) (t_prog t) (Computed c (init c)) (t_outs t)))
      | Computed c v =>
        G (update (cells g) c (Some v)) (tbl g) (put (Th (t_inst t) (t_prog t) (Ready v) (t_outs t)))
      | Ready v =>
        let r := exec v o (tbl g (t_inst t)) in
        G (cells g) (update (tbl g) (t_inst t) (fst r))
          (put (Th (t_inst t) rest Idle (t_outs t ++ [snd r])))
      end
    end.

  Definition step (g : gstate) (i : nat) : gstate :=
    match nth_error (threads g) i with
    | Some t => step_thread g i t
    | None => g
    end.

  (** a schedule chooses which thread takes its next micro-step *)
  Definition run (sched : list nat) (g : gstate) : gstate := fold_left step sched g.

  (** single-threaded, one-at-a-time reference *)
  Fixpoint seq_run (s : St) (ops : list Op) : St * list Out :=
    match ops with
    | [] => (s, [])
    | o :: r => let e := exec (init (cell_of o)) o s in
                let q := seq_run (fst e) r in
                (fst q, snd e :: snd q)
    end.

  (** a cold process: empty cells, threads at the start of their programs, one instance each *)
  Definition initial (g : gstate) : Prop :=
    (forall c, cells g c = None)
    /\ (forall t, In t (threads g) -> t_pc t = Idle /\ t_outs t = [])
    /\ NoDup (map t_inst (threads g)).

  (** what a thread may hold *)
  Definition pc_ok (t : thread) : Prop :=
    match t_pc t with
    | Idle => True
    | SawNone c => forall o r, t_prog t = o :: r -> c = cell_of o
    | Computed c v => v = init c /\ forall o r, t_prog t = o :: r -> c = cell_of o
    | Ready v => forall o r, t_prog t = o :: r -> v = init (cell_of o)
    end.

  (** operations of several instances interleaved in ONE thread: (instance, operation) *)
  Fixpoint interleave_run (tb : nat -> St) (l : list (nat * Op)) : (nat -> St) * list (nat * Out) :=
    match l with
    | [] => (tb, [])
    | (i, o) :: r => let e := exec (init (cell_of o)) o (tb i) in
                     let q := interleave_run (update tb i (fst e)) r in
                     (fst q, (i, snd e) :: snd q)
    end.

  Definition proj {A} (i : nat) (l : list (nat * A)) : list A :=
    map snd (filter (fun p => Nat.eqb (fst p) i) l).
End Conc.
