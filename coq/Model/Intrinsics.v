(** Byte-list models of the x86 intrinsics issued by ppv-lite86's
    x86_64 back end (C12, C13).

    A 128-bit register ([__m128i]) is the list of its 16 bytes in memory
    order (byte 0 = least significant byte of lane 0); a 256-bit register
    ([__m256i]) is the list of its 32 bytes. Lane-wise arithmetic and shifts
    are defined through the little-endian word view ([words_le]/[bytes_le]),
    byte movement through list surgery, so both are executable under
    [vm_compute] and reduce on lists of symbolic bytes.

    These definitions are the trusted meaning of the instructions; the
    harness compares each of them with the CPU on every run (h_ppv,
    "intrinsic" cases). Signed immediates/operands are given by their
    two's-complement bit pattern ([-1] as [0xffffffff] etc.). *)
From Coq Require Import NArith List Bool.
From CC Require Import Lib.Words Lib.Bytes Lib.ListX.
Import ListNotations.
Local Open Scope N_scope.

Definition reg := list N.

(** outcome of a modelled call: a value, or a Rust panic *)
Inductive outcome (A : Type) := Ok (a : A) | Panic.
Arguments Ok {A} a.
Arguments Panic {A}.
Definition omap {A B} (f : A -> B) (o : outcome A) : outcome B :=
  match o with Ok a => Ok (f a) | Panic => Panic end.
Definition obind {A B} (o : outcome A) (f : A -> outcome B) : outcome B :=
  match o with Ok a => f a | Panic => Panic end.
Definition is_ok {A} (o : outcome A) : bool := match o with Ok _ => true | Panic => false end.

(** well-formed register of [n] bytes *)
Definition wf (n : nat) (a : reg) : Prop := length a = n /\ Forall is_byte a.

(** * lane-wise helpers *)
Definition lanes_map (k : nat) (f : N -> N) (a : reg) : reg :=
  bytes_le k (map f (words_le k a)).
Definition lanes_map2 (k : nat) (f : N -> N -> N) (a b : reg) : reg :=
  bytes_le k (map2 f (words_le k a) (words_le k b)).

(** * arithmetic, logic (any register width) *)
Definition mm_add_epi32 : reg -> reg -> reg := lanes_map2 4 (addw 32).
Definition mm_add_epi64 : reg -> reg -> reg := lanes_map2 8 (addw 64).
Definition mm_and (a b : reg) : reg := map2 N.land a b.
Definition mm_or (a b : reg) : reg := map2 N.lor a b.
Definition mm_xor (a b : reg) : reg := map2 N.lxor a b.
(** [_mm_andnot_si128 a b = (~a) & b] *)
Definition mm_andnot (a b : reg) : reg := map2 (fun x y => N.land (N.lxor x 255) y) a b.

(** * bit shifts within 16/32/64-bit lanes (count >= lane width gives 0) *)
Definition mm_srli_epi16 (a : reg) (k : N) : reg := lanes_map 2 (fun x => N.shiftr x k) a.
Definition mm_slli_epi16 (a : reg) (k : N) : reg := lanes_map 2 (fun x => wrap 16 (N.shiftl x k)) a.
Definition mm_srli_epi32 (a : reg) (k : N) : reg := lanes_map 4 (fun x => N.shiftr x k) a.
Definition mm_slli_epi32 (a : reg) (k : N) : reg := lanes_map 4 (fun x => wrap 32 (N.shiftl x k)) a.
Definition mm_srli_epi64 (a : reg) (k : N) : reg := lanes_map 8 (fun x => N.shiftr x k) a.
Definition mm_slli_epi64 (a : reg) (k : N) : reg := lanes_map 8 (fun x => wrap 64 (N.shiftl x k)) a.

(** * byte shifts of the whole 128-bit register *)
Definition mm_srli_si128 (a : reg) (n : nat) : reg := skipn n a ++ repeat 0 (Nat.min n 16).
Definition mm_slli_si128 (a : reg) (n : nat) : reg := repeat 0 (Nat.min n 16) ++ firstn (16 - n) a.

(** * shuffles *)
Definition sel2 (imm : N) (i : N) : nat := N.to_nat (N.land (N.shiftr imm (2 * i)) 3).
Definition dword (a : reg) (s : nat) : list N := firstn 4 (skipn (4 * s) a).
Definition word16 (a : reg) (s : nat) : list N := firstn 2 (skipn (2 * s) a).
(** output lane [i] is input lane [(imm >> 2i) & 3] *)
Definition mm_shuffle_epi32 (a : reg) (imm : N) : reg :=
  dword a (sel2 imm 0) ++ dword a (sel2 imm 1) ++ dword a (sel2 imm 2) ++ dword a (sel2 imm 3).
Definition mm_shufflelo_epi16 (a : reg) (imm : N) : reg :=
  word16 a (sel2 imm 0) ++ word16 a (sel2 imm 1) ++ word16 a (sel2 imm 2) ++ word16 a (sel2 imm 3)
  ++ skipn 8 a.
Definition mm_shufflehi_epi16 (a : reg) (imm : N) : reg :=
  firstn 8 a ++ word16 a (4 + sel2 imm 0) ++ word16 a (4 + sel2 imm 1)
  ++ word16 a (4 + sel2 imm 2) ++ word16 a (4 + sel2 imm 3).
(** [pshufb]: result byte [j] is 0 if bit 7 of mask byte [j] is set, else
    byte [mask[j] & 15] of [a] *)
Definition mm_shuffle_epi8 (a m : reg) : reg :=
  map (fun k => if N.testbit k 7 then 0 else nth (N.to_nat (N.land k 15)) a 0) m.
(** [palignr]: bytes [n .. n+15] of the 32-byte value whose low half is [b], zeros beyond it
    (so [n >= 32] gives zero) *)
Definition mm_alignr_epi8 (a b : reg) (n : nat) : reg :=
  firstn 16 (skipn n (b ++ a) ++ repeat 0 16).
Fixpoint interleave (a b : list N) : list N :=
  match a, b with
  | x :: a', y :: b' => x :: y :: interleave a' b'
  | _, _ => []
  end.
Definition mm_unpacklo_epi8 (a b : reg) : reg := interleave (firstn 8 a) (firstn 8 b).
Definition mm_unpackhi_epi8 (a b : reg) : reg := interleave (skipn 8 a) (skipn 8 b).
(** [packuswb]: each signed 16-bit lane [lo + 256 hi] saturates to an unsigned
    byte: negative ([hi >= 128]) gives 0, above 255 ([0 < hi < 128]) gives 255 *)
Fixpoint pack_us (a : list N) : list N :=
  match a with
  | lo :: hi :: r => (if hi =? 0 then lo else if N.testbit hi 7 then 0 else 255) :: pack_us r
  | _ => []
  end.
Definition mm_packus_epi16 (a b : reg) : reg := pack_us a ++ pack_us b.

(** * constants and scalar moves *)
Definition mm_setzero : reg := repeat 0 16%nat.
Definition mm_set_epi64x (hi lo : N) : reg := le_split 8 lo ++ le_split 8 hi.
Definition mm_set1_epi64x (v : N) : reg := le_split 8 v ++ le_split 8 v.
Definition mm_set1_epi8 (v : N) : reg := repeat (N.land v 255) 16%nat.
Definition mm_set_epi32 (e3 e2 e1 e0 : N) : reg :=
  le_split 4 e0 ++ le_split 4 e1 ++ le_split 4 e2 ++ le_split 4 e3.
Definition mm_cvtsi32_si128 (v : N) : reg := le_split 4 v ++ repeat 0 12%nat.
Definition mm_cvtsi64_si128 (v : N) : reg := le_split 8 v ++ repeat 0 8%nat.
Definition mm_cvtsi128_si64 (a : reg) : N := le_join (firstn 8 a).
Definition mm_extract_epi64 (a : reg) (i : nat) : N := le_join (firstn 8 (skipn (8 * i) a)).
Definition mm_insert_epi64 (a : reg) (v : N) (i : nat) : reg :=
  firstn (8 * i) a ++ le_split 8 v ++ skipn (8 * i + 8) a.
Definition mm_insert_epi32 (a : reg) (v : N) (i : nat) : reg :=
  firstn (4 * i) a ++ le_split 4 v ++ skipn (4 * i + 4) a.
Definition mm_move_epi64 (a : reg) : reg := firstn 8 a ++ repeat 0 8%nat.
(** compare 32-bit lanes for equality: all-ones / zero per lane *)
Definition mm_cmpeq_epi32 (a b : reg) : reg :=
  lanes_map2 4 (fun x y => if x =? y then 0xffffffff else 0) a b.

(** * 256-bit registers (32 bytes); the 256-bit forms of add/and/or/xor/
    andnot/srli/slli are the definitions above applied to 32-byte lists *)
Definition lo128 (a : reg) : reg := firstn 16 a.
Definition hi128 (a : reg) : reg := skipn 16 a.
Definition mm256_shuffle_epi8 (a m : reg) : reg :=
  mm_shuffle_epi8 (lo128 a) (lo128 m) ++ mm_shuffle_epi8 (hi128 a) (hi128 m).
Definition mm256_shuffle_epi32 (a : reg) (imm : N) : reg :=
  mm_shuffle_epi32 (lo128 a) imm ++ mm_shuffle_epi32 (hi128 a) imm.
Definition mm256_set_epi64x (e3 e2 e1 e0 : N) : reg :=
  le_split 8 e0 ++ le_split 8 e1 ++ le_split 8 e2 ++ le_split 8 e3.
Definition mm256_set1_epi8 (v : N) : reg := repeat (N.land v 255) 32%nat.
Definition mm256_extracti128 (a : reg) (i : nat) : reg :=
  match i with O => lo128 a | _ => hi128 a end.
Definition mm256_inserti128 (a w : reg) (i : nat) : reg :=
  match i with O => w ++ hi128 a | _ => lo128 a ++ w end.
Definition mm256_setr_m128i (lo hi : reg) : reg := lo ++ hi.
(** [vperm2i128]: each result half is selected by a control nibble:
    bit 3 zeroes it, bits 1:0 pick a.lo, a.hi, b.lo, b.hi *)
Definition perm_half (a b : reg) (c : N) : reg :=
  if N.testbit c 3 then repeat 0 16%nat
  else match N.land c 3 with
       | 0 => lo128 a | 1 => hi128 a | 2 => lo128 b | _ => hi128 b
       end.
Definition mm256_permute2x128 (a b : reg) (imm : N) : reg :=
  perm_half a b (N.land imm 15) ++ perm_half a b (N.land (N.shiftr imm 4) 15).
