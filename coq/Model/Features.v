(** C20 — the cargo feature lattices of the nine crates and, per crate, the function
    "which implementation does this lattice point select".

    [manifest] is a transcription of the [features] tables and optional dependencies of the
    nine Cargo.toml files (same order as in the files).  The check regenerates the same
    structure from the files as they are now and has coqc compare the two
    ([manifest_mismatch], order-insensitive: see [entry_eqb]), so a feature added to or
    removed from /repo breaks the correspondence visibly.

    [select] transcribes the [cfg] attributes that mention a cargo feature (all of them:
    a grep for cfg feature tests over the workspace):
      blake/src/lib.rs:5-7, jh/src/lib.rs:5, chacha/src/lib.rs:34     no_std switch
      ppv-lite86/src/x86_64/mod.rs:279.. (macro bodies)              [cfg(feature = "std")] inside
            the exported macros dispatch!/dispatch_light128!/dispatch_light256!: evaluated in the
            crate that INVOKES the macro (blake-hash, jh-x86_64, c2-chacha), i.e. it is their
            own feature called "std" that picks run-time detection or compile-time selection
      ppv-lite86/src/lib.rs:12-42                                    no_simd: arch = generic | x86_64
      chacha/src/lib.rs:45-50, guts.rs:1                             rustcrypto_api: wrapper module exists
      threefish/src/lib.rs:39-82                                     no_unroll: loop | unrolled
      groestl/src/lib.rs:6-11, compressor.rs:502-647                 std: autodetect | static module
    Features that occur in no [cfg] select nothing (blake simd; chacha simd, cipher; groestl
    lazy_static; ppv-lite86 std, simd; every feature of crypto-simd, whose lib.rs is empty). *)
From Coq Require Import String List NArith Bool.
Import ListNotations.
Open Scope string_scope.

(** * Manifests *)

Record manifest_entry := mk_entry {
  e_name : string;
  e_named : list string;                     (* keys of [features] other than default, file order *)
  e_implicit : list string;                  (* optional dependencies = implicit features *)
  e_default : list string;                   (* what `default` expands to *)
  e_implies : list (string * list string)    (* feature -> what it turns on (own features, dep/feature) *)
}.

Definition manifest : list manifest_entry := [
  mk_entry "blake-hash" ["simd"; "std"] [] ["simd"; "std"] [("simd", []); ("std", [])];
  mk_entry "groestl-aesni" ["std"] ["lazy_static"] ["std"] [("std", ["lazy_static"])];
  mk_entry "jh-x86_64" ["std"] [] ["std"] [("std", [])];
  mk_entry "skein-hash" [] [] [] [];
  mk_entry "threefish-cipher" ["no_unroll"] [] [] [("no_unroll", [])];
  mk_entry "c2-chacha" ["std"; "rustcrypto_api"; "no_simd"; "simd"] ["cipher"] ["std"; "rustcrypto_api"]
           [("std", ["ppv-lite86/std"]); ("rustcrypto_api", ["cipher"]); ("no_simd", ["ppv-lite86/no_simd"]); ("simd", [])];
  mk_entry "crypto-simd" ["simd"; "std"; "packed_simd"] ["packed_simd_crate"] ["simd"; "std"]
           [("simd", []); ("std", []); ("packed_simd", ["packed_simd_crate"])];
  mk_entry "ppv-lite86" ["std"; "simd"; "no_simd"] [] ["std"] [("std", []); ("simd", []); ("no_simd", [])];
  mk_entry "ppv-null" [] [] [] []
].

Fixpoint list_eqb {A} (eqb : A -> A -> bool) (a b : list A) : bool :=
  match a, b with
  | [], [] => true
  | x :: a', y :: b' => eqb x y && list_eqb eqb a' b'
  | _, _ => false
  end.

Definition strs_eqb := list_eqb String.eqb.

(** The order of the keys of a [features] table, of the members of a feature's list and of
    `default` means nothing to cargo: manifests are compared as SETS (mutual inclusion), so that
    reordering a Cargo.toml is not a change of the lattice while an added, removed or renamed
    feature, default member or implication still is. *)
Definition subset_b {A} (eqb : A -> A -> bool) (a b : list A) : bool :=
  forallb (fun x => existsb (eqb x) b) a.

Definition set_eqb {A} (eqb : A -> A -> bool) (a b : list A) : bool :=
  subset_b eqb a b && subset_b eqb b a.

Definition strs_set_eqb := set_eqb String.eqb.

Definition entry_eqb (a b : manifest_entry) : bool :=
  String.eqb (e_name a) (e_name b) && strs_set_eqb (e_named a) (e_named b)
  && Nat.eqb (length (e_named a)) (length (e_named b))
  && strs_set_eqb (e_implicit a) (e_implicit b)
  && Nat.eqb (length (e_implicit a)) (length (e_implicit b))
  && strs_set_eqb (e_default a) (e_default b)
  && set_eqb (fun x y => String.eqb (fst x) (fst y) && strs_set_eqb (snd x) (snd y)) (e_implies a) (e_implies b).

Fixpoint mismatch_from (i : N) (a b : list manifest_entry) : list N :=
  match a, b with
  | [], [] => []
  | x :: a', y :: b' => ((if entry_eqb x y then [] else [i]) ++ mismatch_from (i + 1) a' b')%list
  | _, _ => [i]
  end.

(** indices of the crates whose parsed manifest differs from the modelled one *)
Definition manifest_mismatch (parsed model : list manifest_entry) : list N := mismatch_from 0 parsed model.

Definition declared_of (e : manifest_entry) : list string := (e_named e ++ e_implicit e)%list.

Definition total_points (m : list manifest_entry) : nat :=
  fold_right (fun e acc => Nat.pow 2 (length (declared_of e)) + acc)%nat 0%nat m.

(** * Crates, points *)

Inductive crate := Blake | Groestl | JH | Skein | Threefish | ChaCha | CryptoSimd | PpvLite86 | PpvNull.

Definition all_crates := [Blake; Groestl; JH; Skein; Threefish; ChaCha; CryptoSimd; PpvLite86; PpvNull].

Definition crate_index (c : crate) : nat :=
  match c with
  | Blake => 0 | Groestl => 1 | JH => 2 | Skein => 3 | Threefish => 4
  | ChaCha => 5 | CryptoSimd => 6 | PpvLite86 => 7 | PpvNull => 8
  end.

Definition entry_of (c : crate) : manifest_entry := nth (crate_index c) manifest (mk_entry "" [] [] [] []).

(** a lattice point: the set of features given on the command line
    (`--no-default-features --features <point>`) *)
Definition point := list string.

Fixpoint powerset (l : list string) : list point :=
  match l with
  | [] => [[]]
  | x :: r => let ps := powerset r in (ps ++ map (cons x) ps)%list
  end.

Definition declared (c : crate) : list string := declared_of (entry_of c).
Definition points (c : crate) : list point := powerset (declared c).
Definition default_point (c : crate) : point := e_default (entry_of c).

(** feature implications (`std = ["lazy_static"]`, `no_simd = ["ppv-lite86/no_simd"]`): the
    closure also contains the forwarded `dep/feature` items.  Chains in these manifests have
    length one; three rounds are applied. *)
Definition mem (f : string) (p : point) : bool := existsb (String.eqb f) p.

Definition implied_by (e : manifest_entry) (f : string) : list string :=
  match find (fun kv => String.eqb (fst kv) f) (e_implies e) with
  | Some kv => snd kv
  | None => []
  end.

Definition step (e : manifest_entry) (p : point) : point := (p ++ flat_map (implied_by e) p)%list.
Definition closure (e : manifest_entry) (p : point) : point := step e (step e (step e p)).

(** is item [f] (an own feature, or `dep/feature`) turned on at point [p] of crate [c] *)
Definition on (c : crate) (p : point) (f : string) : bool := mem f (closure (entry_of c) p).

(** * The rest of the build that a crate's selection can depend on

    Cargo unifies features over the dependency graph: ppv-lite86 and threefish-cipher are built
    once, with the union of what every crate in the graph asks for.  The Groestl selection reads
    CPU capabilities (std) or compile-time target features (no std); SSE2 is architectural on
    x86-64 (without it the std arm panics and the no-std arm does not exist). *)
Record env := mk_env {
  other_no_simd : bool;      (* another crate in the graph turns ppv-lite86/no_simd on *)
  other_no_unroll : bool;    (* another crate in the graph turns threefish-cipher/no_unroll on *)
  cpu_aes : bool; cpu_ssse3 : bool;     (* is_x86_feature_detected! *)
  tgt_aes : bool; tgt_ssse3 : bool      (* cfg(target_feature = ..) *)
}.

Definition bools := [true; false].
Definition all_envs : list env :=
  flat_map (fun a => flat_map (fun b => flat_map (fun c => flat_map (fun d => flat_map (fun e =>
    map (fun f => mk_env a b c d e f) bools) bools) bools) bools) bools) bools.

(** * Selections *)

Inductive gmodule := GAes | GSsse3 | GSse2.

Inductive selection :=
| SelDispatch (no_simd std api : bool)
    (* a crate that runs its algorithm through the ppv-lite86 dispatch macros: the two cargo-level
       inputs of the macros (Model/Dispatch.v: [dispatch m no_simd std cpu tf]) and whether the
       RustCrypto wrapper module is compiled (c2-chacha only) *)
| SelArch (generic : bool)               (* ppv-lite86: `arch` = generic | x86_64 *)
| SelRounds (looped : bool)              (* Threefish: round loop | eight-fold unrolled *)
| SelGroestl (autodetect : bool) (m : gmodule)
| SelFixed.                              (* nothing to select *)

(** compressor.rs: std -> autodetect::dispatch_init (aes, else ssse3, else sse2);
    no std -> the name `sse2`, which is an alias of `ssse3` under target_feature ssse3, which in
    turn is an alias of `aes` under target_feature aes *)
Definition groestl_module (std : bool) (e : env) : gmodule :=
  if std then (if cpu_aes e then GAes else if cpu_ssse3 e then GSsse3 else GSse2)
  else (if tgt_ssse3 e then (if tgt_aes e then GAes else GSsse3) else GSse2).

Definition select (c : crate) (p : point) (e : env) : selection :=
  match c with
  | Blake | JH => SelDispatch (other_no_simd e) (on c p "std") false
  | ChaCha => SelDispatch (on c p "ppv-lite86/no_simd" || other_no_simd e) (on c p "std") (on c p "rustcrypto_api")
  | PpvLite86 => SelArch (on c p "no_simd" || other_no_simd e)
  | Threefish => SelRounds (on c p "no_unroll" || other_no_unroll e)
  | Skein => SelRounds (other_no_unroll e)
  | Groestl => SelGroestl (on c p "std") (groestl_module (on c p "std") e)
  | CryptoSimd | PpvNull => SelFixed
  end.

(** features that occur in no cfg of their crate *)
Definition noop (c : crate) : list string :=
  match c with
  | Blake => ["simd"]
  | Groestl => ["lazy_static"]
  | ChaCha => ["simd"; "cipher"]
  | CryptoSimd => ["simd"; "std"; "packed_simd"; "packed_simd_crate"]
  | PpvLite86 => ["std"; "simd"]
  | _ => []
  end.

Definition selection_eqb (a b : selection) : bool :=
  match a, b with
  | SelDispatch n s k, SelDispatch n' s' k' => Bool.eqb n n' && Bool.eqb s s' && Bool.eqb k k'
  | SelArch g, SelArch g' => Bool.eqb g g'
  | SelRounds l, SelRounds l' => Bool.eqb l l'
  | SelGroestl a m, SelGroestl a' m' =>
      Bool.eqb a a' && match m, m' with GAes, GAes | GSsse3, GSsse3 | GSse2, GSse2 => true | _, _ => false end
  | SelFixed, SelFixed => true
  | _, _ => false
  end.
