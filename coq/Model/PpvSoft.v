(** Model of ppv-lite86's soft.rs wrappers [x2<W,G>] and [x4<W>]: 256- and
    512-bit vectors as arrays of 2 / 4 narrower vectors, every method applying
    the one-lane method to each element, as the code does (element 0 first —
    the order matters only for which call panics first). A value is the list
    of its elements, element 0 first, which is also the memory order since
    both wrappers are [repr(transparent)] arrays.

    The file is polymorphic in the element type [W] and in the element
    methods, so it serves both back ends (portable: [W] = word list,
    x86: [W] = register image). It depends on [Lib] only. *)
From Coq Require Import NArith List Bool Arith.
From CC Require Import Lib.Words Lib.Bytes Lib.ListX.
Import ListNotations.
Local Open Scope N_scope.

(** build profile: overflow checks on ([Debug]) or off ([Release]) *)
Inductive profile := Debug | Release.

(** outcome of a modelled call: a value, or a Rust panic *)
Inductive outcome (A : Type) := Ok (a : A) | Panic.
Arguments Ok {A} a.
Arguments Panic {A}.
Definition obind {A B} (o : outcome A) (f : A -> outcome B) : outcome B :=
  match o with Ok a => f a | Panic => Panic end.
Definition omapo {A B} (f : A -> B) (o : outcome A) : outcome B :=
  match o with Ok a => Ok (f a) | Panic => Panic end.
Definition is_ok {A} (o : outcome A) : bool := match o with Ok _ => true | Panic => false end.
Notation "'let*' x ':=' e 'in' k" := (obind e (fun x => k))
  (at level 200, x name, e at level 100, k at level 200, right associativity).

(** [xs[i]] / [xs[i] = v] on an array or slice: out of range panics in every profile *)
Definition index {A} (xs : list A) (i : N) : outcome A :=
  if i <? N.of_nat (length xs) then
    match nth_error xs (N.to_nat i) with Some x => Ok x | None => Panic end
  else Panic.
Definition store {A} (xs : list A) (i : N) (v : A) : outcome (list A) :=
  if i <? N.of_nat (length xs) then Ok (upd (N.to_nat i) v xs) else Panic.

Section Soft.
  Context {W : Type}.
  (** filler for [self.0[j]] with a literal [j] on a fixed-size array (cannot fail, never returned) *)
  Variable d : W.

  (** [fwd_unop_x2!], [Not], [BSwap], [Swap64], [RotateEachWord*], [LaneWords4] for x2:
      [x2::new([self.0[0].f(), self.0[1].f()])] *)
  Definition x2_unop (f : W -> outcome W) (v : list W) : outcome (list W) :=
    let* a := f (nth 0 v d) in
    let* b := f (nth 1 v d) in Ok [a; b].
  (** [fwd_binop_x2!]; the [fwd_binop_assign_x2!] forms update element 0 then element 1 with
      the element's own assign method — the same two calls in the same order *)
  Definition x2_binop (f : W -> W -> outcome W) (v r : list W) : outcome (list W) :=
    let* a := f (nth 0 v d) (nth 0 r d) in
    let* b := f (nth 1 v d) (nth 1 r d) in Ok [a; b].
  (** [fwd_unop_x4!] etc. *)
  Definition x4_unop (f : W -> outcome W) (v : list W) : outcome (list W) :=
    let* a := f (nth 0 v d) in
    let* b := f (nth 1 v d) in
    let* c := f (nth 2 v d) in
    let* e := f (nth 3 v d) in Ok [a; b; c; e].
  Definition x4_binop (f : W -> W -> outcome W) (v r : list W) : outcome (list W) :=
    let* a := f (nth 0 v d) (nth 0 r d) in
    let* b := f (nth 1 v d) (nth 1 r d) in
    let* c := f (nth 2 v d) (nth 2 r d) in
    let* e := f (nth 3 v d) (nth 3 r d) in Ok [a; b; c; e].

  (** [Vec2]/[Vec4]: [self.0[i as usize]], [self.0[i as usize] = w] *)
  Definition xn_extract (v : list W) (i : N) : outcome W := index v i.
  Definition xn_insert (v : list W) (w : W) (i : N) : outcome (list W) := store v i w.

  (** [MultiLane<[W; n]>], [UnsafeFrom<[W; n]>], [x2::new], [x4::new] *)
  Definition xn_to_lanes (v : list W) : list W := v.
  Definition xn_from_lanes (l : list W) : list W := l.

  (** [Vec4Ext::transpose4] for [x4<W>] *)
  Definition x4_transpose4 (a b c e : list W) : list W * list W * list W * list W :=
    ([nth 0 a d; nth 0 b d; nth 0 c d; nth 0 e d],
     [nth 1 a d; nth 1 b d; nth 1 c d; nth 1 e d],
     [nth 2 a d; nth 2 b d; nth 2 c d; nth 2 e d],
     [nth 3 a d; nth 3 b d; nth 3 c d; nth 3 e d]).

  (** [StoreBytes for x2]: the slice is split at [len / 2] *)
  Definition x2_read (rd : list N -> outcome W) (bs : list N) : outcome (list W) :=
    let h := Nat.div (length bs) 2 in
    let* a := rd (firstn h bs) in
    let* b := rd (skipn h bs) in Ok [a; b].
  (** writes: [wr w n] = the [n] bytes the element writes into a slice of length [n] (or panic) *)
  Definition x2_write (wr : W -> nat -> outcome (list N)) (v : list W) (outlen : nat)
    : outcome (list N) :=
    let h := Nat.div outlen 2 in
    let* a := wr (nth 0 v d) h in
    let* b := wr (nth 1 v d) (outlen - h)%nat in Ok (a ++ b).
  (** [StoreBytes for x4]: [n = len / 4], slices [..n], [n..2n], [2n..3n], [3n..] *)
  Definition x4_read (rd : list N -> outcome W) (bs : list N) : outcome (list W) :=
    let n := Nat.div (length bs) 4 in
    let* a := rd (firstn n bs) in
    let* b := rd (firstn n (skipn n bs)) in
    let* c := rd (firstn n (skipn (2 * n) bs)) in
    let* e := rd (skipn (3 * n) bs) in Ok [a; b; c; e].
  Definition x4_write (wr : W -> nat -> outcome (list N)) (v : list W) (outlen : nat)
    : outcome (list N) :=
    let n := Nat.div outlen 4 in
    let* a := wr (nth 0 v d) n in
    let* b := wr (nth 1 v d) n in
    let* c := wr (nth 2 v d) n in
    let* e := wr (nth 3 v d) (outlen - 3 * n)%nat in Ok (a ++ b ++ c ++ e).

  (** [Store<vec256_storage> for x2] / [Store<vec512_storage> for x4]: [p] = the result of
      [split128] (the 2 / 4 128-bit storages in order), [unp] = [W::unpack] *)
  Context {S : Type}.
  Variable ds : S.
  Definition x2_unpack (unp : S -> outcome W) (p : list S) : outcome (list W) :=
    let* a := unp (nth 0 p ds) in
    let* b := unp (nth 1 p ds) in Ok [a; b].
  Definition x4_unpack (unp : S -> outcome W) (p : list S) : outcome (list W) :=
    let* a := unp (nth 0 p ds) in
    let* b := unp (nth 1 p ds) in
    let* c := unp (nth 2 p ds) in
    let* e := unp (nth 3 p ds) in Ok [a; b; c; e].
  (** [From<x2<W,G>> for vec256_storage] / [From<x4<W>> for vec512_storage]:
      [new128([x.0[0].into(), x.0[1].into(), ..])] *)
  Definition x2_into (into : W -> outcome S) (v : list W) : outcome (list S) :=
    let* a := into (nth 0 v d) in
    let* b := into (nth 1 v d) in Ok [a; b].
  Definition x4_into (into : W -> outcome S) (v : list W) : outcome (list S) :=
    let* a := into (nth 0 v d) in
    let* b := into (nth 1 v d) in
    let* c := into (nth 2 v d) in
    let* e := into (nth 3 v d) in Ok [a; b; c; e].
End Soft.
