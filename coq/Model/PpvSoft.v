(** Model of ppv-lite86's soft.rs wrappers [x2<W,G>] and [x4<W>]: 256- and
    512-bit vectors as arrays of 2 / 4 narrower vectors, every method applying
    the one-lane method to each element, as the code does. A value is the list
    of its elements (element 0 first, which is also the memory order since
    both wrappers are [repr(transparent)] arrays). *)
From Coq Require Import NArith List Bool Arith.
From CC Require Import Lib.Words Lib.Bytes Lib.ListX Model.Intrinsics.
Import ListNotations.
Local Open Scope N_scope.

Section Soft.
  Context {W : Type}.

  (** [fwd_unop_x2!]/[fwd_unop_x4!], [Not], [BSwap], [Swap64], [RotateEachWord*], [LaneWords4] *)
  Definition xn_unop (f : W -> W) (v : list W) : list W := map f v.
  (** [fwd_binop_x2!]/[fwd_binop_x4!] (and the [*_assign] forms, which update each element) *)
  Definition xn_binop (f : W -> W -> W) (a b : list W) : list W := map2 f a b.

  (** [Vec2]/[Vec4]: [self.0[i as usize]] — an index past the array panics *)
  Definition xn_extract (v : list W) (i : N) : outcome W :=
    match nth_error v (N.to_nat i) with Some w => Ok w | None => Panic end.
  Definition xn_insert (v : list W) (w : W) (i : N) : outcome (list W) :=
    if (N.to_nat i <? length v)%nat then Ok (upd (N.to_nat i) w v) else Panic.

  (** [MultiLane<[W; n]>], [UnsafeFrom<[W; n]>] *)
  Definition xn_to_lanes (v : list W) : list W := v.
  Definition xn_from_lanes (l : list W) : list W := l.

  (** [Vec4Ext::transpose4] for [x4<W>] *)
  Definition x4_transpose4 (d : W) (a b c e : list W) : list W * list W * list W * list W :=
    ([nth 0 a d; nth 0 b d; nth 0 c d; nth 0 e d],
     [nth 1 a d; nth 1 b d; nth 1 c d; nth 1 e d],
     [nth 2 a d; nth 2 b d; nth 2 c d; nth 2 e d],
     [nth 3 a d; nth 3 b d; nth 3 c d; nth 3 e d]).

  (** [StoreBytes for x2]: the slice is split at [len / 2] *)
  Definition x2_read (rd : list N -> outcome W) (bs : list N) : outcome (list W) :=
    let h := Nat.div (length bs) 2 in
    obind (rd (firstn h bs)) (fun a =>
    obind (rd (skipn h bs)) (fun b => Ok [a; b])).
  Definition x2_write (wr : W -> nat -> outcome (list N)) (d : W) (v : list W) (outlen : nat)
    : outcome (list N) :=
    let h := Nat.div outlen 2 in
    obind (wr (nth 0 v d) h) (fun a =>
    obind (wr (nth 1 v d) (outlen - h)%nat) (fun b => Ok (a ++ b))).
  (** [StoreBytes for x4]: [n = len / 4], slices [..n], [n..2n], [2n..3n], [3n..] *)
  Definition x4_read (rd : list N -> outcome W) (bs : list N) : outcome (list W) :=
    let n := Nat.div (length bs) 4 in
    obind (rd (firstn n bs)) (fun a =>
    obind (rd (firstn n (skipn n bs))) (fun b =>
    obind (rd (firstn n (skipn (2 * n) bs))) (fun c =>
    obind (rd (skipn (3 * n) bs)) (fun e => Ok [a; b; c; e])))).
  Definition x4_write (wr : W -> nat -> outcome (list N)) (d : W) (v : list W) (outlen : nat)
    : outcome (list N) :=
    let n := Nat.div outlen 4 in
    obind (wr (nth 0 v d) n) (fun a =>
    obind (wr (nth 1 v d) n) (fun b =>
    obind (wr (nth 2 v d) n) (fun c =>
    obind (wr (nth 3 v d) (outlen - 3 * n)%nat) (fun e => Ok (a ++ b ++ c ++ e))))).
End Soft.

(** storage: [vec256_storage::split128]/[new128] and the 512-bit forms; the
    union is the concatenation of its 128-bit parts in memory order *)
Fixpoint split_regs (n : nat) (k : nat) (bs : list N) : list reg :=
  match n with
  | O => []
  | S n' => firstn k bs :: split_regs n' k (skipn k bs)
  end.
(** [Store<vec256_storage> for x2<W,G>] / [Store<vec512_storage> for x4<W>] with
    [W::unpack] the identity on 16 bytes *)
Definition x2_unpack (st : list N) : list reg := split_regs 2 16 st.
Definition x4_unpack (st : list N) : list reg := split_regs 4 16 st.
(** [From<x2<W,G>> for vec256_storage], [From<x4<W>> for vec512_storage] *)
Definition xn_into_storage (v : list reg) : list N := concat v.
