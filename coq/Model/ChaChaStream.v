(** Model of stream-ciphers/chacha/src/rustcrypto_impl.rs as written (after the
    fix: commits b6bd2ce, fd9ceb0, 26e2eb5, 7d93c53, 6ea9774): [Buffer] with
    [have]/[len]/[fresh], [try_apply_keystream] (lazy fill, overflow check,
    buffered prefix, wide chunks, block tail), [seek64]/[seek32], [try_seek],
    [try_current_pos], the nonce-word restore of the 12-byte-nonce variant.

    Parametric in the two block producers [refill1] (= [state.refill]) and
    [refill4] (= [state.refill4]); [Model/ChaChaGuts.v] provides the real ones. *)
From Coq Require Import NArith ZArith List Lia Arith Bool.
From CC Require Import Lib.Words Lib.Bytes Lib.ListX Model.ChaChaGuts.
Import ListNotations.
Local Open Scope N_scope.

Inductive result := ROk | RErr | RPanic.

Record buffer := Buf { b_state : chacha; b_out : list N; b_have : Z; b_len : N; b_fresh : bool }.

(** [chunks(k)]: all chunks, the last one possibly short *)
Fixpoint chunks (k : nat) (fuel : nat) (bs : list N) : list (list N) :=
  match fuel with
  | O => []
  | S f => match bs with
           | [] => []
           | _ => firstn k bs :: chunks k f (skipn k bs)
           end
  end.

Section Stream.
  Variable refill1 : chacha -> list N * chacha.
  Variable refill4 : chacha -> list N * chacha.

  Definition lazy_fill (b : buffer) : buffer :=
    if (b_have b <? 0)%Z then
      let '(o, s') := refill1 (b_state b) in
      Buf s' o (b_have b + 64)%Z (wrap 64 (b_len b + (2 ^ 64 - 1))) false
    else b.

  (** [self.have as usize] *)
  Definition have_usize (h : Z) : N :=
    if (h <? 0)%Z then Z.to_N (2 ^ 64 + h) else Z.to_N h.

  Fixpoint wide_loop (n : nat) (s : chacha) (data : list N) : chacha * list N :=
    match n with
    | O => (s, [])
    | S k => let '(buf, s') := refill4 s in
             let '(s'', rest) := wide_loop k s' (skipn 256 data) in
             (s'', xor_bytes (firstn 256 data) buf ++ rest)
    end.

  Fixpoint tail_loop (cs : list (list N)) (s : chacha) (out : list N) (have : N)
    : chacha * list N * N * list N :=
    match cs with
    | [] => (s, out, have, [])
    | dd :: r => let '(o, s') := refill1 s in
                 let '(s'', out', have', rest) := tail_loop r s' o (64 - N.of_nat (length dd)) in
                 (s'', out', have', xor_bytes dd o ++ rest)
    end.

  (** [Buffer::try_apply_keystream::<EnableWide>], everything after the lazy fill *)
  Definition apply_body (wide : bool) (b : buffer) (data : list N) : result * buffer * list N :=
    let have := have_usize (b_have b) in
    let dl := N.of_nat (length data) in
    let have_ready := N.min have dl in
    let datalen := dl - have_ready in
    let blocks_needed := datalen / 64 + (if datalen mod 64 =? 0 then 0 else 1) in
    let o := b_len b <? blocks_needed in
    let l := wrap 64 (b_len b + 2 ^ 64 - blocks_needed) in
    if o && negb (b_fresh b) then (RErr, b, data)
    else if 64 <? have then (RPanic, b, data)   (* BLOCK - have underflows / slice start out of range *)
    else
      let fresh' := b_fresh b && (blocks_needed =? 0) in
      let hr := N.to_nat have_ready in
      let d0 := xor_bytes (firstn hr data) (skipn (N.to_nat (64 - have)) (b_out b)) in
      let data1 := skipn hr data in
      let have1 := have - have_ready in
      let nwide := if wide then (length data1 / 256)%nat else 0%nat in
      let '(s2, out_w) := wide_loop nwide (b_state b) data1 in
      let data2 := skipn (256 * nwide) data1 in
      let '(s3, outb, have3, out_t) :=
        tail_loop (chunks 64 (length data2) data2) s2 (b_out b) have1 in
      (ROk, Buf s3 outb (Z.of_N have3) l fresh', d0 ++ out_w ++ out_t).

  (** [Buffer::try_apply_keystream::<EnableWide>] *)
  Definition apply_core (wide : bool) (b0 : buffer) (data : list N) : result * buffer * list N :=
    apply_body wide (lazy_fill b0) data.

  (** [ChaChaAny::try_apply_keystream]: the 12-byte-nonce variant restores nonce word 0
      (d word 1) after the call, whatever its result (fix 26e2eb5) *)
  Definition try_apply (is12 : bool) (b : buffer) (data : list N) : result * buffer * list N :=
    if negb is12 then apply_core true b data
    else
      let nonce0 := nth 1 (cd (b_state b)) 0 in
      let '(r, b', out) := apply_core true b data in
      let s := b_state b' in
      (r, Buf (CC (cb s) (cc s) (upd 1 nonce0 (cd s))) (b_out b') (b_have b') (b_len b') (b_fresh b'), out).

  Definition seek64b (b : buffer) (ct : N) : buffer :=
    let blockct := ct / 64 in
    Buf (seek64 (b_state b) blockct) (b_out b) (- Z.of_N (ct mod 64))%Z
        (wrap 64 (2 ^ 64 - blockct)) (blockct =? 0).

  Definition seek32b (b : buffer) (ct : N) : result * buffer :=
    let blockct := ct / 64 in
    if (blockct <? 2 ^ 32) || ((blockct =? 2 ^ 32) && (ct mod 64 =? 0)) then
      (ROk, Buf (seek32 (b_state b) blockct) (b_out b) (- Z.of_N (ct mod 64))%Z
                (2 ^ 32 - blockct) (b_fresh b))
    else (RPanic, b).

  (** [try_seek::<T>(pos)]: [pos] is the mathematical value of the argument; the
      conversion to u64 succeeds iff 0 <= pos < 2^64 *)
  Definition try_seek (is12 : bool) (b : buffer) (pos : Z) : result * buffer :=
    if ((pos <? 0) || (2 ^ 64 <=? pos))%Z then (RErr, b)
    else
      let ct := Z.to_N pos in
      if is12 && (2 ^ 38 <? ct) then (RErr, b)
      else if is12 then seek32b b ct else (ROk, seek64b b ct).

  (** [try_current_pos::<T>()]; [tmax] = T::MAX. [None] = Err(OverflowError).
      (precondition of the Rust: [len <= total], else the u128 subtraction underflows) *)
  Definition try_current_pos (is12 : bool) (b : buffer) (tmax : Z) : option Z :=
    let total := (if is12 then 2 ^ 32 else 2 ^ 64)%Z in
    let left := if b_fresh b then total else Z.of_N (b_len b) in
    let pos := ((total - left) * 64 - b_have b)%Z in
    let posu := (if pos <? 0 then pos + 2 ^ 128 else pos)%Z in
    if (posu <=? tmax)%Z then Some posu else None.

  (** * Histories *)
  Inductive op := OSeek (pos : Z) | OApply (data : list N) | OPos (tmax : Z).
  Inductive obs :=
  | ObsSeek (r : result)
  | ObsApply (r : result) (out : list N)
  | ObsPos (p : option Z).

  Definition step (is12 : bool) (b : buffer) (o : op) : buffer * obs :=
    match o with
    | OSeek pos => let '(r, b') := try_seek is12 b pos in (b', ObsSeek r)
    | OApply data => let '(r, b', out) := try_apply is12 b data in (b', ObsApply r out)
    | OPos tmax => (b, ObsPos (try_current_pos is12 b tmax))
    end.

  Fixpoint run (is12 : bool) (b : buffer) (ops : list op) : list obs :=
    match ops with
    | [] => []
    | o :: r => let '(b', ob) := step is12 b o in ob :: run is12 b' r
    end.

  (** [ChaChaAny::new] given the already initialised [ChaCha] *)
  Definition new_buffer (is12 : bool) (s : chacha) : buffer :=
    Buf s (repeat 0 64) 0 (if is12 then 2 ^ 32 else 0) (negb is12).
End Stream.

(** the real block producers for [drounds] double rounds *)
Definition real_refill1 (drounds : nat) (s : chacha) := refill s drounds.
Definition real_refill4 (drounds : nat) (s : chacha) := refill_wide s drounds.

Inductive variant := VDjb | VIetf | VX.
Definition is12_of (v : variant) : bool := match v with VIetf => true | _ => false end.
Definition init_of (v : variant) (drounds : nat) (key nonce : list N) : chacha :=
  match v with VX => init_chacha_x key nonce drounds | _ => init_chacha key nonce end.

Definition m_new (v : variant) (drounds : nat) (key nonce : list N) : buffer :=
  new_buffer (is12_of v) (init_of v drounds key nonce).
Definition m_run (v : variant) (drounds : nat) (key nonce : list N) (ops : list op) : list obs :=
  run (real_refill1 drounds) (real_refill4 drounds) (is12_of v) (m_new v drounds key nonce) ops.
