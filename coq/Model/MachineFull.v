(** The WHOLE block functions that ppv-lite86's [dispatch!] instantiates once per Machine, written
    over an extended record of vector operations (C03, work package machine-framing):

      ChaCha  guts.rs   [refill_narrow_rounds], [output_narrow], [pos64], [inc_block_ct],
                        [refill_narrow], [d0123], [add_pos] (little-endian forms),
                        [refill_wide_impl]
      BLAKE   lib.rs    [$X4::put_block] (both word sizes), [$compressor::finalize]
      JH      compressor.rs [f8_impl]

    Model/Machine.v has the round cores over [machine]; here the framing around them: the
    conversions between a vector and its storage ([Store::unpack], [Into<vec128_storage>], ...),
    byte output ([write_le], [write_be]), unaligned loads, lane access ([extract], [insert],
    [to_lanes], [from_lanes]), the u64x2 / u64x2x4 views used for ChaCha's block counter, and
    [transpose4].

    Storage ([vec128_storage], [vec256_storage], [vec512_storage]) is, for every back end, the
    list of its bytes in memory order (16 / 32 / 64 bytes): the x86 unions contain [__m128i] /
    [__m256i] fields, the portable ones are [repr(C)] arrays; all views of the unions are the
    little-endian word views of these bytes ([words_le k] / [bytes_le k], Lib/Bytes.v).
    [xmachine_refines] gives every extra operation its lane meaning through the views of
    Model/Machine.v ([v_rep]: words in lane order). [lane_xm] is the lane-wise instance. *)
From Coq Require Import NArith List Bool.
From CC Require Import Lib.Words Lib.Bytes Lib.ListX Spec.Lanes Model.Machine.
From CC Require Model.Blake.
Import ListNotations.
Local Open Scope N_scope.

(** [n] bytes *)
Definition bytes_ok (n : nat) (bs : list N) : Prop := length bs = n /\ Forall is_byte bs.

(** components of 4-tuples *)
Definition t4_0 {A B C D} (t : A * B * C * D) : A := fst (fst (fst t)).
Definition t4_1 {A B C D} (t : A * B * C * D) : B := snd (fst (fst t)).
Definition t4_2 {A B C D} (t : A * B * C * D) : C := snd (fst t).
Definition t4_3 {A B C D} (t : A * B * C * D) : D := snd t.

(** 128-bit lane [i] of a wide vector of 32-bit words *)
Definition lane4 (i : nat) (v : list N) : list N := firstn 4 (skipn (4 * i) v).
(** [Vec4Ext::transpose4] on the word views: result [i] = lanes [i] of a, b, c, d *)
Definition l_transpose4 (a b c d : list N) : list N * list N * list N * list N :=
  let tr i := lane4 i a ++ lane4 i b ++ lane4 i c ++ lane4 i d in
  (tr 0%nat, tr 1%nat, tr 2%nat, tr 3%nat).

(** * the extra operations, per vector type *)

(** [M::u32x4] ([o] = its [vops]) *)
Record nops (o : vops) := NOps {
  v4_unpack : list N -> vt o;               (* [m.unpack(s)], s : vec128_storage (16 bytes) *)
  v4_into : vt o -> list N;                 (* [x.into()] : vec128_storage *)
  v4_extract : vt o -> N -> N;              (* [x.extract(i)], i < 4 *)
  v4_insert : vt o -> N -> N -> vt o;       (* [x.insert(v, i)], i < 4 *)
  v4_write_le : vt o -> list N;             (* [x.write_le(out)], out.len() = 16 *)
  v4_write_be : vt o -> list N;             (* [x.write_be(out)], out.len() = 16 *)
  v4_read_le : list N -> vt o               (* [m.read_le(input)], input.len() = 16 *)
}.
Arguments v4_unpack {o}. Arguments v4_into {o}. Arguments v4_extract {o}.
Arguments v4_insert {o}. Arguments v4_write_le {o}. Arguments v4_write_be {o}. Arguments v4_read_le {o}.

Record nops_refines (o : vops) (n : nops o) : Prop := {
  nr_ok : forall a, v_wf o a -> words_ok 32 4 (v_rep o a);
  nr_unpack : forall st, bytes_ok 16 st -> rel o (v4_unpack n st) (words_le 4 st);
  nr_into : forall a, v_wf o a -> v4_into n a = bytes_le 4 (v_rep o a);
  nr_extract : forall a i, v_wf o a -> i < 4 -> v4_extract n a i = nth (N.to_nat i) (v_rep o a) 0;
  nr_insert : forall a v i, v_wf o a -> v < 2 ^ 32 -> i < 4 ->
                rel o (v4_insert n a v i) (upd (N.to_nat i) v (v_rep o a));
  nr_write_le : forall a, v_wf o a -> v4_write_le n a = write_le 4 (v_rep o a);
  nr_write_be : forall a, v_wf o a -> v4_write_be n a = write_be 4 (v_rep o a);
  nr_read_le : forall bs, bytes_ok 16 bs -> rel o (v4_read_le n bs) (read_le 4 bs)
}.

(** [M::u64x2] and [M::u64x2x4] (ChaCha's counter arithmetic) *)
Record dops := DOps {
  d2_t : Type;
  d2_wf : d2_t -> Prop;
  d2_rep : d2_t -> list N;                  (* 2 words of 64 bits *)
  d2_vec : list N -> d2_t;                  (* [m.vec([a, b])] *)
  d2_unpack : list N -> d2_t;               (* [m.unpack(s)], s : vec128_storage *)
  d2_into : d2_t -> list N;                 (* [x.into()] : vec128_storage *)
  d2_add : d2_t -> d2_t -> d2_t;
  d8_t : Type;
  d8_wf : d8_t -> Prop;
  d8_rep : d8_t -> list N;                  (* 8 words of 64 bits *)
  d8_from_lanes : d2_t -> d2_t -> d2_t -> d2_t -> d8_t;    (* [u64x2x4::from_lanes([a, b, c, d])] *)
  d8_add : d8_t -> d8_t -> d8_t;
  d8_into : d8_t -> list N                  (* [x.into()] : vec512_storage (64 bytes) *)
}.

Record dops_refines (q : dops) : Prop := {
  dr_ok2 : forall a, d2_wf q a -> words_ok 64 2 (d2_rep q a);
  dr_vec : forall l, words_ok 64 2 l -> d2_wf q (d2_vec q l) /\ d2_rep q (d2_vec q l) = l;
  dr_unpack : forall st, bytes_ok 16 st ->
                d2_wf q (d2_unpack q st) /\ d2_rep q (d2_unpack q st) = words_le 8 st;
  dr_into : forall a, d2_wf q a -> d2_into q a = bytes_le 8 (d2_rep q a);
  dr_add : forall a b, d2_wf q a -> d2_wf q b ->
             d2_wf q (d2_add q a b) /\ d2_rep q (d2_add q a b) = v_add 64 (d2_rep q a) (d2_rep q b);
  dr_ok8 : forall a, d8_wf q a -> words_ok 64 8 (d8_rep q a);
  dr_from_lanes : forall a b c d, d2_wf q a -> d2_wf q b -> d2_wf q c -> d2_wf q d ->
             d8_wf q (d8_from_lanes q a b c d) /\
             d8_rep q (d8_from_lanes q a b c d) = d2_rep q a ++ d2_rep q b ++ d2_rep q c ++ d2_rep q d;
  dr_add8 : forall a b, d8_wf q a -> d8_wf q b ->
             d8_wf q (d8_add q a b) /\ d8_rep q (d8_add q a b) = v_add 64 (d8_rep q a) (d8_rep q b);
  dr_into8 : forall a, d8_wf q a -> d8_into q a = bytes_le 8 (d8_rep q a)
}.

(** [M::u32x4x4] ([o4], [o16] = the [vops] of u32x4 and u32x4x4) *)
Record wops (o4 o16 : vops) := WOps {
  v16_from_lanes : vt o4 -> vt o4 -> vt o4 -> vt o4 -> vt o16;     (* [u32x4x4::from_lanes([a, b, c, d])] *)
  v16_to_lanes : vt o16 -> vt o4 * vt o4 * vt o4 * vt o4;          (* [x.to_lanes()] *)
  v16_unpack : list N -> vt o16;                                   (* [m.unpack(s)], s : vec512_storage *)
  v16_transpose4 : vt o16 -> vt o16 -> vt o16 -> vt o16 -> vt o16 * vt o16 * vt o16 * vt o16;
  v16_write_le : vt o16 -> list N                                  (* [x.write_le(out)], out.len() = 64 *)
}.
Arguments v16_from_lanes {o4 o16}. Arguments v16_to_lanes {o4 o16}. Arguments v16_unpack {o4 o16}.
Arguments v16_transpose4 {o4 o16}. Arguments v16_write_le {o4 o16}.

Record wops_refines (o4 o16 : vops) (x : wops o4 o16) : Prop := {
  wr_ok : forall a, v_wf o16 a -> words_ok 32 16 (v_rep o16 a);
  wr_from_lanes : forall a b c d, v_wf o4 a -> v_wf o4 b -> v_wf o4 c -> v_wf o4 d ->
      rel o16 (v16_from_lanes x a b c d) (v_rep o4 a ++ v_rep o4 b ++ v_rep o4 c ++ v_rep o4 d);
  wr_to_lanes : forall v, v_wf o16 v ->
      rel o4 (t4_0 (v16_to_lanes x v)) (lane4 0 (v_rep o16 v)) /\
      rel o4 (t4_1 (v16_to_lanes x v)) (lane4 1 (v_rep o16 v)) /\
      rel o4 (t4_2 (v16_to_lanes x v)) (lane4 2 (v_rep o16 v)) /\
      rel o4 (t4_3 (v16_to_lanes x v)) (lane4 3 (v_rep o16 v));
  wr_unpack : forall st, bytes_ok 64 st -> rel o16 (v16_unpack x st) (words_le 4 st);
  wr_transpose4 : forall a b c d, v_wf o16 a -> v_wf o16 b -> v_wf o16 c -> v_wf o16 d ->
      let r := v16_transpose4 x a b c d in
      let l := l_transpose4 (v_rep o16 a) (v_rep o16 b) (v_rep o16 c) (v_rep o16 d) in
      rel o16 (t4_0 r) (t4_0 l) /\ rel o16 (t4_1 r) (t4_1 l) /\
      rel o16 (t4_2 r) (t4_2 l) /\ rel o16 (t4_3 r) (t4_3 l);
  wr_write_le : forall a, v_wf o16 a -> v16_write_le x a = write_le 4 (v_rep o16 a)
}.

(** [M::u64x4] (BLAKE-384/512) *)
Record hops (o : vops) := HOps {
  d4_unpack : list N -> vt o;               (* [m.unpack(s)], s : vec256_storage (32 bytes) *)
  d4_into : vt o -> list N;                 (* [x.into()] : vec256_storage *)
  d4_write_be : vt o -> list N              (* [x.write_be(out)], out.len() = 32 *)
}.
Arguments d4_unpack {o}. Arguments d4_into {o}. Arguments d4_write_be {o}.

Record hops_refines (o : vops) (h : hops o) : Prop := {
  hr_ok : forall a, v_wf o a -> words_ok 64 4 (v_rep o a);
  hr_unpack : forall st, bytes_ok 32 st -> rel o (d4_unpack h st) (words_le 8 st);
  hr_into : forall a, v_wf o a -> d4_into h a = bytes_le 8 (v_rep o a);
  hr_write_be : forall a, v_wf o a -> d4_write_be h a = write_be 8 (v_rep o a)
}.

(** [M::u128x1] (JH) *)
Record uops (j : jops) := UOps {
  o1_unpack : list N -> jt1 j;              (* [m.unpack(s)], s : vec128_storage *)
  o1_read : list N -> jt1 j;                (* [ptr::read_unaligned(p as *const M::u128x1)], 16 bytes at p *)
  o1_into : jt1 j -> list N                 (* [x.into()] : vec128_storage *)
}.
Arguments o1_unpack {j}. Arguments o1_read {j}. Arguments o1_into {j}.

Record uops_refines (j : jops) (u : uops j) : Prop := {
  ur_ok : forall a, j_wf1 j a -> w128 (j_rep1 j a);
  ur_unpack : forall st, bytes_ok 16 st -> jrel1 j (o1_unpack u st) (le_join st);
  ur_read : forall st, bytes_ok 16 st -> jrel1 j (o1_read u st) (le_join st);
  ur_into : forall a, j_wf1 j a -> o1_into u a = le_split 16 (j_rep1 j a)
}.

(** * the extended Machine *)
Record xmachine := XMachine {
  xm_base : machine;
  xm_n : nops (m_u32x4 xm_base);
  xm_d : dops;
  xm_w : wops (m_u32x4 xm_base) (m_u32x4x4 xm_base);
  xm_h : hops (m_u64x4 xm_base);
  xm_u : uops (m_u128 xm_base)
}.

Record xmachine_refines (m : xmachine) : Prop := {
  xr_base : machine_refines (xm_base m);
  xr_n : nops_refines _ (xm_n m);
  xr_d : dops_refines (xm_d m);
  xr_w : wops_refines _ _ (xm_w m);
  xr_h : hops_refines _ (xm_h m);
  xr_u : uops_refines _ (xm_u m)
}.

(** * ChaCha (guts.rs) *)
Definition chacha_k : list N := [0x61707865; 0x3320646e; 0x79622d32; 0x6b206574].

(** [struct ChaCha { b, c, d : vec128_storage }] *)
Record cstore := CSt { st_b : list N; st_c : list N; st_d : list N }.
Definition cstore_ok (s : cstore) : Prop :=
  bytes_ok 16 (st_b s) /\ bytes_ok 16 (st_c s) /\ bytes_ok 16 (st_d s).

Section ChaChaNarrow.
  Variables (o : vops) (n : nops o).

  (** [refill_narrow_rounds] (under [dispatch!]): [State<vec128_storage>] *)
  Definition x_refill_narrow_rounds (drounds : nat) (s : cstore) : list N * list N * list N * list N :=
    let k := v_vec o chacha_k in
    let x := CS k (v4_unpack n (st_b s)) (v4_unpack n (st_c s)) (v4_unpack n (st_d s)) in
    let x := c_rounds o drounds x in
    (v4_into n (sa x), v4_into n (sb x), v4_into n (sc x), v4_into n (sd x)).

  (** [output_narrow] *)
  Definition x_output_narrow (s : cstore) (x : cstate o) : list N :=
    let k := v_vec o chacha_k in
    v4_write_le n (o_add o (sa x) k) ++
    v4_write_le n (o_add o (sb x) (v4_unpack n (st_b s))) ++
    v4_write_le n (o_add o (sc x) (v4_unpack n (st_c s))) ++
    v4_write_le n (o_add o (sd x) (v4_unpack n (st_d s))).

  (** [pos64]: [((d.extract(1) as u64) << 32) | d.extract(0) as u64] *)
  Definition x_pos64 (s : cstore) : N :=
    let d := v4_unpack n (st_d s) in
    N.lor (N.shiftl (v4_extract n d 1) 32) (v4_extract n d 0).

  (** [inc_block_ct] (wrapping) *)
  Definition x_inc_block_ct (s : cstore) : cstore :=
    let pos := x_pos64 s in
    let d0 := v4_unpack n (st_d s) in
    let pos := wrap 64 (pos + 1) in
    let d1 := v4_insert n (v4_insert n d0 (wrap 32 (N.shiftr pos 32)) 1) (wrap 32 pos) 0 in
    CSt (st_b s) (st_c s) (v4_into n d1).

  (** [seek64], [seek32] ([blockct] a u64 / u32) *)
  Definition x_seek64 (s : cstore) (blockct : N) : cstore :=
    let d := v4_unpack n (st_d s) in
    CSt (st_b s) (st_c s)
        (v4_into n (v4_insert n (v4_insert n d (wrap 32 (N.shiftr blockct 32)) 1) (wrap 32 blockct) 0)).
  Definition x_seek32 (s : cstore) (blockct : N) : cstore :=
    let d := v4_unpack n (st_d s) in
    CSt (st_b s) (st_c s) (v4_into n (v4_insert n d blockct 0)).

  (** body of [refill_narrow] (under [dispatch_light128!]) after the call of
      [refill_narrow_rounds], whose result [r] comes back as storage *)
  Definition x_refill_narrow_tail (s : cstore) (r : list N * list N * list N * list N) : list N * cstore :=
    let x := CS (v4_unpack n (t4_0 r)) (v4_unpack n (t4_1 r)) (v4_unpack n (t4_2 r)) (v4_unpack n (t4_3 r)) in
    (x_output_narrow s x, x_inc_block_ct s).
End ChaChaNarrow.

(** [refill_narrow]: the rounds run on the Machine chosen by [dispatch!] ([m1]), the output and
    the counter update on the one chosen by [dispatch_light128!] ([m2]) *)
Definition x_refill_narrow (m1 m2 : xmachine) (drounds : nat) (s : cstore) : list N * cstore :=
  x_refill_narrow_tail _ (xm_n m2) s (x_refill_narrow_rounds _ (xm_n m1) drounds s).

(** [init_chacha_x] (XChaCha set-up, under [dispatch_light128!] = [m2]; its call of
    [refill_narrow_rounds] is under [dispatch!] = [m1]); [key]: 32 bytes, [nonce]: 24 bytes.
    [read_u32le] and [[u32; 4].into()] are scalar code. *)
Definition x_init_chacha_x (m1 m2 : xmachine) (key nonce : list N) (rounds : nat) : cstore :=
  let n2 := xm_n m2 in
  let key0 := v4_read_le n2 (firstn 16 key) in
  let key1 := v4_read_le n2 (skipn 16 key) in
  let nonce0 := v4_read_le n2 (firstn 16 nonce) in
  let state := CSt (v4_into n2 key0) (v4_into n2 key1) (v4_into n2 nonce0) in
  let x := x_refill_narrow_rounds _ (xm_n m1) rounds state in
  let ctr_nonce1 := [0; 0; le_join (firstn 4 (skipn 16 nonce)); le_join (firstn 4 (skipn 20 nonce))] in
  CSt (t4_0 x) (t4_3 x) (bytes_le 4 ctr_nonce1).

Section ChaChaWide.
  Variables (o4 o16 : vops) (n : nops o4) (q : dops) (x : wops o4 o16).

  (** little-endian [d0123] *)
  Definition x_d0123 (d : list N) : vt o16 :=
    let d0 := d2_unpack q d in
    let incr := d8_from_lanes q (d2_vec q [0; 0]) (d2_vec q [1; 0]) (d2_vec q [2; 0]) (d2_vec q [3; 0]) in
    v16_unpack x (d8_into q (d8_add q (d8_from_lanes q d0 d0 d0 d0) incr)).

  (** little-endian [add_pos] *)
  Definition x_add_pos (d : vt o4) (i : N) : vt o4 :=
    let d0 := d2_unpack q (v4_into n d) in
    let incr := d2_vec q [i; 0] in
    v4_unpack n (d2_into q (d2_add q d0 incr)).

  (** [refill_wide_impl] *)
  Definition x_refill_wide (drounds : nat) (s : cstore) : list N * cstore :=
    let k := v_vec o4 chacha_k in
    let b := v4_unpack n (st_b s) in
    let c := v4_unpack n (st_c s) in
    let st := CS (v16_from_lanes x k k k k) (v16_from_lanes x b b b b) (v16_from_lanes x c c c c)
                 (x_d0123 (st_d s)) in
    let st := c_rounds o16 drounds st in
    let kk := v16_from_lanes x k k k k in
    let sb' := v4_unpack n (st_b s) in
    let sb' := v16_from_lanes x sb' sb' sb' sb' in
    let sc' := v4_unpack n (st_c s) in
    let sc' := v16_from_lanes x sc' sc' sc' sc' in
    let sd' := x_d0123 (st_d s) in
    let results := v16_transpose4 x (o_add o16 (sa st) kk) (o_add o16 (sb st) sb')
                                    (o_add o16 (sc st) sc') (o_add o16 (sd st) sd') in
    let out := v16_write_le x (t4_0 results) ++ v16_write_le x (t4_1 results) ++
               v16_write_le x (t4_2 results) ++ v16_write_le x (t4_3 results) in
    (out, CSt (st_b s) (st_c s) (v4_into n (x_add_pos (t4_0 (v16_to_lanes x sd')) 4))).
End ChaChaWide.

Definition xm_refill_wide (m : xmachine) : nat -> cstore -> list N * cstore :=
  x_refill_wide _ _ (xm_n m) (xm_d m) (xm_w m).

(** * JH (compressor.rs [f8_impl]); [state] = the 128 bytes of [[vec128_storage; 8]], [data] = the
      64-byte block, [sched] = the round constants and swap exponents in execution order *)
Definition slice16 (i : nat) (bs : list N) : list N := firstn 16 (skipn (16 * i) bs).

Section JHFull.
  Variables (j : jops) (u : uops j).

  Definition x_f8 (sched : list (nat * (N * N))) (state data : list N) : list N :=
    let un i := o1_unpack u (slice16 i state) in
    let rd i := o1_read u (slice16 i data) in
    let y := JX8 (un 0%nat) (un 1%nat) (un 2%nat) (un 3%nat) (un 4%nat) (un 5%nat) (un 6%nat) (un 7%nat) in
    let y := JX8 (j_xor1 j (q0 y) (rd 0%nat)) (j_xor1 j (q1 y) (rd 1%nat))
                 (j_xor1 j (q2 y) (rd 2%nat)) (j_xor1 j (q3 y) (rd 3%nat))
                 (q4 y) (q5 y) (q6 y) (q7 y) in
    let y := j_rounds j y sched in
    let y := JX8 (q0 y) (q1 y) (q2 y) (q3 y)
                 (j_xor1 j (q4 y) (rd 0%nat)) (j_xor1 j (q5 y) (rd 1%nat))
                 (j_xor1 j (q6 y) (rd 2%nat)) (j_xor1 j (q7 y) (rd 3%nat)) in
    o1_into u (q0 y) ++ o1_into u (q1 y) ++ o1_into u (q2 y) ++ o1_into u (q3 y) ++
    o1_into u (q4 y) ++ o1_into u (q5 y) ++ o1_into u (q6 y) ++ o1_into u (q7 y).
End JHFull.

Definition xm_f8 (m : xmachine) := x_f8 _ (xm_u m).

(** * BLAKE (lib.rs [$X4::put_block], [$compressor::finalize]); [h] = the two storages of
      [state.h], [mw] = the 16 message words [from_be_bytes] read by scalar code *)
Section BlakeFull.
  Variable o : vops.
  Variables k1 k2 k3 k4 : N.
  Variable U : list N.
  Variable nrounds : nat.
  Variables (unpack : list N -> vt o) (into : vt o -> list N) (wr_be : vt o -> list N).

  (** the four message vectors of one [sigma] (column step, diagonal step) *)
  Definition x_msgs (mw : list N) (sigma : list nat) : list N * list N * list N * list N :=
    let m0 e := N.lxor (nth (nth e sigma 0%nat) mw 0) (nth (nth (e + 1) sigma 0%nat) U 0) in
    let m1 e := N.lxor (nth (nth (e + 1) sigma 0%nat) mw 0) (nth (nth e sigma 0%nat) U 0) in
    ([m0 0%nat; m0 2%nat; m0 4%nat; m0 6%nat], [m1 0%nat; m1 2%nat; m1 4%nat; m1 6%nat],
     [m0 14%nat; m0 8%nat; m0 10%nat; m0 12%nat], [m1 14%nat; m1 8%nat; m1 10%nat; m1 12%nat]).

  Definition x_put_block_words (h : list N * list N) (mw : list N) (t : N * N) : list N * list N :=
    let u0 := v_vec o [nth 0 U 0; nth 1 U 0; nth 2 U 0; nth 3 U 0] in
    let u1 := v_vec o [nth 4 U 0; nth 5 U 0; nth 6 U 0; nth 7 U 0] in
    let xs := (unpack (fst h), unpack (snd h), u0,
               o_xor o u1 (v_vec o [fst t; fst t; snd t; snd t])) in
    let xs := b_rounds o k1 k2 k3 k4 xs (map (x_msgs mw) (firstn nrounds Blake.SIGMA)) in
    let h0 := unpack (fst h) in
    let h1 := unpack (snd h) in
    (into (o_xor o (o_xor o h0 (t4_0 xs)) (t4_2 xs)), into (o_xor o (o_xor o h1 (t4_1 xs)) (t4_3 xs))).

  (** [finalize]: both halves written big-endian *)
  Definition x_finalize (h : list N * list N) : list N :=
    wr_be (unpack (fst h)) ++ wr_be (unpack (snd h)).
End BlakeFull.

Definition xm_put_block32 (m : xmachine) (h : list N * list N) (block : list N) (t : N * N) :=
  x_put_block_words (m_u32x4 (xm_base m)) 16 12 8 7 Blake.BLAKE256_U 14
    (v4_unpack (xm_n m)) (v4_into (xm_n m)) h (Blake.read_words_be 4 block) t.
Definition xm_put_block64 (m : xmachine) (h : list N * list N) (block : list N) (t : N * N) :=
  x_put_block_words (m_u64x4 (xm_base m)) 32 25 16 11 Blake.BLAKE512_U 16
    (d4_unpack (xm_h m)) (d4_into (xm_h m)) h (Blake.read_words_be 8 block) t.
Definition xm_finalize32 (m : xmachine) := x_finalize _ (v4_unpack (xm_n m)) (v4_write_be (xm_n m)).
Definition xm_finalize64 (m : xmachine) := x_finalize _ (d4_unpack (xm_h m)) (d4_write_be (xm_h m)).

(** * the lane-wise instance: vectors are their word lists, well-formed = the right number of
      words of the right width; every operation is its lane meaning *)
Definition okv (w : N) (n : nat) : vops :=
  VOps (list N) (words_ok w n) (fun l => l) (fun l => l)
       (v_add w) v_xor (v_rotr w)
       (per_lane4 shuffle1230) (per_lane4 shuffle2301) (per_lane4 shuffle3012).

Definition ok_jops : jops :=
  JOps N (N * N) w128 (fun x => w128 (fst x) /\ w128 (snd x))
       (fun x => x) (fun x => x) (fun x => x) (fun x => x)
       (fun a b => (a, b)) (fun a i => if i then snd a else fst a)
       N.lxor (p2 N.lxor) (p2 N.land) (p2 N.lor) (p2 l_andnot)
       (fun a => (l_not (fst a), l_not (snd a))) l_swap.

Definition lane_base : machine := Machine (okv 32 4) (okv 32 16) (okv 64 4) ok_jops.

Definition lane_nops : nops (okv 32 4) :=
  NOps (okv 32 4) (words_le 4) (bytes_le 4)
       (fun a i => nth (N.to_nat i) a 0) (fun a v i => upd (N.to_nat i) v a)
       (write_le 4) (write_be 4) (read_le 4).
Definition lane_dops : dops :=
  DOps (list N) (words_ok 64 2) (fun l => l) (fun l => l) (words_le 8) (bytes_le 8) (v_add 64)
       (list N) (words_ok 64 8) (fun l => l) (fun a b c d => a ++ b ++ c ++ d) (v_add 64) (bytes_le 8).
Definition lane_wops : wops (okv 32 4) (okv 32 16) :=
  WOps (okv 32 4) (okv 32 16)
       (fun a b c d => a ++ b ++ c ++ d)
       (fun v => (lane4 0 v, lane4 1 v, lane4 2 v, lane4 3 v))
       (words_le 4) l_transpose4 (write_le 4).
Definition lane_hops : hops (okv 64 4) := HOps (okv 64 4) (words_le 8) (bytes_le 8) (write_be 8).
Definition lane_uops : uops ok_jops := UOps ok_jops le_join le_join (le_split 16).

Definition lane_xm : xmachine := XMachine lane_base lane_nops lane_dops lane_wops lane_hops lane_uops.
