(** C16 — byte-slice APIs over an addressed memory.

    Unlike the per-algorithm models (which take byte *lists*, so that address
    independence holds by construction), this model keeps the address: memory
    is a list of bytes, a slice is an (offset, length) window into it, and every
    access goes through a partial accessor that fails

      - with [None] from [mread]/[mwrite] when it leaves mapped memory (a fault),
      - with [None] from [sread]/[swrite] when it leaves the *slice*.

    The generic shapes used by the crates are written with these accessors,
    mirroring the Rust loops:

      [m_apply]        Buffer::try_apply_keystream (stream-ciphers/chacha/src/rustcrypto_impl.rs:
                       buffered prefix, chunks_exact_mut(256) wide part, chunks_mut(64) tail)
      [m_input_block]  block-buffer 0.9 input_block as called by the four hash crates' update
                       (fill the partial block, full blocks straight from the caller's slice, keep the rest)
      [sb_read], [sb_write], [sb_read2], [sb_write2], [sb_read4], [sb_write4]
                       ppv-lite86 StoreBytes with its explicit length assertion (sse2.rs:78-105,
                       1414-1435) and the split_at / indexing compositions of soft.rs (x2, x4)
      [blk_apply]      in-place block operation on a GenericArray view (Threefish
                       encrypt_block/decrypt_block, finalize_into)

    What a functional model cannot exhibit — a load that reads outside the slice
    (or requires alignment) but does not change the value — is outside this file:
    see Props/C16.v. *)
From Coq Require Import NArith List Arith Lia Bool.
From CC Require Import Lib.Words Lib.Bytes Lib.ListX Model.BlockBuffer.
Import ListNotations.

Definition mem := list N.
Record slice := Sl { s_off : nat; s_len : nat }.

(** the slice lies in mapped memory *)
Definition slice_ok (m : mem) (s : slice) : Prop := s_off s + s_len s <= length m.

(** content of the slice *)
Definition sbytes (m : mem) (s : slice) : list N := firstn (s_len s) (skipn (s_off s) m).

(** raw accesses; [None] = outside mapped memory *)
Definition mread (m : mem) (p n : nat) : option (list N) :=
  if p + n <=? length m then Some (firstn n (skipn p m)) else None.
Definition mwrite (m : mem) (p : nat) (bs : list N) : option mem :=
  if p + length bs <=? length m then Some (firstn p m ++ bs ++ skipn (p + length bs) m) else None.

(** slice-relative accesses; [None] = outside the slice (or outside memory) *)
Definition sread (m : mem) (s : slice) (i n : nat) : option (list N) :=
  if i + n <=? s_len s then mread m (s_off s + i) n else None.
Definition swrite (m : mem) (s : slice) (i : nat) (bs : list N) : option mem :=
  if i + length bs <=? s_len s then mwrite m (s_off s + i) bs else None.

(** [&s[i..i+n]] *)
Definition sub (s : slice) (i n : nat) : slice := Sl (s_off s + i) n.

(** outcome of an API call: a panic keeps the memory as it was when the assertion fired *)
Inductive res (A : Type) : Type :=
| Ok (a : A)
| Panic (m : mem)
| Fault.            (* an access outside the slice / outside memory: never happens (theorems) *)
Arguments Ok {A} a.
Arguments Panic {A} m.
Arguments Fault {A}.

(** * Key-stream application *)

Record kstate := KS { ks_out : list N; ks_have : nat; ks_ctr : N }.

Section Apply.
  (** the primitive the shape does not care about *)
  Variable refill : N -> list N.      (* one block, 64 bytes *)
  Variable refill4 : N -> list N.     (* four blocks, 256 bytes *)

  (** [for (d, k) in data[i..i+n].iter_mut().zip(ks) { *d ^= *k }] *)
  Definition xor_at (m : mem) (s : slice) (i : nat) (ks : list N) (n : nat) : option mem :=
    match sread m s i n with
    | None => None
    | Some d => swrite m s i (xor_bytes d (firstn n ks))
    end.

  Fixpoint wide_loop (nw : nat) (m : mem) (s : slice) (i : nat) (ctr : N) : option (mem * N) :=
    match nw with
    | O => Some (m, ctr)
    | S k => match xor_at m s i (refill4 ctr) 256 with
             | None => None
             | Some m' => wide_loop k m' s (i + 256) (ctr + 4)%N
             end
    end.

  (** [for dd in data.chunks_mut(64)]: [nch] chunks, [rem] bytes left *)
  Fixpoint tail_loop (nch : nat) (m : mem) (s : slice) (i rem : nat) (st : kstate)
    : option (mem * kstate) :=
    match nch with
    | O => Some (m, st)
    | S k => let n := Nat.min 64 rem in
             let o := refill (ks_ctr st) in
             match xor_at m s i o n with
             | None => None
             | Some m' => tail_loop k m' s (i + n) (rem - n) (KS o (64 - n) (ks_ctr st + 1)%N)
             end
    end.

  Definition m_apply (m : mem) (s : slice) (st : kstate) : option (mem * kstate) :=
    let len := s_len s in
    let have := ks_have st in
    let hr := Nat.min have len in
    match xor_at m s 0 (skipn (64 - have) (ks_out st)) hr with
    | None => None
    | Some m1 =>
      let rest := len - hr in
      let nw := rest / 256 in
      match wide_loop nw m1 s hr (ks_ctr st) with
      | None => None
      | Some (m2, ctr2) =>
        let i2 := hr + 256 * nw in
        let rem := rest - 256 * nw in
        tail_loop ((rem + 63) / 64) m2 s i2 rem (KS (ks_out st) (have - hr) ctr2)
      end
    end.

  (** the same computation on the bytes of the slice alone (no addresses) *)
  Definition xor_at_b (body : list N) (i : nat) (ks : list N) (n : nat) : list N :=
    firstn i body ++ xor_bytes (firstn n (skipn i body)) (firstn n ks) ++ skipn (i + n) body.

  Fixpoint wide_loop_b (nw : nat) (body : list N) (i : nat) (ctr : N) : list N * N :=
    match nw with
    | O => (body, ctr)
    | S k => wide_loop_b k (xor_at_b body i (refill4 ctr) 256) (i + 256) (ctr + 4)%N
    end.

  Fixpoint tail_loop_b (nch : nat) (body : list N) (i rem : nat) (st : kstate) : list N * kstate :=
    match nch with
    | O => (body, st)
    | S k => let n := Nat.min 64 rem in
             let o := refill (ks_ctr st) in
             tail_loop_b k (xor_at_b body i o n) (i + n) (rem - n) (KS o (64 - n) (ks_ctr st + 1)%N)
    end.

  Definition apply_b (body : list N) (st : kstate) : list N * kstate :=
    let len := length body in
    let have := ks_have st in
    let hr := Nat.min have len in
    let b1 := xor_at_b body 0 (skipn (64 - have) (ks_out st)) hr in
    let rest := len - hr in
    let nw := rest / 256 in
    let '(b2, ctr2) := wide_loop_b nw b1 hr (ks_ctr st) in
    let rem := rest - 256 * nw in
    tail_loop_b ((rem + 63) / 64) b2 (hr + 256 * nw) rem (KS (ks_out st) (have - hr) ctr2).

  (** the key stream the call consumes, as a function of the state and the length only *)
  Fixpoint blocks4 (nw : nat) (ctr : N) : list N :=
    match nw with O => [] | S k => refill4 ctr ++ blocks4 k (ctr + 4)%N end.
  Fixpoint blocks1 (nch : nat) (ctr : N) : list N :=
    match nch with O => [] | S k => refill ctr ++ blocks1 k (ctr + 1)%N end.
  Definition key_stream (st : kstate) (len : nat) : list N :=
    let have := ks_have st in
    let hr := Nat.min have len in
    let rest := len - hr in
    let nw := rest / 256 in
    let rem := rest - 256 * nw in
    firstn len (firstn hr (skipn (64 - have) (ks_out st)) ++ blocks4 nw (ks_ctr st)
                ++ blocks1 ((rem + 63) / 64) (ks_ctr st + 4 * N.of_nat nw)%N).
End Apply.

(** * Block-buffer absorption (hash update) *)

Fixpoint read_blocks (nb : nat) (m : mem) (s : slice) (i size : nat) : option (list (list N)) :=
  match nb with
  | O => Some []
  | S k => match sread m s i size with
           | None => None
           | Some b => match read_blocks k m s (i + size) size with
                       | None => None
                       | Some r => Some (b :: r)
                       end
           end
  end.

(** block-buffer 0.9 [input_block(&mut self, input, f)] reading [input] from memory; the blocks
    handed to [f] are returned in call order (cf. [Model.BlockBuffer.input_block]) *)
Definition m_input_block (b : bb) (m : mem) (s : slice) : option (bb * list (list N)) :=
  let size := bb_size b in
  let r := bb_remaining b in
  let len := s_len s in
  if len <? r then
    match sread m s 0 len with
    | None => None
    | Some d => Some (BB (copy_at (bb_buf b) (bb_pos b) d) (bb_pos b + len), [])
    end
  else
    let first :=
      if negb (bb_pos b =? 0) then
        match sread m s 0 r with
        | None => None
        | Some d => let buf1 := copy_at (bb_buf b) (bb_pos b) d in Some (r, buf1, [buf1])
        end
      else Some (0, bb_buf b, []) in
    match first with
    | None => None
    | Some (i0, buf1, out1) =>
      let nb := (len - i0) / size in
      match read_blocks nb m s i0 size with
      | None => None
      | Some blocks =>
        match sread m s (i0 + size * nb) (len - i0 - size * nb) with
        | None => None
        | Some rem => Some (BB (copy_at buf1 0 rem) (length rem), out1 ++ blocks)
        end
      end
    end.

(** * StoreBytes *)

(** [assert_eq!(input.len(), size); loadu(input.as_ptr())] *)
Definition sb_read (size : nat) (m : mem) (s : slice) : res (list N) :=
  if s_len s =? size then
    match sread m s 0 size with Some d => Ok d | None => Fault end
  else Panic m.

(** [assert_eq!(out.len(), size); storeu(out.as_mut_ptr(), v)] *)
Definition sb_write (v : list N) (m : mem) (s : slice) : res mem :=
  if s_len s =? length v then
    match swrite m s 0 v with Some m' => Ok m' | None => Fault end
  else Panic m.

(** soft.rs [x2]: [input.split_at(input.len() / 2)], each half through the element type *)
Definition sb_read2 (size : nat) (m : mem) (s : slice) : res (list N) :=
  let h := s_len s / 2 in
  match sb_read size m (sub s 0 h) with
  | Ok a => match sb_read size m (sub s h (s_len s - h)) with
            | Ok b => Ok (a ++ b)
            | Panic m' => Panic m'
            | Fault => Fault
            end
  | Panic m' => Panic m'
  | Fault => Fault
  end.

Definition sb_write2 (v0 v1 : list N) (m : mem) (s : slice) : res mem :=
  let h := s_len s / 2 in
  match sb_write v0 m (sub s 0 h) with
  | Ok m1 => sb_write v1 m1 (sub s h (s_len s - h))
  | r => r
  end.

(** soft.rs [x4]: [n = len/4; &input[..n], &input[n..2n], &input[2n..3n], &input[3n..]] *)
Definition sb_write4 (v0 v1 v2 v3 : list N) (m : mem) (s : slice) : res mem :=
  let n := s_len s / 4 in
  match sb_write v0 m (sub s 0 n) with
  | Ok m1 => match sb_write v1 m1 (sub s n n) with
             | Ok m2 => match sb_write v2 m2 (sub s (2 * n) n) with
                        | Ok m3 => sb_write v3 m3 (sub s (3 * n) (s_len s - 3 * n))
                        | r => r
                        end
             | r => r
             end
  | r => r
  end.

Definition res_bind {A B} (r : res A) (f : A -> res B) : res B :=
  match r with Ok a => f a | Panic m => Panic m | Fault => Fault end.

Definition sb_read4 (size : nat) (m : mem) (s : slice) : res (list N) :=
  let n := s_len s / 4 in
  res_bind (sb_read size m (sub s 0 n)) (fun a =>
  res_bind (sb_read size m (sub s n n)) (fun b =>
  res_bind (sb_read size m (sub s (2 * n) n)) (fun c =>
  res_bind (sb_read size m (sub s (3 * n) (s_len s - 3 * n))) (fun d =>
  Ok (a ++ b ++ c ++ d))))).

(** every [w]-byte word reversed ([bswap] of the lanes: write_be / read_be) *)
Fixpoint rev_words (w : nat) (fuel : nat) (bs : list N) : list N :=
  match fuel with
  | O => []
  | S f => match bs with
           | [] => []
           | _ => rev (firstn w bs) ++ rev_words w f (skipn w bs)
           end
  end.

(** * In-place block operation on a fixed-size view
    ([GenericArray::from_mut_slice] asserts the length; [f] is the cipher / the digest) *)
Definition blk_apply (n : nat) (f : list N -> list N) (m : mem) (s : slice) : res mem :=
  if s_len s =? n then
    match sread m s 0 n with
    | None => Fault
    | Some d => match swrite m s 0 (f d) with Some m' => Ok m' | None => Fault end
    end
  else Panic m.

(** * Chunking *)

(** [slice.chunks(k)]: the last chunk may be short *)
Fixpoint chunks (k : nat) (fuel : nat) (l : list N) : list (list N) :=
  match fuel with
  | O => []
  | S f => match l with
           | [] => []
           | _ => firstn k l :: chunks k f (skipn k l)
           end
  end.
