(** Generic model of the 15 hasher structs of hashes/{blake,groestl,jh,skein}/src/lib.rs
    as far as C08 is concerned: a state, a [BlockBuffer], an [update] that feeds the buffer
    and folds the per-block closure over the emitted blocks, [finalize], [reset] = replace
    by [Default], [clone], acting on a table of instances.

    The model is PARAMETRIC in everything C08 does not care about:
      [h_init]  the state part of [Default::default()] (IV, zeroed counters);
      [h_pre]   what [update] does with [data.len()] before feeding the buffer
                (JH: [self.datalen += data.len()]; the identity for the other three);
      [h_step]  the closure passed to [input_block] / [input_lazy], including its counter
                update (BLAKE [increase_count(t, ..); put_block(block, t)], Groestl
                [block_counter += 1; input(b)], JH [state.input(b)], Skein
                [process_block(state, block, size)]);
      [h_fin]   the digest computed by [finalize_into_dirty] from state and buffer;
      [h_size]  the block size; [h_lazy] selects [input_lazy] (Skein) or [input_block]. *)
From Coq Require Import NArith List Arith Lia Bool.
From CC Require Import Lib.Words Lib.Bytes Lib.ListX Model.BlockBuffer.
Import ListNotations.

Section Hasher.
Context {st digest : Type}.

Record hasher := Hasher {
  h_size : nat;
  h_lazy : bool;
  h_init : st;
  h_pre  : st -> nat -> st;
  h_step : st -> list N -> st;
  h_fin  : st -> bb -> digest }.

(** one hasher struct: state (chaining value and counters) and block buffer *)
Record inst := Inst { i_st : st; i_buf : bb }.

Definition bb_input (lazy : bool) : bb -> list N -> bb * list (list N) :=
  if lazy then input_lazy else input_block.

(** [Default::default()] *)
Definition h_new (h : hasher) : inst := Inst (h_init h) (bb_new (h_size h)).

(** [digest::Update::update(&mut self, data)] *)
Definition h_update (h : hasher) (i : inst) (data : list N) : inst :=
  let s0 := h_pre h (i_st i) (length data) in
  let r := bb_input (h_lazy h) (i_buf i) data in
  Inst (fold_left (h_step h) (snd r) s0) (fst r).

(** the result of [finalize_into_dirty] (the instance is dropped or reset afterwards) *)
Definition h_finalize (h : hasher) (i : inst) : digest := h_fin h (i_st i) (i_buf i).

(** [Digest::digest(msg)]: new; one update; finalize *)
Definition h_oneshot (h : hasher) (msg : list N) : digest :=
  h_finalize h (h_update h (h_new h) msg).

(** * histories on a table of instances

    A slot is [Some i] (live) or [None] (consumed by [finalize(self)]).  Operations that
    name a consumed or non-existent slot do nothing (the harness never issues them).
    [Clone k] appends a copy of slot [k] at the end of the table. *)
Inductive op :=
| Update (k : nat) (data : list N)
| Clone (k : nat)
| Reset (k : nat)
| FinalizeReset (k : nat)
| Finalize (k : nat).

Definition table := list (option inst).

Definition live (T : table) (k : nat) : option inst :=
  match nth_error T k with Some (Some i) => Some i | _ => None end.

(** one operation: new table and the digests it returns, tagged with the slot *)
Definition exec (h : hasher) (T : table) (o : op) : table * list (nat * digest) :=
  match o with
  | Update k data =>
      match live T k with
      | Some i => (upd k (Some (h_update h i data)) T, [])
      | None => (T, []) end
  | Clone k =>
      match live T k with
      | Some i => (T ++ [Some i], [])
      | None => (T, []) end
  | Reset k =>
      match live T k with
      | Some i => (upd k (Some (h_new h)) T, [])
      | None => (T, []) end
  | FinalizeReset k =>
      match live T k with
      | Some i => (upd k (Some (h_new h)) T, [(k, h_finalize h i)])
      | None => (T, []) end
  | Finalize k =>
      match live T k with
      | Some i => (upd k None T, [(k, h_finalize h i)])
      | None => (T, []) end
  end.

Fixpoint run (h : hasher) (T : table) (ops : list op) : table * list (nat * digest) :=
  match ops with
  | [] => (T, [])
  | o :: r =>
      let e := exec h T o in
      let q := run h (fst e) r in
      (fst q, snd e ++ snd q)
  end.

(** * the reference: every slot just remembers the bytes absorbed since its creation
    or last reset ([Clone] copies them); a digest is the one-shot hash of those bytes *)
Definition stable := list (option (list N)).

Definition slive (A : stable) (k : nat) : option (list N) :=
  match nth_error A k with Some (Some m) => Some m | _ => None end.

Definition sexec (oneshot : list N -> digest) (A : stable) (o : op) : stable * list (nat * digest) :=
  match o with
  | Update k data =>
      match slive A k with
      | Some m => (upd k (Some (m ++ data)) A, [])
      | None => (A, []) end
  | Clone k =>
      match slive A k with
      | Some m => (A ++ [Some m], [])
      | None => (A, []) end
  | Reset k =>
      match slive A k with
      | Some m => (upd k (Some []) A, [])
      | None => (A, []) end
  | FinalizeReset k =>
      match slive A k with
      | Some m => (upd k (Some []) A, [(k, oneshot m)])
      | None => (A, []) end
  | Finalize k =>
      match slive A k with
      | Some m => (upd k None A, [(k, oneshot m)])
      | None => (A, []) end
  end.

Fixpoint srun (oneshot : list N -> digest) (A : stable) (ops : list op) : stable * list (nat * digest) :=
  match ops with
  | [] => (A, [])
  | o :: r =>
      let e := sexec oneshot A o in
      let q := srun oneshot (fst e) r in
      (fst q, snd e ++ snd q)
  end.

(** * one instance on its own *)
Inductive op1 := U1 (data : list N) | C1 | R1 | FR1 | F1.

(** the digests a single instance returns under a sequence of its own operations
    ([None]: already consumed) *)
Fixpoint run1 (h : hasher) (x : option inst) (ops : list op1) : list digest :=
  match ops, x with
  | [], _ => []
  | _ :: r, None => run1 h None r
  | U1 d :: r, Some i => run1 h (Some (h_update h i d)) r
  | C1 :: r, Some i => run1 h x r
  | R1 :: r, Some i => run1 h (Some (h_new h)) r
  | FR1 :: r, Some i => h_finalize h i :: run1 h (Some (h_new h)) r
  | F1 :: r, Some i => h_finalize h i :: run1 h None r
  end.

(** the operations of a history that name slot [j] *)
Definition proj1 (j : nat) (o : op) : list op1 :=
  match o with
  | Update k d => if k =? j then [U1 d] else []
  | Clone k => if k =? j then [C1] else []
  | Reset k => if k =? j then [R1] else []
  | FinalizeReset k => if k =? j then [FR1] else []
  | Finalize k => if k =? j then [F1] else []
  end.
Definition proj (j : nat) (ops : list op) : list op1 := flat_map (proj1 j) ops.

(** the digests returned by slot [j] *)
Definition outputs_of (j : nat) (outs : list (nat * digest)) : list digest :=
  map snd (filter (fun p => fst p =? j) outs).

End Hasher.

Arguments hasher : clear implicits.
Arguments inst : clear implicits.
Arguments table : clear implicits.

(** [h_fin] built from a function of the buffered bytes [buffer[..pos]] only *)
Definition fin_of_content {st digest} (f : st -> list N -> digest) : st -> bb -> digest :=
  fun s b => f s (firstn (bb_pos b) (bb_buf b)).

(** * The four shapes of hasher struct in /repo, over an abstract compression function.
    [X] is the chaining value; counters are fixed-width words. *)
Section Shapes.
Context {X digest : Type}.

(** BLAKE: [t] is a pair of [w]-bit words counting bits; the closure adds one block's bits
    and passes the new [t] to [put_block] *)
Definition blake_increase_count (w : N) (t : N * N) (count : N) : N * N :=
  let s := (fst t + wrap w (count * 8))%N in
  (wrap w s, if (N.shiftr s w =? 0)%N then snd t else wrap w (snd t + 1)).

Definition blake_shape (w : N) (size : nat) (iv : X) (put_block : X -> list N -> N * N -> X)
    (fin : X * (N * N) -> bb -> digest) : hasher (X * (N * N)) digest :=
  Hasher size false (iv, (0, 0)%N) (fun s _ => s)
    (fun s blk => let t := blake_increase_count w (snd s) (N.of_nat size) in
                  (put_block (fst s) blk t, t))
    fin.

(** Groestl: [block_counter: u64] incremented by the closure *)
Definition groestl_shape (size : nat) (iv : X) (input : X -> list N -> X)
    (fin : X * N -> bb -> digest) : hasher (X * N) digest :=
  Hasher size false (iv, 0%N) (fun s _ => s)
    (fun s blk => (input (fst s) blk, wrap 64 (snd s + 1))) fin.

(** JH: [datalen: usize] incremented by [update] itself, the closure only compresses *)
Definition jh_shape (size : nat) (iv : X) (input : X -> list N -> X)
    (fin : X * N -> bb -> digest) : hasher (X * N) digest :=
  Hasher size false (iv, 0%N)
    (fun s n => (fst s, wrap 64 (snd s + N.of_nat n)))
    (fun s blk => (input (fst s) blk, snd s)) fin.

(** Skein: lazy buffering; the closure is [process_block(state, block, size)] on
    [state = (x, (t0, t1))] *)
Definition skein_shape (size : nat) (init : X * (N * N))
    (process_block : X * (N * N) -> list N -> nat -> X * (N * N))
    (fin : X * (N * N) -> bb -> digest) : hasher (X * (N * N)) digest :=
  Hasher size true init (fun s _ => s) (fun s blk => process_block s blk size) fin.

End Shapes.

(** * The finalisations of the four crates as written, over abstract compression / output
    functions (what [finalize_into_dirty] does with state and buffer), and the resulting
    complete hasher models.  [dflt] stands for a panic ([unwrap] on [Err], [unreachable!()]). *)
(** several [input_block] calls in a row, each with its own closure: the blocks emitted by each call *)
Fixpoint feed_calls (b : bb) (pieces : list (list N)) : bb * list (list (list N)) :=
  match pieces with
  | [] => (b, [])
  | p :: r => let x := input_block b p in let y := feed_calls (fst x) r in (fst y, snd x :: snd y)
  end.

Local Open Scope N_scope.

Section CrateFinalisations.
Context {X digest : Type}.
Variable dflt : digest.   (* stands for a panic ([unwrap] on [Err], [unreachable!()]) *)

(** ** BLAKE: [finalize_into_dirty] of hashes/blake/src/lib.rs, word size [w] bits, block
    [size = 16 words], [isfull] = low bit of the marker byte *)
Definition blake_fin (w : N) (size : nat) (isfull : N)
    (put_block : X -> list N -> N * N -> X) (out : X -> digest) : X * (N * N) -> bb -> digest :=
  fun s b =>
    let wb := N.to_nat (w / 8) in
    let pos := bb_pos b in
    let t := blake_increase_count w (snd s) (N.of_nat pos) in
    let msglen := be_split wb (snd t) ++ be_split wb (fst t) in
    let footerlen := (1 + 2 * wb)%nat in
    let exactfit := if (pos + footerlen =? size)%nat then 0x80 else 0 in
    let magic := N.lor isfull exactfit in
    let extra_block := (size <? pos + footerlen)%nat in
    let padding := 0x80 :: repeat 0 size in
    let calls1 := if extra_block then [firstn (size - pos) padding] else [] in
    let position := if extra_block then 0%nat else pos in
    let t2 := if (position =? 0)%nat then (0, 0) else t in
    let x := if extra_block then 1%nat else 0%nat in
    let e := (x + (size - footerlen - position))%nat in
    let calls := calls1 ++ [skipn x (firstn e padding); [magic]; msglen] in
    let emitted := snd (feed_calls b calls) in
    (* closures: first call (if any) [put_block(block, t)], then two [unreachable!()], then
       [put_block(block, t2)] *)
    let run_extra := fun h blocks => fold_left (fun h blk => put_block h blk t) blocks h in
    let run_last := fun h blocks => fold_left (fun h blk => put_block h blk t2) blocks h in
    match emitted, extra_block with
    | [b1; []; []; b4], true => out (run_last (run_extra (fst s) b1) b4)
    | [[]; []; b4], false => out (run_last (fst s) b4)
    | _, _ => dflt
    end.

(** ** Groestl: [finalize_dirty] *)
Definition groestl_fin (input : X -> list N -> X) (out : X -> digest) : X * N -> bb -> digest :=
  fun s b =>
    let count := wrap 64 (snd s + 1 + (if (bb_remaining b <=? 8)%nat then 1 else 0)) in
    out (fold_left input (snd (len_padding_be 8 b count)) (fst s)).

(** ** JH: [finalize_into_dirty] (block size 64) *)
Definition jh_fin (input : X -> list N -> X) (out : X -> digest) : X * N -> bb -> digest :=
  fun s b =>
    let len := wrap 64 (snd s * 8) in
    if (bb_pos b =? 0)%nat then out (fold_left input (snd (len_padding_be 8 b len)) (fst s))
    else if (bb_size b <=? bb_pos b)%nat then dflt     (* [pad_with::<Iso7816>().unwrap()] *)
    else
      let blk := zero_from (upd (bb_pos b) 0x80 (bb_buf b)) (bb_pos b + 1) in
      let last := copy_at (repeat 0 64%nat) 56 (be_split 8 len) in
      out (input (input (fst s) blk) last).

(** ** Skein: [finalize_into_dirty]; [output] is the counter-mode output stage *)
Definition skein_fin (size : nat) (process_block : X * (N * N) -> list N -> nat -> X * (N * N))
    (output : X -> digest) : X * (N * N) -> bb -> digest :=
  fun s b =>
    let s1 := (fst s, (fst (snd s), N.lor (snd (snd s)) (N.shiftl 1 63))) in
    match pad_with_zero b with
    | Some (_, blk) => output (fst (process_block s1 blk (bb_pos b)))
    | None => dflt                                     (* [.unwrap()] *)
    end.


(** the complete plumbing of each crate *)
Definition blake_hasher (w : N) (size : nat) (isfull : N) (iv : X)
    (put_block : X -> list N -> N * N -> X) (out : X -> digest) :=
  blake_shape w size iv put_block (blake_fin w size isfull put_block out).
Definition groestl_hasher (size : nat) (iv : X) (input : X -> list N -> X) (out : X -> digest) :=
  groestl_shape size iv input (groestl_fin input out).
Definition jh_hasher (iv : X) (input : X -> list N -> X) (out : X -> digest) :=
  jh_shape 64 iv input (jh_fin input out).
Definition skein_hasher (size : nat) (init : X * (N * N))
    (process_block : X * (N * N) -> list N -> nat -> X * (N * N)) (output : X -> digest) :=
  skein_shape size init process_block (skein_fin size process_block output).

End CrateFinalisations.
