(** C16 — the addressed model tied to the faithful models (work package c16-tie).

    Model/SliceApi.v keeps addresses (memory = byte list, slice = (offset, length) window,
    accessors [sread]/[swrite] that fail outside the slice) but its key-stream shape [m_apply] is
    a simplified second model of [Buffer::try_apply_keystream]. This file gives, with the SAME
    failing accessors,

      [a_apply_body] / [a_apply_core] / [a_try_apply]
          the FULL body of stream-ciphers/chacha/src/rustcrypto_impl.rs
          [Buffer::try_apply_keystream::<EnableWide>] and [ChaChaAny::try_apply_keystream],
          clause by clause as Model/ChaChaStream.v [apply_body] / [apply_core] / [try_apply]
          (lazy fill with negative [have], [have as usize], the [len]/[fresh] overflow check and
          the Err return that leaves the data untouched, the [BLOCK - have] panic, drain of the
          buffered bytes, [chunks_exact_mut(256)] wide part, [chunks_mut(64)] tail with the
          partial last block, nonce-word restore of the 12-byte-nonce variant), over the same
          [buffer] record and the same block producers [chacha -> list N * chacha]; the data
          slice is read and written only through [xor_at] (= [sread] then [swrite]);

      [a_input_lazy]
          block-buffer 0.9 [input_lazy] (Skein) reading the caller's slice through [sread],
          with the [while input.len() > self.size()] loop kept as a loop;

      [sb_read_be], [sb_write_be] and the x2 / x4 compositions
          ppv-lite86 StoreBytes [unsafe_read_be] / [write_be] (sse2.rs: length assertion,
          unaligned load / store, [bswap] of the lanes = every [w]-byte word reversed) and
          soft.rs x2 / x4 (each part through the element type).

    Theorems: Proofs/SliceApiStream.v, Proofs/SliceApiStreamReal.v, Proofs/SliceApiMore.v. *)
From Coq Require Import NArith ZArith List Arith Lia Bool.
From CC Require Import Lib.Words Lib.Bytes Lib.ListX Model.BlockBuffer Model.ChaChaGuts Model.ChaChaStream Model.SliceApi.
Import ListNotations.

(** * Key-stream application: the full body *)
Section Stream.
  Variable refill1 : chacha -> list N * chacha.     (* [state.refill]:  64 bytes, next state *)
  Variable refill4 : chacha -> list N * chacha.     (* [state.refill4]: 256 bytes, next state *)

  (** [for dd in d0.chunks_exact_mut(BUFSZ) { refill4(&mut buf); dd ^= buf }]; [i] = offset of [dd]
      in the caller's slice *)
  Fixpoint a_wide_loop (n : nat) (st : chacha) (m : mem) (s : slice) (i : nat) : option (chacha * mem) :=
    match n with
    | O => Some (st, m)
    | S k => let '(buf, st') := refill4 st in
             match xor_at m s i buf 256 with
             | None => None
             | Some m' => a_wide_loop k st' m' s (i + 256)
             end
    end.

  (** [for dd in data.chunks_mut(BLOCK) { refill(&mut self.out); dd ^= self.out; have = BLOCK - dd.len() }]:
      [nch] chunks, [rem] bytes left, the chunk has [min 64 rem] bytes *)
  Fixpoint a_tail_loop (nch : nat) (st : chacha) (out : list N) (have : N) (m : mem) (s : slice) (i rem : nat)
    : option (chacha * list N * N * mem) :=
    match nch with
    | O => Some (st, out, have, m)
    | S k => let n := Nat.min 64 rem in
             let '(o, st') := refill1 st in
             match xor_at m s i o n with
             | None => None
             | Some m' => a_tail_loop k st' o (64 - N.of_nat n)%N m' s (i + n) (rem - n)
             end
    end.

  (** [Buffer::try_apply_keystream::<EnableWide>], everything after the lazy fill
      (cf. [ChaChaStream.apply_body]: same clauses in the same order; [None] = an access
      outside the slice) *)
  Definition a_apply_body (wide : bool) (b : buffer) (m : mem) (s : slice) : option (result * buffer * mem) :=
    let have := have_usize (b_have b) in
    let dl := N.of_nat (s_len s) in
    let have_ready := N.min have dl in
    let datalen := (dl - have_ready)%N in
    let blocks_needed := (datalen / 64 + (if (datalen mod 64 =? 0)%N then 0 else 1))%N in
    let o := (b_len b <? blocks_needed)%N in
    let l := wrap 64 (b_len b + 2 ^ 64 - blocks_needed)%N in
    if o && negb (b_fresh b) then Some (RErr, b, m)
    else if (64 <? have)%N then Some (RPanic, b, m)
    else
      let fresh' := b_fresh b && (blocks_needed =? 0)%N in
      let hr := N.to_nat have_ready in
      (* d0 = data[..have_ready] ^= out[BLOCK - have ..] *)
      match xor_at m s 0 (skipn (N.to_nat (64 - have)) (b_out b)) hr with
      | None => None
      | Some m1 =>
        let have1 := (have - have_ready)%N in
        let rest := s_len s - hr in
        let nwide := if wide then rest / 256 else 0 in
        match a_wide_loop nwide (b_state b) m1 s hr with
        | None => None
        | Some (s2, m2) =>
          let i2 := hr + 256 * nwide in
          let rem := rest - 256 * nwide in
          match a_tail_loop ((rem + 63) / 64) s2 (b_out b) have1 m2 s i2 rem with
          | None => None
          | Some (s3, outb, have3, m3) => Some (ROk, Buf s3 outb (Z.of_N have3) l fresh', m3)
          end
        end
      end.

  (** [Buffer::try_apply_keystream::<EnableWide>] (the lazy fill touches the buffer only) *)
  Definition a_apply_core (wide : bool) (b0 : buffer) (m : mem) (s : slice) : option (result * buffer * mem) :=
    a_apply_body wide (lazy_fill refill1 b0) m s.

  (** [ChaChaAny::try_apply_keystream] (cf. [ChaChaStream.try_apply]) *)
  Definition a_try_apply (is12 : bool) (b : buffer) (m : mem) (s : slice) : option (result * buffer * mem) :=
    if negb is12 then a_apply_core true b m s
    else
      let nonce0 := nth 1 (cd (b_state b)) 0%N in
      match a_apply_core true b m s with
      | None => None
      | Some (r, b', m') =>
        let st := b_state b' in
        Some (r, Buf (CC (cb st) (cc st) (upd 1 nonce0 (cd st))) (b_out b') (b_have b') (b_len b') (b_fresh b'), m')
      end.
End Stream.

(** * Lazy block-buffer absorption (Skein's update) *)

(** [while input.len() > self.size() { let (block, r) = input.split_at(self.size()); input = r; f(block) }]:
    [i] = offset of [input] in the caller's slice, [rem] = [input.len()]; returns the offset reached
    and the blocks handed to [f]. [fuel] only bounds the recursion ([fuel = len] suffices for [0 < size]) *)
Fixpoint lazy_blocks (fuel : nat) (m : mem) (s : slice) (i rem size : nat) : option (nat * list (list N)) :=
  match fuel with
  | O => Some (i, [])
  | S f => if size <? rem then
             match sread m s i size with
             | None => None
             | Some blk => match lazy_blocks f m s (i + size) (rem - size) size with
                           | None => None
                           | Some (j, r) => Some (j, blk :: r)
                           end
             end
           else Some (i, [])
  end.

(** block-buffer 0.9 [input_lazy(&mut self, input, f)] reading [input] from memory
    (cf. [Model.BlockBuffer.input_lazy] and [Model.SliceApi.m_input_block]) *)
Definition a_input_lazy (b : bb) (m : mem) (s : slice) : option (bb * list (list N)) :=
  let size := bb_size b in
  let r := bb_remaining b in
  let len := s_len s in
  if len <=? r then
    match sread m s 0 len with
    | None => None
    | Some d => Some (BB (copy_at (bb_buf b) (bb_pos b) d) (bb_pos b + len), [])
    end
  else
    let first :=
      if negb (bb_pos b =? 0) then
        match sread m s 0 r with
        | None => None
        | Some d => let buf1 := copy_at (bb_buf b) (bb_pos b) d in Some (r, buf1, [buf1])
        end
      else Some (0, bb_buf b, []) in
    match first with
    | None => None
    | Some (i0, buf1, out1) =>
      match lazy_blocks len m s i0 (len - i0) size with
      | None => None
      | Some (j, blocks) =>
        match sread m s j (len - j) with
        | None => None
        | Some rem => Some (BB (copy_at buf1 0 rem) (length rem), out1 ++ blocks)
        end
      end
    end.

(** * StoreBytes, big-endian forms *)

(** [bswap] of a vector whose lanes have [w] bytes, on its byte image *)
Definition bswap_bytes (w : nat) (v : list N) : list N := rev_words w (length v) v.

(** [assert_eq!(input.len(), size); Self::new(loadu(input.as_ptr())).bswap()] *)
Definition sb_read_be (w size : nat) (m : mem) (s : slice) : res (list N) :=
  res_bind (sb_read size m s) (fun d => Ok (bswap_bytes w d)).

(** [assert_eq!(out.len(), size); storeu(out.as_mut_ptr(), self.bswap().x)] *)
Definition sb_write_be (w : nat) (v : list N) (m : mem) (s : slice) : res mem :=
  sb_write (bswap_bytes w v) m s.

(** soft.rs x2: [input.split_at(input.len() / 2)], each half through [W::unsafe_read_be] *)
Definition sb_read2_be (w size : nat) (m : mem) (s : slice) : res (list N) :=
  let h := s_len s / 2 in
  res_bind (sb_read_be w size m (sub s 0 h)) (fun a =>
  res_bind (sb_read_be w size m (sub s h (s_len s - h))) (fun b => Ok (a ++ b))).

(** soft.rs x4: [n = len/4], the four parts through [W::unsafe_read_be] *)
Definition sb_read4_be (w size : nat) (m : mem) (s : slice) : res (list N) :=
  let n := s_len s / 4 in
  res_bind (sb_read_be w size m (sub s 0 n)) (fun a =>
  res_bind (sb_read_be w size m (sub s n n)) (fun b =>
  res_bind (sb_read_be w size m (sub s (2 * n) n)) (fun c =>
  res_bind (sb_read_be w size m (sub s (3 * n) (s_len s - 3 * n))) (fun d =>
  Ok (a ++ b ++ c ++ d))))).

(** soft.rs x2 / x4 [write_be]: each part through [W::write_be] *)
Definition sb_write2_be (w : nat) (v0 v1 : list N) (m : mem) (s : slice) : res mem :=
  sb_write2 (bswap_bytes w v0) (bswap_bytes w v1) m s.
Definition sb_write4_be (w : nat) (v0 v1 v2 v3 : list N) (m : mem) (s : slice) : res mem :=
  sb_write4 (bswap_bytes w v0) (bswap_bytes w v1) (bswap_bytes w v2) (bswap_bytes w v3) m s.
