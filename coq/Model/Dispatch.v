(** Back-end selection of ppv-lite86 as the code is written (C03):

    - lib.rs:12-42: [arch] is [x86_64] iff target_arch = x86_64 (always, here), target_feature
      "sse2", not feature "no_simd", not miri; otherwise [generic].
    - generic.rs:786-853: [dispatch!], [dispatch_light128!], [dispatch_light256!] of the
      generic back end call the body with [GenericMachine] (no detection, no [std] arm).
    - x86_64/mod.rs:246-441: each macro has a [#[cfg(feature = "std")]] arm (the feature of
      the *calling* crate) that asks [is_x86_feature_detected!] and ends in [unimplemented!()],
      and a [#[cfg(not(feature = "std"))]] arm that tests [cfg!(target_feature = ..)].
    - hook H1 (cfg(cryptocorrosion_verif), commit b4591b7): an early [match] on a process-global
      level at the top of the three std arms.

    [is_x86_feature_detected!] and [cfg!(target_feature)] are inputs ([features] records),
    not modelled functions. *)
From Coq Require Import NArith List Bool.
Import ListNotations.
Local Open Scope N_scope.

(** the six names of x86_64/mod.rs:97-103 and generic.rs *)
Inductive backend := Generic | SSE2 | SSSE3 | SSE41 | AVX | AVX2.

(** the Machine *type* behind each name: [AVX] is an alias of the type of [SSE41]
    ([SseMachine<YesS3, YesS4, NoNI>]); the names differ only in the [#[target_feature]]
    attributes of the function the body is inlined into *)
Inductive mtype := TGeneric | TSse (s3 s4 : bool) | TAvx2.
Definition type_of (b : backend) : mtype :=
  match b with
  | Generic => TGeneric
  | SSE2 => TSse false false
  | SSSE3 => TSse true false
  | SSE41 | AVX => TSse true true
  | AVX2 => TAvx2
  end.

(** a set of x86 features: what the CPU reports at run time, or what the compiler was told *)
Record features := F { f_sse2 : bool; f_ssse3 : bool; f_sse41 : bool; f_avx : bool; f_avx2 : bool }.

Inductive macro := MDispatch | MLight128 | MLight256.

(** outcome of a selection: a back end runs the body, or the [unimplemented!()] arm panics *)
Inductive sel := Run (b : backend) | Unimplemented.

(** * std arms: run-time detection (mod.rs:285-299, 349-357, 407-415) *)
Definition dispatch_detect (cpu : features) : sel :=
  if f_avx2 cpu then Run AVX2
  else if f_avx cpu then Run AVX
  else if f_sse41 cpu then Run SSE41
  else if f_ssse3 cpu then Run SSSE3
  else if f_sse2 cpu then Run SSE2
  else Unimplemented.

Definition light_detect (cpu : features) : sel :=
  if f_avx cpu then Run AVX
  else if f_sse2 cpu then Run SSE2
  else Unimplemented.

Definition std_arm (m : macro) (cpu : features) : sel :=
  match m with
  | MDispatch => dispatch_detect cpu
  | MLight128 | MLight256 => light_detect cpu
  end.

(** * no-std arms: compile-time selection, the same chain in the three macros
      (mod.rs:305-317, 363-375, 421-433); the last arm is unconditional *)
Definition nostd_arm (tf : features) : sel :=
  if f_avx2 tf then Run AVX2
  else if f_avx tf then Run AVX
  else if f_sse41 tf then Run SSE41
  else if f_ssse3 tf then Run SSSE3
  else Run SSE2.

(** * lib.rs: which module is [arch] *)
Definition arch_is_x86 (no_simd : bool) (tf : features) : bool := negb no_simd && f_sse2 tf.

(** * the whole selection: macro, cargo features [no_simd] and [std] (of the calling crate),
      detected CPU features, compile-time target features *)
Definition dispatch (m : macro) (no_simd std : bool) (cpu tf : features) : sel :=
  if arch_is_x86 no_simd tf then
    if std then std_arm m cpu else nostd_arm tf
  else Run Generic.

Definition dispatch_std (level : features) : sel := dispatch MDispatch false true level (F true false false false false).
Definition dispatch_light128 (std : bool) (cpu tf : features) : sel := dispatch MLight128 false std cpu tf.
Definition dispatch_light256 (std : bool) (cpu tf : features) : sel := dispatch MLight256 false std cpu tf.
Definition dispatch_nostd (tf : features) : sel := nostd_arm tf.
Definition no_simd_sel : sel := Run Generic.

(** * hook H1: the early match of the verification build. [level] 0 = no override; a level is
      honoured only if the CPU reports the feature, otherwise the ordinary chain decides. *)
Definition hook_dispatch (level : N) (cpu : features) : sel :=
  match level with
  | 1 => if f_sse2 cpu then Run SSE2 else dispatch_detect cpu
  | 2 => if f_ssse3 cpu then Run SSSE3 else dispatch_detect cpu
  | 3 => if f_sse41 cpu then Run SSE41 else dispatch_detect cpu
  | 4 => if f_avx cpu then Run AVX else dispatch_detect cpu
  | 5 => if f_avx2 cpu then Run AVX2 else dispatch_detect cpu
  | _ => dispatch_detect cpu
  end.
Definition hook_light (level : N) (cpu : features) : sel :=
  match level with
  | 1 | 2 | 3 => if f_sse2 cpu then Run SSE2 else light_detect cpu
  | 4 | 5 => if f_avx cpu then Run AVX else light_detect cpu
  | _ => light_detect cpu
  end.
Definition hook_std_arm (m : macro) (level : N) (cpu : features) : sel :=
  match m with
  | MDispatch => hook_dispatch level cpu
  | MLight128 | MLight256 => hook_light level cpu
  end.
Definition dispatch_hooked (m : macro) (no_simd std : bool) (level : N) (cpu tf : features) : sel :=
  if arch_is_x86 no_simd tf then
    if std then hook_std_arm m level cpu else nostd_arm tf
  else Run Generic.

(** * feature sets *)
(** the CPU features a back end's code may execute *)
Definition needs (b : backend) (c : features) : bool :=
  match b with
  | Generic => true
  | SSE2 => f_sse2 c
  | SSSE3 => f_sse2 c && f_ssse3 c
  | SSE41 => f_sse2 c && f_ssse3 c && f_sse41 c
  | AVX => f_sse2 c && f_ssse3 c && f_sse41 c && f_avx c
  | AVX2 => f_sse2 c && f_ssse3 c && f_sse41 c && f_avx c && f_avx2 c
  end.
(** real x86-64 CPUs (and rustc's target-feature implications): each level implies the lower ones *)
Definition monotone (c : features) : bool :=
  implb (f_avx2 c) (f_avx c) && implb (f_avx c) (f_sse41 c) &&
  implb (f_sse41 c) (f_ssse3 c) && implb (f_ssse3 c) (f_sse2 c).
(** [tf] was promised at compile time, [cpu] is what executes the program *)
Definition subset (tf cpu : features) : bool :=
  implb (f_sse2 tf) (f_sse2 cpu) && implb (f_ssse3 tf) (f_ssse3 cpu) &&
  implb (f_sse41 tf) (f_sse41 cpu) && implb (f_avx tf) (f_avx cpu) && implb (f_avx2 tf) (f_avx2 cpu).

(** the feature set in which exactly the levels up to [l] are present (1 = SSE2 .. 5 = AVX2) *)
Definition upto (l : N) : features := F (1 <=? l) (2 <=? l) (3 <=? l) (4 <=? l) (5 <=? l).
(** a CPU capped at level [l] *)
Definition cap (l : N) (c : features) : features :=
  F (f_sse2 c && (1 <=? l)) (f_ssse3 c && (2 <=? l)) (f_sse41 c && (3 <=? l))
    (f_avx c && (4 <=? l)) (f_avx2 c && (5 <=? l)).

Definition all_features : list features :=
  flat_map (fun a => flat_map (fun b => flat_map (fun c => flat_map (fun d =>
    [F a b c d true; F a b c d false]) [true; false]) [true; false]) [true; false]) [true; false].
Definition all_macros : list macro := [MDispatch; MLight128; MLight256].

(** decoding of the bit mask the harness reports (bit 0 = sse2 .. bit 4 = avx2) *)
Definition of_mask (m : N) : features :=
  F (N.testbit m 0) (N.testbit m 1) (N.testbit m 2) (N.testbit m 3) (N.testbit m 4).
Definition macro_of (n : N) : macro := match n with 0 => MDispatch | 1 => MLight128 | _ => MLight256 end.
(** Machine type codes of the harness: 0 generic, 1 SSE2, 2 SSSE3, 3 SSE4.1/AVX, 5 AVX2 *)
Definition type_code (t : mtype) : N :=
  match t with
  | TGeneric => 0
  | TSse false false => 1
  | TSse true false => 2
  | TSse true true => 3
  | TSse false true => 9
  | TAvx2 => 5
  end.
