(** Byte-list models of exactly the SSE2 / SSSE3 / AES-NI intrinsics issued by
    /repo/hashes/groestl/src/compressor.rs.

    A 128-bit register ([__m128i]) is the list of its 16 bytes in memory
    order (byte 0 = least significant).  64-bit integer arguments ([i64]) are
    given as their two's-complement bit pattern, an [N] below 2^64.  The
    semantics are the ones recorded in DESIGN.md Appendix A; every function
    here is compared with this host's CPU on the same operands by the harness
    (h_groestl, cases [GI ...]). *)
From Coq Require Import NArith List Arith Bool.
From CC Require Import Lib.Words Lib.Bytes Lib.ListX.
Import ListNotations.

Definition reg := list N.

(** [_mm_set_epi64x(hi, lo)] *)
Definition mm_set_epi64x (hi lo : N) : reg := le_split 8 lo ++ le_split 8 hi.
(** [_mm_set1_epi64x(a)] *)
Definition mm_set1_epi64x (a : N) : reg := mm_set_epi64x a a.
(** [_mm_cvtsi64_si128(a)]: low lane [a], high lane zero *)
Definition mm_cvtsi64_si128 (a : N) : reg := mm_set_epi64x 0 a.

Definition mm_xor_si128 (a b : reg) : reg := map2 N.lxor a b.
Definition mm_and_si128 (a b : reg) : reg := map2 N.land a b.

(** [_mm_add_epi8]: lane-wise wrapping byte addition *)
Definition add8 (a b : N) : N := N.land (a + b) 255.
Definition mm_add_epi8 (a b : reg) : reg := map2 add8 a b.

(** [_mm_cmpgt_epi8]: signed comparison of bytes, all-ones where [a > b] *)
Definition sgt8 (a b : N) : bool :=
  match N.testbit a 7, N.testbit b 7 with
  | false, true => true                      (* a >= 0 > b *)
  | true, false => false                     (* a < 0 <= b *)
  | _, _ => N.ltb (N.land b 255) (N.land a 255) (* same sign: unsigned order *)
  end.
Definition cmpgt8 (a b : N) : N := if sgt8 a b then 255%N else 0%N.
Definition mm_cmpgt_epi8 (a b : reg) : reg := map2 cmpgt8 a b.

(** [_mm_shuffle_epi8(a, m)] (pshufb): byte [i] of the result is 0 when bit 7
    of [m[i]] is set, else [a[m[i] mod 16]] *)
Definition mm_shuffle_epi8 (a m : reg) : reg :=
  map (fun k => if N.testbit k 7 then 0%N else nth (N.to_nat (N.land k 15)) a 0%N) m.

(** [_mm_unpacklo/hi_epi{8,16,32,64}]: interleave the [w]-byte lanes of the
    low / high halves of [a] and [b] *)
Fixpoint interleave (w : nat) (a b : list N) (n : nat) : list N :=
  match n with
  | O => []
  | S n' => firstn w a ++ firstn w b ++ interleave w (skipn w a) (skipn w b) n'
  end.
Definition unpacklo (w : nat) (a b : reg) : reg := interleave w (firstn 8 a) (firstn 8 b) (8 / w).
Definition unpackhi (w : nat) (a b : reg) : reg := interleave w (skipn 8 a) (skipn 8 b) (8 / w).
Definition mm_unpacklo_epi8 := unpacklo 1.
Definition mm_unpackhi_epi8 := unpackhi 1.
Definition mm_unpacklo_epi16 := unpacklo 2.
Definition mm_unpackhi_epi16 := unpackhi 2.
Definition mm_unpacklo_epi32 := unpacklo 4.
Definition mm_unpackhi_epi32 := unpackhi 4.
Definition mm_unpacklo_epi64 := unpacklo 8.
Definition mm_unpackhi_epi64 := unpackhi 8.

(** [_mm_shuffle_epi32(a, imm)]: 32-bit lane [i] of the result is lane
    [(imm >> 2i) & 3] of [a] *)
Definition lane32 (a : reg) (k : nat) : list N := firstn 4 (skipn (4 * k) a).
Definition mm_shuffle_epi32 (a : reg) (imm : N) : reg :=
  flat_map (fun i => lane32 a (N.to_nat (N.land (N.shiftr imm (2 * N.of_nat i)) 3))) (seq 0 4).

(** [_mm_loadu_si128(p.offset(k))] on a byte string *)
Definition mm_loadu (data : list N) (k : nat) : reg := firstn 16 (skipn (16 * k) data).

(** AES: the state byte in row [r], column [c] is register byte [4*c + r].
    ShiftRows rotates row [r] left by [r] columns. *)
Definition aes_shift_rows_idx : list nat :=
  Eval vm_compute in map (fun i => 4 * ((i / 4 + i mod 4) mod 4) + i mod 4) (seq 0 16).
Definition aes_shift_rows (a : reg) : reg := map (fun k => nth k a 0%N) aes_shift_rows_idx.

Section AES.
Variable S : N -> N.
(** [_mm_aesenclast_si128(a, k)] = AddRoundKey(SubBytes(ShiftRows(a)), k) *)
Definition mm_aesenclast_si128 (a k : reg) : reg :=
  mm_xor_si128 (map S (aes_shift_rows a)) k.
End AES.
