(** Model of hashes/skein/src/lib.rs as written ([define_hasher!] for
    Skein256/512/1024 with the output size [N] a parameter).

    * [State { t: (u64, u64), x }], [process_block] (tweak position [t.0 +=
      byte_count_add] with the overflow behaviour of the build profile made
      explicit, [Threefish::with_tweak(x, t.0, t.1)], [encrypt_block],
      [x = E(block) ^ block] on the u64 words of the [Block] union, clearing
      FIRST),
    * [Default] (configuration block), [update] through
      [BlockBuffer::input_lazy], [finalize_into_dirty] (FINAL flag, position,
      [pad_with::<ZeroPadding>], output loop over [chunks_mut]), [reset].

    The [Block] union is its byte array; the word view is the little-endian
    reinterpretation (x86-64). The closure passed to [input_lazy] only touches
    [state], so "emit blocks, then fold [process_block] over them" is the
    same computation. A panic is terminal ([Panic]). *)
From Coq Require Import NArith List Lia Arith Bool.
From CC Require Import Lib.Words Lib.Bytes Lib.ListX.
From CC Require Import Model.Threefish Model.BlockBuffer.
Import ListNotations.
Local Open Scope N_scope.

Inductive profile := Debug | Release.
Inductive res (A : Type) : Type := Ok (a : A) | Panic.
Arguments Ok {A} a.
Arguments Panic {A}.

Definition bind {A B} (r : res A) (f : A -> res B) : res B :=
  match r with Ok a => f a | Panic => Panic end.

Definition two64 : N := 0x10000000000000000.

(** [a + b] / [a * b] on u64: overflow panics with overflow checks (debug), wraps otherwise *)
Definition add_u64 (prof : profile) (a b : N) : res N :=
  if two64 <=? a + b then match prof with Debug => Panic | Release => Ok (wrap 64 (a + b)) end
  else Ok (a + b).
Definition mul_u64 (prof : profile) (a b : N) : res N :=
  if two64 <=? a * b then match prof with Debug => Panic | Release => Ok (wrap 64 (a * b)) end
  else Ok (a * b).

Definition VERSION : N := 1.
Definition ID_STRING_LE : N := 0x33414853.
Definition SCHEMA_VER : N := N.lor (N.shiftl VERSION 32) ID_STRING_LE.
Definition CFG_TREE_INFO_SEQUENTIAL : N := 0.
Definition T1_FLAG_FIRST : N := N.shiftl 1 62.
Definition T1_FLAG_FINAL : N := N.shiftl 1 63.
Definition T1_BLK_TYPE_CFG : N := N.shiftl 4 56.
Definition T1_BLK_TYPE_MSG : N := N.shiftl 48 56.
Definition T1_BLK_TYPE_OUT : N := N.shiftl 63 56.
Definition CFG_STR_LEN : N := 4 * 8.

(** [define_hasher!($name, $threefish, $state_bytes, $state_bits)] *)
Record variant := { v_tf : cfg; v_bytes : nat; v_bits : N }.
Definition skein256 := {| v_tf := threefish256; v_bytes := 32; v_bits := 256 |}.
Definition skein512 := {| v_tf := threefish512; v_bytes := 64; v_bits := 512 |}.
Definition skein1024 := {| v_tf := threefish1024; v_bytes := 128; v_bits := 1024 |}.

Record state := St { st_t0 : N; st_t1 : N; st_x : list N }.
Record hasher := Hs { h_state : state; h_buffer : bb }.

(** [Block ^ Block]: xor of the u64 words of the two unions *)
Definition xor_block (a b : list N) : list N :=
  bytes_le 8 (map2 N.lxor (words_le 8 a) (words_le 8 b)).

Section Model.
  Variable prof : profile.
  Variable nu : bool.        (* threefish-cipher feature no_unroll *)
  Variable v : variant.

  Definition state_new (t1 : N) (x : list N) : state := St 0 t1 x.

  Definition process_block (s : state) (block : list N) (byte_count_add : N) : res state :=
    bind (add_u64 prof (st_t0 s) byte_count_add) (fun t0 =>
      let x := m_encrypt (v_tf v) nu (st_x s) t0 (st_t1 s) block in
      Ok (St t0 (N.land (st_t1 s) (notw 64 T1_FLAG_FIRST)) (xor_block x block))).

  (** [Default::default()] for output size [n_out] bytes ([N::to_u64()]) *)
  Definition default (n_out : N) : res hasher :=
    let state := state_new (N.lor (N.lor T1_FLAG_FIRST T1_BLK_TYPE_CFG) T1_FLAG_FINAL)
                           (repeat 0 (v_bytes v)) in
    let cfg := repeat 0 (v_bytes v) in
    let cfg := copy_at cfg 0 (le_split 8 SCHEMA_VER) in
    bind (mul_u64 prof n_out 8) (fun out_bits =>
      let cfg := copy_at cfg 8 (le_split 8 out_bits) in
      let cfg := copy_at cfg 16 (le_split 8 CFG_TREE_INFO_SEQUENTIAL) in
      bind (process_block state cfg CFG_STR_LEN) (fun state =>
        Ok (Hs (St 0 (N.lor T1_FLAG_FIRST T1_BLK_TYPE_MSG) (st_x state)) (bb_new (v_bytes v))))).

  (** the closure of [update] applied to each emitted block, in order *)
  Fixpoint process_blocks (s : state) (blocks : list (list N)) : res state :=
    match blocks with
    | [] => Ok s
    | b :: r => bind (process_block s b (v_bits v / 8)) (fun s' => process_blocks s' r)
    end.

  Definition update (h : hasher) (data : list N) : res hasher :=
    let '(buffer, blocks) := input_lazy (h_buffer h) data in
    bind (process_blocks (h_state h) blocks) (fun s => Ok (Hs s buffer)).

  (** one iteration of the output loop: chunk [i] of length [n] *)
  Definition output_chunk (x : list N) (i n : nat) : res (list N) :=
    let ctr := state_new (N.lor (N.lor T1_FLAG_FIRST T1_BLK_TYPE_OUT) T1_FLAG_FINAL) x in
    let b := copy_at (repeat 0 (v_bytes v)) 0 (le_split 8 (N.of_nat i)) in
    bind (process_block ctr b 8) (fun ctr => Ok (firstn n (st_x ctr))).

  (** [output.chunks_mut(size).enumerate()] over [n_out] bytes: chunk [i] for
      [i < ceil(n_out/size)] has length [min size (n_out - i*size)] *)
  Fixpoint output_loop (x : list N) (size n_out : nat) (idx : list nat) : res (list N) :=
    match idx with
    | [] => Ok []
    | i :: r => bind (output_chunk x i (Nat.min size (n_out - i * size))) (fun c =>
                bind (output_loop x size n_out r) (fun rest => Ok (c ++ rest)))
    end.

  (** first half of [finalize_into_dirty]: FINAL flag, position, [pad_with::<ZeroPadding>],
      the final message block (state and buffer left behind) *)
  Definition finalize_message (h : hasher) : res (state * bb) :=
    let s := h_state h in
    let s := St (st_t0 s) (N.lor (st_t1 s) T1_FLAG_FINAL) (st_x s) in
    let pos := bb_pos (h_buffer h) in
    match pad_with_zero (h_buffer h) with
    | None => Panic                                  (* .unwrap() *)
    | Some (buffer, final_block) =>
      bind (process_block s final_block (N.of_nat pos)) (fun s => Ok (s, buffer))
    end.

  (** [finalize_into_dirty]: digest and the (dirty) hasher left behind *)
  Definition finalize_into_dirty (h : hasher) (n_out : nat) : res (list N * hasher) :=
    bind (finalize_message h) (fun sb =>
      let size := N.to_nat (v_bits v / 8) in
      bind (output_loop (st_x (fst sb)) size n_out (seq 0 ((n_out + size - 1) / size))) (fun out =>
        Ok (out, Hs (fst sb) (snd sb)))).

  Definition reset (h : hasher) (n_out : N) : res hasher := default n_out.

  (** [Digest::digest(data)]: new, update, finalize *)
  Definition digest (n_out : nat) (data : list N) : res (list N) :=
    bind (default (N.of_nat n_out)) (fun h =>
    bind (update h data) (fun h =>
    bind (finalize_into_dirty h n_out) (fun r => Ok (fst r)))).

  (** [update] called once per piece *)
  Fixpoint updates (h : hasher) (pieces : list (list N)) : res hasher :=
    match pieces with
    | [] => Ok h
    | p :: r => bind (update h p) (fun h' => updates h' r)
    end.

  (** the remaining calls on a hasher [h]: [update] per piece, then [finalize] *)
  Definition finish_pieces (h : hasher) (n_out : nat) (pieces : list (list N)) : res (list N) :=
    bind (updates h pieces) (fun h =>
    bind (finalize_into_dirty h n_out) (fun r => Ok (fst r))).

  Definition digest_pieces (n_out : nat) (pieces : list (list N)) : res (list N) :=
    bind (default (N.of_nat n_out)) (fun h => finish_pieces h n_out pieces).
End Model.
