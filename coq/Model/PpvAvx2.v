(** Model of ppv-lite86's AVX2 types (x86_64/sse2.rs, [mod avx2]) as the code is
    written: [u32x4x2_avx2] (one [__m256i]: 32 bytes in memory order, lane 0 =
    bytes 0..15) and [u32x4x4_avx2 = x2<u32x4x2_avx2, G0>] (list of two 32-byte
    registers, element 0 first). The methods of [u32x4x4_avx2] that soft.rs
    supplies through the generic [x2] wrapper (bit operations, rotates, add,
    bswap, lane-word shuffles, byte I/O) are [Model/PpvSse.v]'s [xn_unop] /
    [xn_binop] / [x2_read] / [x2_write] applied to the one-register methods
    below. Mirrors the tree after repair P1 ([Not]). *)
From Coq Require Import NArith List Bool.
From CC Require Import Lib.Words Lib.Bytes Lib.ListX Model.Intrinsics.
Import ListNotations.
Local Open Scope N_scope.

(** * u32x4x2_avx2 *)
Definition avx2_unpack (st : list N) : reg := st.            (* Store<vec256_storage>: p.avx *)
Definition avx2_into_storage (x : reg) : list N := x.        (* vec256_storage { avx: x.x } *)

Definition avx2_and (a b : reg) : reg := mm_and a b.
Definition avx2_or (a b : reg) : reg := mm_or a b.
Definition avx2_xor (a b : reg) : reg := mm_xor a b.
Definition avx2_andnot (a b : reg) : reg := mm_andnot a b.
Definition avx2_add (a b : reg) : reg := mm_add_epi32 a b.
(** after repair P1: [_mm256_set1_epi8(-1)]; [Self::new(f) ^ self] *)
Definition avx2_not (a : reg) : reg := avx2_xor (mm256_set1_epi8 0xff) a.

(** [shuf_lane_bytes!]: the same 16-byte pshufb pattern in both 128-bit halves *)
Definition shuf_lane_bytes (k0 k1 : N) (x : reg) : reg :=
  mm256_shuffle_epi8 x (mm256_set_epi64x k0 k1 k0 k1).
Definition avx2_rotr_32 (i : N) (x : reg) : reg :=
  mm_or (mm_srli_epi32 x i) (mm_slli_epi32 x (32 - i)).
Definition avx2_rotr (k : N) (x : reg) : reg :=
  match k with
  | 7 => avx2_rotr_32 7 x
  | 8 => shuf_lane_bytes 0x0c0f0e0d080b0a09 0x0407060500030201 x
  | 11 => avx2_rotr_32 11 x
  | 12 => avx2_rotr_32 12 x
  | 16 => shuf_lane_bytes 0x0d0c0f0e09080b0a 0x0504070601000302 x
  | 20 => avx2_rotr_32 20 x
  | 24 => shuf_lane_bytes 0x0e0d0c0f0a09080b 0x0605040702010003 x
  | 25 => avx2_rotr_32 25 x
  | _ => x
  end.
Definition avx2_bswap (x : reg) : reg :=
  shuf_lane_bytes 0x0c0d0e0f08090a0b 0x0405060700010203 x.

(** LaneWords4 *)
Definition avx2_shuffle_lane_words1230 (x : reg) : reg := mm256_shuffle_epi32 x 0x93.
Definition avx2_shuffle_lane_words2301 (x : reg) : reg := mm256_shuffle_epi32 x 0x4e.
Definition avx2_shuffle_lane_words3012 (x : reg) : reg := mm256_shuffle_epi32 x 0x39.

(** MultiLane<[u32x4_sse2; 2]>, Vec2<u32x4_sse2> *)
Definition avx2_to_lanes (x : reg) : list reg := [mm256_extracti128 x 0; mm256_extracti128 x 1].
Definition avx2_from_lanes (l : list reg) : reg := mm256_setr_m128i (nth 0 l []) (nth 1 l []).
Definition avx2_extract (x : reg) (i : N) : outcome reg :=
  match i with
  | 0 => Ok (mm256_extracti128 x 0)
  | 1 => Ok (mm256_extracti128 x 1)
  | _ => Panic
  end.
Definition avx2_insert (x w : reg) (i : N) : outcome reg :=
  match i with
  | 0 => Ok (mm256_inserti128 x w 0)
  | 1 => Ok (mm256_inserti128 x w 1)
  | _ => Panic
  end.
(** From<x2<u128x1_sse2, G0>> *)
Definition avx2_from_u128x2 (l : list reg) : reg := mm256_setr_m128i (nth 0 l []) (nth 1 l []).

(** StoreBytes: [assert_eq!(len, 32)]; the BE forms go through the LE forms *)
Definition avx2_read_le (bs : list N) : outcome reg :=
  if Nat.eqb (length bs) 32 then Ok bs else Panic.
Definition avx2_read_be (bs : list N) : outcome reg := omap avx2_bswap (avx2_read_le bs).
Definition avx2_write_le (x : reg) (outlen : nat) : outcome (list N) :=
  if Nat.eqb outlen 32 then Ok x else Panic.
Definition avx2_write_be (x : reg) (outlen : nat) : outcome (list N) :=
  avx2_write_le (avx2_bswap x) outlen.

(** * u32x4x4_avx2 = x2<u32x4x2_avx2, G0>: the methods written in [mod avx2] *)
Definition avx4_unpack (st : list N) : list reg :=           (* p.avx[0], p.avx[1] *)
  [avx2_unpack (firstn 32 st); avx2_unpack (skipn 32 st)].
Definition avx4_into_storage (v : list reg) : list N := nth 0 v [] ++ nth 1 v [].
Definition avx4_to_lanes (v : list reg) : list reg :=
  avx2_to_lanes (nth 0 v []) ++ avx2_to_lanes (nth 1 v []).
Definition avx4_from_lanes (l : list reg) : list reg :=
  [avx2_from_lanes [nth 0 l []; nth 1 l []]; avx2_from_lanes [nth 2 l []; nth 3 l []]].
Definition avx4_extract (v : list reg) (i : N) : outcome reg :=
  match i with
  | 0 => avx2_extract (nth 0 v []) 0
  | 1 => avx2_extract (nth 0 v []) 1
  | 2 => avx2_extract (nth 1 v []) 0
  | 3 => avx2_extract (nth 1 v []) 1
  | _ => Panic
  end.
Definition avx4_insert (v : list reg) (w : reg) (i : N) : outcome (list reg) :=
  match i with
  | 0 | 1 => omap (fun r => [r; nth 1 v []]) (avx2_insert (nth 0 v []) w i)
  | 2 | 3 => omap (fun r => [nth 0 v []; r]) (avx2_insert (nth 1 v []) w (i - 2))
  | _ => Panic
  end.
(** Vec4Ext::transpose4 with [_mm256_permute2x128_si256] *)
Definition avx4_transpose4 (a b c d : list reg)
  : list reg * list reg * list reg * list reg :=
  let a0 := nth 0 a [] in let a1 := nth 1 a [] in
  let b0 := nth 0 b [] in let b1 := nth 1 b [] in
  let c0 := nth 0 c [] in let c1 := nth 1 c [] in
  let d0 := nth 0 d [] in let d1 := nth 1 d [] in
  let ab00 := mm256_permute2x128 a0 b0 0x20 in
  let ab01 := mm256_permute2x128 a0 b0 0x31 in
  let ab10 := mm256_permute2x128 a1 b1 0x20 in
  let ab11 := mm256_permute2x128 a1 b1 0x31 in
  let cd00 := mm256_permute2x128 c0 d0 0x20 in
  let cd01 := mm256_permute2x128 c0 d0 0x31 in
  let cd10 := mm256_permute2x128 c1 d1 0x20 in
  let cd11 := mm256_permute2x128 c1 d1 0x31 in
  ([ab00; cd00], [ab01; cd01], [ab10; cd10], [ab11; cd11]).
(** Vector<[u32; 16]>::to_scalars: [transmute!] of the two registers in order *)
Definition avx4_to_scalars (v : list reg) : list N := words_le 4 (nth 0 v [] ++ nth 1 v []).
(** From<x4<u128x1_sse2>> *)
Definition avx4_from_u128x4 (l : list reg) : list reg :=
  [mm256_setr_m128i (nth 0 l []) (nth 1 l []); mm256_setr_m128i (nth 2 l []) (nth 3 l [])].
