(** Model of hashes/blake/src/lib.rs and consts.rs as written.

    - [round_v] is [round32]/[round64] (they differ only in the rotation
      amounts) on four 4-lane rows; a row is a list of 4 words and the vector
      operations have their lane meaning ([+=], [^=],
      [rotate_each_word_rightN], [shuffle1230/3012/2301]; the ppv-lite86 layer
      itself is the subject of C12/C13).
    - [put_block_words] is [$X4::put_block]: message/constant schedule through
      [SIGMA] including the rotated diagonal order 14,8,10,12, injection of
      [t], feed-forward.
    - [increase_count], [update], [finalize] mirror [define_hasher!]: the
      manual carry on fixed-width words, [extra_block], [exactfit], [magic],
      the [t = (0,0)] rule, the three final [input_block] calls with their
      [unreachable!()] closures and [debug_assert]s ([None] = one of them hit).
      Buffering is [Model/BlockBuffer.v].
    The hasher is parametric in the compressor ([Section Hasher], variable
    [put]) so that the sequence of (block, counter) pairs it produces can be
    stated for every compressor. *)
From Coq Require Import NArith List Lia Arith Bool.
From CC Require Import Lib.Words Lib.Bytes Lib.ListX Model.BlockBuffer.
Import ListNotations.

(** consts.rs *)
Definition SIGMA : list (list nat) :=
  [[0; 1; 2; 3; 4; 5; 6; 7; 8; 9; 10; 11; 12; 13; 14; 15];
   [14; 10; 4; 8; 9; 15; 13; 6; 1; 12; 0; 2; 11; 7; 5; 3];
   [11; 8; 12; 0; 5; 2; 15; 13; 10; 14; 3; 6; 7; 1; 9; 4];
   [7; 9; 3; 1; 13; 12; 11; 14; 2; 6; 5; 10; 4; 0; 15; 8];
   [9; 0; 5; 7; 2; 4; 10; 15; 14; 1; 11; 12; 6; 8; 3; 13];
   [2; 12; 6; 10; 0; 11; 8; 3; 4; 13; 7; 5; 15; 14; 1; 9];
   [12; 5; 1; 15; 14; 13; 4; 10; 0; 7; 6; 3; 9; 2; 8; 11];
   [13; 11; 7; 14; 12; 1; 3; 9; 5; 0; 15; 4; 8; 6; 2; 10];
   [6; 15; 14; 9; 11; 3; 0; 8; 12; 2; 13; 7; 1; 4; 10; 5];
   [10; 2; 8; 4; 7; 6; 1; 5; 15; 11; 9; 14; 3; 12; 13; 0];
   [0; 1; 2; 3; 4; 5; 6; 7; 8; 9; 10; 11; 12; 13; 14; 15];
   [14; 10; 4; 8; 9; 15; 13; 6; 1; 12; 0; 2; 11; 7; 5; 3];
   [11; 8; 12; 0; 5; 2; 15; 13; 10; 14; 3; 6; 7; 1; 9; 4];
   [7; 9; 3; 1; 13; 12; 11; 14; 2; 6; 5; 10; 4; 0; 15; 8];
   [9; 0; 5; 7; 2; 4; 10; 15; 14; 1; 11; 12; 6; 8; 3; 13];
   [2; 12; 6; 10; 0; 11; 8; 3; 4; 13; 7; 5; 15; 14; 1; 9]]%nat.

Local Open Scope N_scope.
Definition BLAKE256_U : list N :=
  [0x243f6a88; 0x85a308d3; 0x13198a2e; 0x03707344;
   0xa4093822; 0x299f31d0; 0x082efa98; 0xec4e6c89;
   0x452821e6; 0x38d01377; 0xbe5466cf; 0x34e90c6c;
   0xc0ac29b7; 0xc97c50dd; 0x3f84d5b5; 0xb5470917].
Definition BLAKE512_U : list N :=
  [0x243f6a8885a308d3; 0x13198a2e03707344; 0xa4093822299f31d0; 0x082efa98ec4e6c89;
   0x452821e638d01377; 0xbe5466cf34e90c6c; 0xc0ac29b7c97c50dd; 0x3f84d5b5b5470917;
   0x9216d5d98979fb1b; 0xd1310ba698dfb5ac; 0x2ffd72dbd01adfb7; 0xb8e1afed6a267e96;
   0xba7c9045f12c7f99; 0x24a19947b3916cf7; 0x0801f2e2858efc16; 0x636920d871574e69].
Definition BLAKE224_IV : list N * list N :=
  ([0xc1059ed8; 0x367cd507; 0x3070dd17; 0xf70e5939],
   [0xffc00b31; 0x68581511; 0x64f98fa7; 0xbefa4fa4]).
Definition BLAKE256_IV : list N * list N :=
  ([0x6a09e667; 0xbb67ae85; 0x3c6ef372; 0xa54ff53a],
   [0x510e527f; 0x9b05688c; 0x1f83d9ab; 0x5be0cd19]).
Definition BLAKE384_IV : list N * list N :=
  ([0xcbbb9d5dc1059ed8; 0x629a292a367cd507; 0x9159015a3070dd17; 0x152fecd8f70e5939],
   [0x67332667ffc00b31; 0x8eb44a8768581511; 0xdb0c2e0d64f98fa7; 0x47b5481dbefa4fa4]).
Definition BLAKE512_IV : list N * list N :=
  ([0x6a09e667f3bcc908; 0xbb67ae8584caa73b; 0x3c6ef372fe94f82b; 0xa54ff53a5f1d36f1],
   [0x510e527fade682d1; 0x9b05688c2b3e6c1f; 0x1f83d9abfb41bd6b; 0x5be0cd19137e2179]).
(** [PADDING: &[u8; 129]] *)
Definition PADDING : list N := 0x80 :: repeat 0 128.
Local Close Scope N_scope.

(** * Rounds and compression, parametric in the word operations *)
Section Rounds.
  Variables (add xor : N -> N -> N).
  Variables (rot1 rot2 rot3 rot4 : N -> N).   (* rotate_each_word_right16/12/8/7 or 32/25/16/11 *)

  Definition row := list N.
  Definition rows := (row * row * row * row)%type.

  Definition vadd (a b : row) : row := map2 add a b.
  Definition vxor (a b : row) : row := map2 xor a b.

  Definition shuffle1230 (x : row) : row :=
    match x with [x0; x1; x2; x3] => [x3; x0; x1; x2] | _ => x end.
  Definition shuffle3012 (x : row) : row :=
    match x with [x0; x1; x2; x3] => [x1; x2; x3; x0] | _ => x end.
  Definition shuffle2301 (x : row) : row :=
    match x with [x0; x1; x2; x3] => [x2; x3; x0; x1] | _ => x end.

  (** [round32] / [round64] *)
  Definition round_v (xs : rows) (m0 m1 : row) : rows :=
    let '(a, b, c, d) := xs in
    let a := vadd a m0 in
    let a := vadd a b in
    let d := vxor d a in
    let d := map rot1 d in
    let c := vadd c d in
    let b := vxor b c in
    let b := map rot2 b in
    let a := vadd a m1 in
    let a := vadd a b in
    let d := vxor d a in
    let d := map rot3 d in
    let c := vadd c d in
    let b := vxor b c in
    let b := map rot4 b in
    (a, b, c, d).

  Definition diagonalize (xs : rows) : rows :=
    let '(a, b, c, d) := xs in (shuffle1230 a, b, shuffle3012 c, shuffle2301 d).
  Definition undiagonalize (xs : rows) : rows :=
    let '(a, b, c, d) := xs in (shuffle3012 a, b, shuffle1230 c, shuffle2301 d).

  Variable U : list N.
  Variable nrounds : nat.

  (** body of [for sigma in &SIGMA[..$rounds]] *)
  Definition round_body (m : list N) (xs : rows) (sigma : list nat) : rows :=
    let m0 e := xor (nth (nth e sigma 0) m 0%N) (nth (nth (e + 1) sigma 0) U 0%N) in
    let m1 e := xor (nth (nth (e + 1) sigma 0) m 0%N) (nth (nth e sigma 0) U 0%N) in
    (* column step *)
    let xs := round_v xs [m0 0; m0 2; m0 4; m0 6] [m1 0; m1 2; m1 4; m1 6] in
    (* diagonal step *)
    undiagonalize (round_v (diagonalize xs) [m0 14; m0 8; m0 10; m0 12] [m1 14; m1 8; m1 10; m1 12]).

  (** [$X4::put_block] after the message words have been read *)
  Definition put_block_words (h : row * row) (m : list N) (t : N * N) : row * row :=
    let u := ([nth 0 U 0%N; nth 1 U 0%N; nth 2 U 0%N; nth 3 U 0%N],
              [nth 4 U 0%N; nth 5 U 0%N; nth 6 U 0%N; nth 7 U 0%N]) in
    let xs : rows := (fst h, snd h, fst u, vxor (snd u) [fst t; fst t; snd t; snd t]) in
    let xs := fold_left (round_body m) (firstn nrounds SIGMA) xs in
    let '(x0, x1, x2, x3) := xs in
    (vxor (vxor (fst h) x0) x2, vxor (vxor (snd h) x1) x3).
End Rounds.

(** [m[i] = $word::from_be_bytes(block.chunks_exact(size_of::<$word>())[i])], 16 words *)
Definition read_words_be (wb : nat) (block : list N) : list N :=
  firstn 16 (map be_join (chunks_exact wb (length block) block)).

Definition put_block32 (h : row * row) (block : list N) (t : N * N) : row * row :=
  put_block_words (addw 32) N.lxor (rotrw 32 16) (rotrw 32 12) (rotrw 32 8) (rotrw 32 7)
                  BLAKE256_U 14 h (read_words_be 4 block) t.
Definition put_block64 (h : row * row) (block : list N) (t : N * N) : row * row :=
  put_block_words (addw 64) N.lxor (rotrw 64 32) (rotrw 64 25) (rotrw 64 16) (rotrw 64 11)
                  BLAKE512_U 16 h (read_words_be 8 block) t.

(** [$compressor::finalize]: both rows written big-endian *)
Definition compressor_finalize (wb : nat) (h : row * row) : list N :=
  flat_map (be_split wb) (fst h) ++ flat_map (be_split wb) (snd h).

(** * The hasher ([define_hasher!]), parametric in the compressor *)
Section Hasher.
  Variable H : Type.
  Variable put : H -> list N -> N * N -> H.
  Variable w : N.          (* bits of $word *)
  Variable wb : nat.       (* size_of::<$word>() *)
  Variable isfull : bool.  (* $bits == 8 * size_of::<[$word; 8]>() *)

  Definition bufsz : nat := 16 * wb.     (* $buf *)

  Record hasher := Hasher { compressor : H; buffer : bb; t : N * N }.

  (** [t.0.overflowing_add(count * 8)], then [t.1 += 1] on carry (wrapping
      here; [increase_count_exact] shows the addition cannot overflow below
      the format limit, so the debug-profile overflow check cannot fire) *)
  Definition increase_count (t : N * N) (count : N) : N * N :=
    let s := (fst t + wrap w (count * 8))%N in
    let carry := (N.shiftl 1 w <=? s)%N in
    (wrap w s, if carry then addw w (snd t) 1 else snd t).

  Definition new (h0 : H) : hasher := Hasher h0 (bb_new bufsz) (0%N, 0%N).

  Definition update (s : hasher) (data : list N) : hasher :=
    let '(b, blocks) := input_block (buffer s) data in
    let '(c, t') := fold_left (fun (ct : H * (N * N)) blk =>
                        let t' := increase_count (snd ct) (N.of_nat (wb * 16)) in
                        (put (fst ct) blk t', t')) blocks (compressor s, t s) in
    Hasher c b t'.

  Definition slice (l : list N) (s e : nat) : list N := firstn (e - s) (skipn s l).

  (** [finalize_into_dirty] up to the final chaining value; [None] stands for
      a panic ([unreachable!()] closure called, [debug_assert_eq!] failing) *)
  Definition finalize (s : hasher) : option H :=
    let compressor := compressor s in
    let buffer := buffer s in
    let t := increase_count (t s) (N.of_nat (bb_pos buffer)) in
    let msglen := be_split wb (snd t) ++ be_split wb (fst t) in
    let footerlen := 1 + 2 * wb in
    let exactfit := if negb (bb_pos buffer + footerlen =? bufsz) then 0%N else 0x80%N in
    let magic := N.lor (if isfull then 1%N else 0%N) exactfit in
    let extra_block := bufsz <? bb_pos buffer + footerlen in
    let '(buffer, compressor, ok1) :=
      if extra_block then
        let pad := bufsz - bb_pos buffer in
        let '(b, blocks) := input_block buffer (firstn pad PADDING) in
        (b, fold_left (fun c blk => put c blk t) blocks compressor, bb_pos b =? 0)
      else (buffer, compressor, true) in
    let t := if bb_pos buffer =? 0 then (0%N, 0%N) else t in
    let x := if extra_block then 1 else 0 in
    let '(start, end_) := (x, x + (bufsz - footerlen - bb_pos buffer)) in
    let '(buffer, bl1) := input_block buffer (slice PADDING start end_) in
    let '(buffer, bl2) := input_block buffer [magic] in
    let '(buffer, bl3) := input_block buffer msglen in
    let compressor := fold_left (fun c blk => put c blk t) bl3 compressor in
    match bl1, bl2 with
    | [], [] => if ok1 && (bb_pos buffer =? 0) then Some compressor else None
    | _, _ => None
    end.

  (** Debug profile: [count * 8] and [t.1 += 1] are overflow-checked (a panic).
      [true] = the checked arithmetic of [increase_count] would panic. *)
  Definition increase_count_overflows (t : N * N) (count : N) : bool :=
    let s := (fst t + wrap w (count * 8))%N in
    (N.shiftl 1 w <=? count * 8)%N || ((N.shiftl 1 w <=? s)%N && (snd t =? N.ones w)%N).
  (** some [increase_count] of this [update] call / of [finalize] panics in the debug profile *)
  Definition update_overflows (s : hasher) (data : list N) : bool :=
    let '(_, blocks) := input_block (buffer s) data in
    snd (fold_left (fun (tb : (N * N) * bool) (_ : list N) =>
           (increase_count (fst tb) (N.of_nat (wb * 16)),
            snd tb || increase_count_overflows (fst tb) (N.of_nat (wb * 16)))) blocks (t s, false)).
  Definition finalize_overflows (s : hasher) : bool :=
    increase_count_overflows (t s) (N.of_nat (bb_pos (buffer s))).
End Hasher.

(** * The four hashers *)
Definition digest_gen (put : row * row -> list N -> N * N -> row * row) (w : N) (wb : nat)
           (isfull : bool) (iv : row * row) (outbytes : nat) (msg : list N) : option (list N) :=
  match finalize _ put w wb isfull (update _ put w wb (new _ wb iv) msg) with
  | Some h => Some (firstn outbytes (compressor_finalize wb h))
  | None => None
  end.

Definition blake224 := digest_gen put_block32 32 4 false BLAKE224_IV 28.
Definition blake256 := digest_gen put_block32 32 4 true BLAKE256_IV 32.
Definition blake384 := digest_gen put_block64 64 8 false BLAKE384_IV 48.
Definition blake512 := digest_gen put_block64 64 8 true BLAKE512_IV 64.

(** several [update] calls ([parts] in call order), then [finalize] *)
Definition digest_parts (put : row * row -> list N -> N * N -> row * row) (w : N) (wb : nat)
           (isfull : bool) (iv : row * row) (outbytes : nat) (parts : list (list N)) : option (list N) :=
  match finalize _ put w wb isfull (fold_left (update _ put w wb) parts (new _ wb iv)) with
  | Some h => Some (firstn outbytes (compressor_finalize wb h))
  | None => None
  end.

(** the same from an arbitrary state (hook H2): chaining value, counter,
    buffered bytes; then absorb [tail] and finalise *)
Definition digest_from (put : row * row -> list N -> N * N -> row * row) (w : N) (wb : nat)
           (isfull : bool) (outbytes : nat) (h : row * row) (t0 t1 : N) (buffered tail : list N)
  : option (list N) :=
  let s0 := Hasher _ h (fst (input_block (bb_new (16 * wb)) buffered)) (t0, t1) in
  match finalize _ put w wb isfull (update _ put w wb s0 tail) with
  | Some h => Some (firstn outbytes (compressor_finalize wb h))
  | None => None
  end.
