(** C20 / C07 / C18 follow-up (audit C20-F1, C07-F1): the THREE entry-point modules of
    groestl-aesni and the selection among them, as compressor.rs is written
    (/repo/hashes/groestl/src/compressor.rs:501-650).

    Source facts transcribed here (one definition per Rust item):

    * [pub mod aes], [pub mod ssse3], [pub mod sse2] each contain
        [pub unsafe fn tf512(cv, data) { tf512_impl(cv, data) }]   (likewise of512, init512, tf1024,
        of1024, init1024) under a different [#[target_feature(enable = ..)]] attribute. Every body
        is a call of the SAME [#[inline(always)]] function [*_impl] (Model/Groestl.v [tf512], ...).
        Exception: module [ssse3] has no init functions of its own:
        [pub use super::aes::{init1024, init512}].
    * which modules exist, and the aliases, are decided by [cfg]s on the cargo feature [std] and the
      compile-time target features:
        [aes]    exists iff  std || target ssse3 || target aes
        [ssse3]  is [pub use self::aes as ssse3] if target aes; else own module iff std || target ssse3
        [sse2]   is [pub use self::ssse3 as sse2] if target ssse3; else own module iff std || target sse2
    * the functions lib.rs calls ([use crate::compressor::{init1024, init512, of1024, of512, tf1024, tf512}]):
        std:            [autodetect::f]: a [lazy_static] cell [IMPL] per function, initialised by
                        [dispatch_init]: [aes::f] if "aes" is detected, else [ssse3::f] if "ssse3", else
                        [sse2::f] if "sse2", else [panic!]. The names go through the aliases above.
        no std, target sse2:  [static_dispatch::f] = [sse2::f]
        no std, no target sse2:  nothing is exported: the crate does not compile.

    OUTSIDE the model (trusted base): what [#[target_feature]] changes, i.e. code generation. The
    three wrappers of one [*_impl] are compiled three times with different instruction-set
    permissions; that the three compilations compute the function the shared source denotes is rustc /
    LLVM's contract, not a statement about this model. (Also outside: that an [sse2]-only wrapper
    still contains [pshufb]/[aesenc] instructions because the intrinsics are [#[target_feature]]
    functions themselves - executing module [sse2] on a CPU without SSSE3/AES would fault; the
    autodetect chain only reaches it on such a CPU. See notes/audit-followups.md.) *)
From Coq Require Import NArith List Bool String.
From CC Require Import Spec.AES Model.GroestlIntrinsics Model.Groestl Model.Features.
Import ListNotations.
Local Open Scope N_scope.

(** [is_x86_feature_detected!] answers and [cfg(target_feature = ..)] settings *)
Record gcpu := GCpu { c_aes : bool; c_ssse3 : bool; c_sse2 : bool }.
Record gtgt := GTgt { t_aes : bool; t_ssse3 : bool; t_sse2 : bool }.

(** the six functions of one module *)
Record entries := Entries {
  e_tf512 : X -> list N -> X;  e_of512 : X -> X;  e_init512 : X -> X;
  e_tf1024 : X -> list N -> X; e_of1024 : X -> X; e_init1024 : X -> X
}.

Section WithSbox.
  Variable S : N -> N.

  (** ** [pub mod aes] (compressor.rs:506-532) *)
  Definition aes_tf512 (cv : X) (data : list N) : X := tf512 S cv data.
  Definition aes_of512 (cv : X) : X := of512 S cv.
  Definition aes_init512 (cv : X) : X := init512 cv.
  Definition aes_tf1024 (cv : X) (data : list N) : X := tf1024 S cv data.
  Definition aes_of1024 (cv : X) : X := of1024 S cv.
  Definition aes_init1024 (cv : X) : X := init1024 cv.
  Definition mod_aes : entries := Entries aes_tf512 aes_of512 aes_init512 aes_tf1024 aes_of1024 aes_init1024.

  (** ** [pub mod ssse3] (:536-555); [pub use super::aes::{init1024, init512}] *)
  Definition ssse3_tf512 (cv : X) (data : list N) : X := tf512 S cv data.
  Definition ssse3_of512 (cv : X) : X := of512 S cv.
  Definition ssse3_tf1024 (cv : X) (data : list N) : X := tf1024 S cv data.
  Definition ssse3_of1024 (cv : X) : X := of1024 S cv.
  Definition mod_ssse3 : entries := Entries ssse3_tf512 ssse3_of512 aes_init512 ssse3_tf1024 ssse3_of1024 aes_init1024.

  (** ** [pub mod sse2] (:561-587) *)
  Definition sse2_tf512 (cv : X) (data : list N) : X := tf512 S cv data.
  Definition sse2_of512 (cv : X) : X := of512 S cv.
  Definition sse2_init512 (cv : X) : X := init512 cv.
  Definition sse2_tf1024 (cv : X) (data : list N) : X := tf1024 S cv data.
  Definition sse2_of1024 (cv : X) : X := of1024 S cv.
  Definition sse2_init1024 (cv : X) : X := init1024 cv.
  Definition mod_sse2 : entries := Entries sse2_tf512 sse2_of512 sse2_init512 sse2_tf1024 sse2_of1024 sse2_init1024.

  Definition entries_of (m : gmodule) : entries :=
    match m with GAes => mod_aes | GSsse3 => mod_ssse3 | GSse2 => mod_sse2 end.
End WithSbox.

(** ** the names [aes], [ssse3], [sse2] in module [compressor]: which module each denotes
       ([None]: the name does not exist in this build) *)
Definition name_aes (std : bool) (t : gtgt) : option gmodule :=
  if std || t_ssse3 t || t_aes t then Some GAes else None.
Definition name_ssse3 (std : bool) (t : gtgt) : option gmodule :=
  if t_aes t then name_aes std t                        (* pub use self::aes as ssse3 *)
  else if std || t_ssse3 t then Some GSsse3 else None.
Definition name_sse2 (std : bool) (t : gtgt) : option gmodule :=
  if t_ssse3 t then name_ssse3 std t                    (* pub use self::ssse3 as sse2 *)
  else if std || t_sse2 t then Some GSse2 else None.

(** what a call of an exported function does *)
Inductive gresult (T : Type) : Type :=
| Runs (f : T)          (* the call runs [f] *)
| InitPanics            (* std: the initialiser of the lazy cell panics ("requires at least sse2") *)
| NotBuilt.             (* the item (hence the crate) does not compile in this configuration *)
Arguments Runs {T}. Arguments InitPanics {T}. Arguments NotBuilt {T}.

Definition of_name {T} (o : option T) : gresult T := match o with Some f => Runs f | None => NotBuilt end.

(** [autodetect::dispatch!]: [dispatch_init] (:617-627), with the three paths [aes::$fn],
    [ssse3::$fn], [sse2::$fn] already resolved *)
Definition dispatch_init {T} (c : gcpu) (via_aes via_ssse3 via_sse2 : option T) : gresult T :=
  if c_aes c then of_name via_aes
  else if c_ssse3 c then of_name via_ssse3
  else if c_sse2 c then of_name via_sse2
  else InitPanics.

(** the module whose function an exported function runs *)
Definition exported_module (std : bool) (c : gcpu) (t : gtgt) : gresult gmodule :=
  if std then dispatch_init c (name_aes true t) (name_ssse3 true t) (name_sse2 true t)
  else if t_sse2 t then of_name (name_sse2 false t)     (* static_dispatch: sse2::f *)
  else NotBuilt.

Section Exported.
  Variable S : N -> N.
  Context {T : Type}.
  Variable field : entries -> T.       (* which of the six functions: [e_tf512], ... *)

  Definition path (o : option gmodule) : option T := option_map (fun m => field (entries_of S m)) o.

  (** [compressor::f] as lib.rs sees it: every function has its own cell / its own wrapper *)
  Definition exported (std : bool) (c : gcpu) (t : gtgt) : gresult T :=
    if std then dispatch_init c (path (name_aes true t)) (path (name_ssse3 true t)) (path (name_sse2 true t))
    else if t_sse2 t then of_name (path (name_sse2 false t))
    else NotBuilt.
End Exported.

(** ** the compressors and the four digests over the exported functions (lib.rs: [Compressor512]
       calls init512 / tf512 / of512, [Compressor1024] the other three). A panic of any cell is a
       panic of the digest call (init is called first, in [new_truncated]). *)
Definition g_bind {A B} (r : gresult A) (k : A -> gresult B) : gresult B :=
  match r with Runs a => k a | InitPanics => InitPanics | NotBuilt => NotBuilt end.

Definition exported_comp512 (S : N -> N) (std : bool) (c : gcpu) (t : gtgt) : gresult comp :=
  g_bind (exported S e_init512 std c t) (fun i =>
  g_bind (exported S e_tf512 std c t) (fun f =>
  g_bind (exported S e_of512 std c t) (fun o => Runs (C 64 i f o)))).
Definition exported_comp1024 (S : N -> N) (std : bool) (c : gcpu) (t : gtgt) : gresult comp :=
  g_bind (exported S e_init1024 std c t) (fun i =>
  g_bind (exported S e_tf1024 std c t) (fun f =>
  g_bind (exported S e_of1024 std c t) (fun o => Runs (C 128 i f o)))).

Definition g_map {A B} (f : A -> B) (r : gresult A) : gresult B := g_bind r (fun a => Runs (f a)).

Definition groestl224_on std c t (msg : list N) : gresult (list N) :=
  g_map (fun cmp => digest cmp 224 out224 msg) (exported_comp512 sbox_fast std c t).
Definition groestl256_on std c t (msg : list N) : gresult (list N) :=
  g_map (fun cmp => digest cmp 256 out256 msg) (exported_comp512 sbox_fast std c t).
Definition groestl384_on std c t (msg : list N) : gresult (list N) :=
  g_map (fun cmp => digest cmp 384 out384 msg) (exported_comp1024 sbox_fast std c t).
Definition groestl512_on std c t (msg : list N) : gresult (list N) :=
  g_map (fun cmp => digest cmp 512 out512 msg) (exported_comp1024 sbox_fast std c t).

(** ** tie to the lattice of Model/Features.v: the [env] of that file has no SSE2 bits (it assumes
       SSE2, "architectural on x86-64"); here they are explicit *)
Definition cpu_of (e : env) (sse2 : bool) : gcpu := GCpu (cpu_aes e) (cpu_ssse3 e) sse2.
Definition tgt_of (e : env) (sse2 : bool) : gtgt := GTgt (tgt_aes e) (tgt_ssse3 e) sse2.

(** the selection at lattice point [p] of groestl-aesni, in environment [e] *)
Definition groestl_std (p : point) : bool := on Groestl p "std"%string.
Definition point_module (p : point) (e : env) (cpu_sse2 tgt_sse2 : bool) : gresult gmodule :=
  exported_module (groestl_std p) (cpu_of e cpu_sse2) (tgt_of e tgt_sse2).
Definition point_exported (S : N -> N) {T} (field : entries -> T)
           (p : point) (e : env) (cpu_sse2 tgt_sse2 : bool) : gresult T :=
  exported S field (groestl_std p) (cpu_of e cpu_sse2) (tgt_of e tgt_sse2).
