(** C19 — model of /repo/utils-simd/ppv-null/src/lib.rs, as written
    (after repair N1: [u128x1 +=] is [wrapping_add]).

    A vector value is the list of its fields, field [.0] first.  The three
    macros [define_vec1!], [define_vec2!], [define_vec4!] are generic in the
    word type, so their models take the width [w]; the instantiations at the
    end are the five public types.

    Rust's fixed-width arithmetic is explicit: every place where the source uses
    a checked operator ([+], [-], [<<], [>>] with a computed amount, slice /
    array indexing, [debug_assert_eq!], [unreachable!]) goes through one of the
    [*_chk] / [index] / [debug_assert] primitives below, which yield [Panic]
    exactly when the compiled code panics in the given build profile
    (overflow checks and debug assertions on in [Debug], off in [Release]).
    [wrapping_add], [rotate_right], [^ & | !] never panic. *)
From Coq Require Import NArith List Bool.
From CC Require Import Lib.Words Lib.ListX.
From CC Require Import Spec.NullLanes. (* only for the enumerations ty / op *)
Import ListNotations.
Local Open Scope N_scope.

Inductive profile := Debug | Release.
Inductive res (A : Type) : Type := Ok (a : A) | Panic.
Arguments Ok {A} a.
Arguments Panic {A}.

Definition bind {A B} (r : res A) (f : A -> res B) : res B :=
  match r with Ok a => f a | Panic => Panic end.
Notation "'let*' x ':=' e 'in' k" := (bind e (fun x => k))
  (at level 200, x name, e at level 100, k at level 200, right associativity).

(** * Rust scalar primitives *)

(** arithmetic overflow: panic with overflow checks, otherwise the wrapped value *)
Definition overflow {A} (p : profile) (wrapped : A) : res A :=
  match p with Debug => Panic | Release => Ok wrapped end.
(** [a + b] on [w]-bit unsigned integers *)
Definition add_chk (p : profile) (w a b : N) : res N :=
  if a + b <? N.shiftl 1 w then Ok (a + b) else overflow p (addw w a b).
(** [a - b] *)
Definition sub_chk (p : profile) (w a b : N) : res N :=
  if b <=? a then Ok (a - b) else overflow p (subw w a b).
(** [x << s] / [x >> s], [s : u32]: overflow iff [s >= w]; unchecked code masks the amount *)
Definition shl_chk (p : profile) (w x s : N) : res N :=
  if s <? w then Ok (wrap w (N.shiftl x s))
  else overflow p (wrap w (N.shiftl x (N.land s (w - 1)))).
Definition shr_chk (p : profile) (w x s : N) : res N :=
  if s <? w then Ok (N.shiftr x s)
  else overflow p (N.shiftr x (N.land s (w - 1))).
(** [x.rotate_right(n)], [n : u32]: total, amount taken modulo the width *)
Definition rotate_right (w x n : N) : N := rotrw w (N.land n (w - 1)) x.
Definition wrapping_add (w a b : N) : N := addw w a b.
Definition bitnot (w a : N) : N := notw w a.
(** [x as u32] *)
Definition as_u32 (x : N) : N := wrap 32 x.
(** [xs[i]] on a slice or array: panics in every profile when out of range *)
Definition len {A} (xs : list A) : N := N.of_nat (length xs).
(** (the bound is compared in [N] first so that a huge index is never converted to unary) *)
Definition index {A} (xs : list A) (i : N) : res A :=
  if i <? len xs
  then match nth_error xs (N.to_nat i) with Some x => Ok x | None => Panic end
  else Panic.
(** [xs[i] = v] *)
Definition store {A} (xs : list A) (i : N) (v : A) : res (list A) :=
  if i <? len xs then Ok (upd (N.to_nat i) v xs) else Panic.
(** [debug_assert!(b)] *)
Definition debug_assert (p : profile) (b : bool) : res unit :=
  if b then Ok tt else match p with Debug => Panic | Release => Ok tt end.

(** struct fields *)
Definition f0 (v : list N) : N := nth 0 v 0.
Definition f1 (v : list N) : N := nth 1 v 0.
Definition f2 (v : list N) : N := nth 2 v 0.
Definition f3 (v : list N) : N := nth 3 v 0.

(** * define_vec1! *)
Section Vec1.
  Variable w : N.
  Definition v1_new (a : N) : list N := [a].
  Definition v1_rotate_right (self : list N) (i : N) : list N :=
    [rotate_right w (f0 self) (as_u32 i)].
  Definition v1_load (p : profile) (xs : list N) : res (list N) :=
    let* _ := debug_assert p (len xs =? 1) in
    let* a := index xs 0 in
    Ok [a].
  Definition v1_xor_store (p : profile) (self xs : list N) : res (list N) :=
    let* _ := debug_assert p (len xs =? 1) in
    let* a := index xs 0 in
    store xs 0 (N.lxor a (f0 self)).
  Definition v1_into_inner (self : list N) : N := f0 self.
  (** [((self.0 & m) >> i) | ((self.0) << i) & m]; [&] binds tighter than [|] *)
  Definition v1_swap (p : profile) (self : list N) (m i : N) : res (list N) :=
    let* hi := shr_chk p w (N.land (f0 self) m) i in
    let* lo := shl_chk p w (f0 self) i in
    Ok [N.lor hi (N.land lo m)].
  Definition v1_swap1 p self := v1_swap p self 0xaaaaaaaaaaaaaaaaaaaaaaaaaaaaaaaa 1.
  Definition v1_swap2 p self := v1_swap p self 0xcccccccccccccccccccccccccccccccc 2.
  Definition v1_swap4 p self := v1_swap p self 0xf0f0f0f0f0f0f0f0f0f0f0f0f0f0f0f0 4.
  Definition v1_swap8 p self := v1_swap p self 0xff00ff00ff00ff00ff00ff00ff00ff00 8.
  Definition v1_swap16 p self := v1_swap p self 0xffff0000ffff0000ffff0000ffff0000 16.
  Definition v1_swap32 p self := v1_swap p self 0xffffffff00000000ffffffff00000000 32.
  Definition v1_swap64 (p : profile) (self : list N) : res (list N) :=
    let* hi := shl_chk p w (f0 self) 64 in
    let* lo := shr_chk p w (f0 self) 64 in
    Ok [N.lor hi lo].
  Definition v1_not (self : list N) : list N := [bitnot w (f0 self)].
  Definition v1_bitand (self rhs : list N) : list N := [N.land (f0 self) (f0 rhs)].
  Definition v1_bitxor (self rhs : list N) : list N := [N.lxor (f0 self) (f0 rhs)].
  Definition v1_bitxor_assign (self rhs : list N) : list N := [N.lxor (f0 self) (f0 rhs)].
  (** [!self & rhs] *)
  Definition v1_andnot (self rhs : list N) : list N := v1_bitand (v1_not self) rhs.
  Definition v1_extract (p : profile) (self : list N) (i : N) : res N :=
    let* _ := debug_assert p (i =? 0) in Ok (f0 self).
  (** repaired (N1): [self.0 = self.0.wrapping_add(rhs.0)] *)
  Definition v1_add_assign (self rhs : list N) : list N :=
    [wrapping_add w (f0 self) (f0 rhs)].
  (** as shipped before the repair: [self.0 += rhs.0] *)
  Definition v1_add_assign_before_fix (p : profile) (self rhs : list N) : res (list N) :=
    let* s := add_chk p w (f0 self) (f0 rhs) in Ok [s].
End Vec1.

(** * define_vec2! *)
Section Vec2.
  Variable w : N.
  Definition v2_new (a b : N) : list N := [a; b].
  Definition v2_map (f : N -> N) (self : list N) : list N := [f (f0 self); f (f1 self)].
  Definition v2_zipmap (f : N -> N -> N) (self rhs : list N) : list N :=
    [f (f0 self) (f0 rhs); f (f1 self) (f1 rhs)].
  Definition v2_rotate_right (self : list N) (i : N) : list N :=
    v2_map (fun x => rotate_right w x (as_u32 i)) self.
  Definition v2_load (p : profile) (xs : list N) : res (list N) :=
    let* _ := debug_assert p (len xs =? 2) in
    let* a := index xs 0 in
    let* b := index xs 1 in
    Ok [a; b].
  Definition v2_xor_store (p : profile) (self xs : list N) : res (list N) :=
    let* _ := debug_assert p (len xs =? 2) in
    let* a := index xs 0 in
    let* xs := store xs 0 (N.lxor a (f0 self)) in
    let* b := index xs 1 in
    store xs 1 (N.lxor b (f1 self)).
  Definition v2_extract (self : list N) (i : N) : res N := index [f0 self; f1 self] i.
  Definition v2_bitand (self rhs : list N) : list N :=
    [N.land (f0 self) (f0 rhs); N.land (f1 self) (f1 rhs)].
  Definition v2_bitor (self rhs : list N) : list N :=
    [N.lor (f0 self) (f0 rhs); N.lor (f1 self) (f1 rhs)].
  Definition v2_not (self : list N) : list N := [bitnot w (f0 self); bitnot w (f1 self)].
  Definition v2_andnot (self rhs : list N) : list N := v2_bitand (v2_not self) rhs.
  Definition v2_add_assign (self rhs : list N) : list N := v2_zipmap (wrapping_add w) self rhs.
  Definition v2_bitxor_assign (self rhs : list N) : list N := v2_zipmap N.lxor self rhs.
End Vec2.

(** * define_vec4! *)
Section Vec4.
  Variable w : N.
  Definition v4_new (a b c d : N) : list N := [a; b; c; d].
  Definition v4_zipmap {A} (f : A -> A -> A) (d : A) (self rhs : list A) : list A :=
    [f (nth 0 self d) (nth 0 rhs d); f (nth 1 self d) (nth 1 rhs d);
     f (nth 2 self d) (nth 2 rhs d); f (nth 3 self d) (nth 3 rhs d)].
  (** returns the rotated vector; [self] is not modified *)
  Definition v4_rotate_right (self ii : list N) : list N :=
    [rotate_right w (f0 self) (as_u32 (f0 ii)); rotate_right w (f1 self) (as_u32 (f1 ii));
     rotate_right w (f2 self) (as_u32 (f2 ii)); rotate_right w (f3 self) (as_u32 (f3 ii))].
  Definition v4_from_slice_unaligned (p : profile) (xs : list N) : res (list N) :=
    let* _ := debug_assert p (len xs =? 4) in
    let* a := index xs 0 in
    let* b := index xs 1 in
    let* c := index xs 2 in
    let* d := index xs 3 in
    Ok [a; b; c; d].
  Definition v4_splat (x : N) : list N := [x; x; x; x].
  Definition v4_write_to_slice_unaligned (p : profile) (self xs : list N) : res (list N) :=
    let* _ := debug_assert p (len xs =? 4) in
    let* xs := store xs 0 (f0 self) in
    let* xs := store xs 1 (f1 self) in
    let* xs := store xs 2 (f2 self) in
    store xs 3 (f3 self).
  (** [let xs = [&mut self.0, ...]; *xs[i] = v; self] *)
  Definition v4_replace (self : list N) (i v : N) : res (list N) :=
    store [f0 self; f1 self; f2 self; f3 self] i v.
  Definition v4_extract (self : list N) (i : N) : res N :=
    index [f0 self; f1 self; f2 self; f3 self] i.
  Definition v4_add_assign (self rhs : list N) : list N := v4_zipmap (wrapping_add w) 0 self rhs.
  Definition v4_bitxor_assign (self rhs : list N) : list N := v4_zipmap N.lxor 0 self rhs.
  Definition v4_add (self rhs : list N) : list N := v4_zipmap (wrapping_add w) 0 self rhs.
  Definition v4_bitxor (self rhs : list N) : list N := v4_zipmap N.lxor 0 self rhs.
  Definition v4_bitor (self rhs : list N) : list N := v4_zipmap N.lor 0 self rhs.
  Definition v4_bitand (self rhs : list N) : list N := v4_zipmap N.land 0 self rhs.
  Definition v4_rotate_words_right (p : profile) (self : list N) (i : N) : res (list N) :=
    let* _ := debug_assert p (N.land i (bitnot 32 3) =? 0) in
    match N.land i 3 with
    | 0 => Ok self
    | 1 => Ok [f3 self; f0 self; f1 self; f2 self]
    | 2 => Ok [f2 self; f3 self; f0 self; f1 self]
    | 3 => Ok [f1 self; f2 self; f3 self; f0 self]
    | _ => Panic (* unreachable!() *)
    end.
  (** [(x >> i) | (x << (BITS - i))], [BITS], [i : u32] *)
  Definition splat_rotr_lane (p : profile) (x i : N) : res N :=
    let* a := shr_chk p w x i in
    let* s := sub_chk p 32 w i in
    let* b := shl_chk p w x s in
    Ok (N.lor a b).
  Definition v4_splat_rotate_right (p : profile) (self : list N) (i : N) : res (list N) :=
    let* a := splat_rotr_lane p (f0 self) i in
    let* b := splat_rotr_lane p (f1 self) i in
    let* c := splat_rotr_lane p (f2 self) i in
    let* d := splat_rotr_lane p (f3 self) i in
    Ok [a; b; c; d].
End Vec4.

(** * u32x4x4: four u32x4 values, every operation forwarded *)
Definition g (k : nat) (v : list (list N)) : list N := nth k v [].
Definition x44_zipmap (f : list N -> list N -> list N) (self rhs : list (list N)) : list (list N) :=
  [f (g 0 self) (g 0 rhs); f (g 1 self) (g 1 rhs); f (g 2 self) (g 2 rhs); f (g 3 self) (g 3 rhs)].
Definition x44_from (a b c d : list N) : list (list N) := [a; b; c; d].
Definition x44_splat (a : list N) : list (list N) := [a; a; a; a].
Definition x44_into_parts (self : list (list N)) : list (list N) :=
  [g 0 self; g 1 self; g 2 self; g 3 self].
Definition x44_bitxor := x44_zipmap (v4_bitxor).
Definition x44_bitor := x44_zipmap (v4_bitor).
Definition x44_bitand := x44_zipmap (v4_bitand).
Definition x44_add := x44_zipmap (v4_add 32).
Definition x44_bitxor_assign (self rhs : list (list N)) : list (list N) :=
  [v4_bitxor (g 0 self) (g 0 rhs); v4_bitxor (g 1 self) (g 1 rhs);
   v4_bitxor (g 2 self) (g 2 rhs); v4_bitxor (g 3 self) (g 3 rhs)].
Definition x44_add_assign (self rhs : list (list N)) : list (list N) :=
  [v4_add 32 (g 0 self) (g 0 rhs); v4_add 32 (g 1 self) (g 1 rhs);
   v4_add 32 (g 2 self) (g 2 rhs); v4_add 32 (g 3 self) (g 3 rhs)].
Definition x44_rotate_words_right (p : profile) (self : list (list N)) (i : N) : res (list (list N)) :=
  let* a := v4_rotate_words_right p (g 0 self) i in
  let* b := v4_rotate_words_right p (g 1 self) i in
  let* c := v4_rotate_words_right p (g 2 self) i in
  let* d := v4_rotate_words_right p (g 3 self) i in
  Ok [a; b; c; d].
Definition x44_splat_rotate_right (p : profile) (self : list (list N)) (i : N) : res (list (list N)) :=
  let* a := v4_splat_rotate_right 32 p (g 0 self) i in
  let* b := v4_splat_rotate_right 32 p (g 1 self) i in
  let* c := v4_splat_rotate_right 32 p (g 2 self) i in
  let* d := v4_splat_rotate_right 32 p (g 3 self) i in
  Ok [a; b; c; d].

(** * Uniform entry point (used by the correspondence check and by the master theorem)

    [a]: lanes of [self] (u32x4x4: the 16 lanes, part 0 first); [b]: lanes of
    the second vector operand, or the contents of the slice argument, or
    (replace) the one-element list of the new value; [i]: the scalar argument
    (rotation amount, lane index, splat value).  The result is the list of
    lanes of the returned / updated vector, the slice after a store, or the
    one-element list of an extracted word.  [None]: the type has no such
    method. *)
(** the enumerations [ty], [op] and [width], [nlanes] (the public surface of the crate)
    are shared with the specification: Spec/NullLanes.v *)
Definition parts (a : list N) : list (list N) :=
  [firstn 4 a; firstn 4 (skipn 4 a); firstn 4 (skipn 8 a); firstn 4 (skipn 12 a)].
Definition flat (v : list (list N)) : list N := concat v.

Definition ok1 (r : res N) : res (list N) := let* x := r in Ok [x].
Definition okf (r : res (list (list N))) : res (list N) := let* x := r in Ok (flat x).

Definition run_v4 (w : N) (p : profile) (o : op) (a b : list N) (i : N) : option (res (list N)) :=
  match o with
  | ONew => Some (Ok (v4_new (f0 a) (f1 a) (f2 a) (f3 a)))
  | ORotr => Some (Ok (v4_rotate_right w a b))
  | OLoad => Some (v4_from_slice_unaligned p b)
  | OStore => Some (v4_write_to_slice_unaligned p a b)
  | OSplat => Some (Ok (v4_splat i))
  | OReplace => Some (v4_replace a i (f0 b))
  | OExtract => Some (ok1 (v4_extract a i))
  | OAddAssign => Some (Ok (v4_add_assign w a b))
  | OXorAssign => Some (Ok (v4_bitxor_assign a b))
  | OAdd => Some (Ok (v4_add w a b))
  | OXor => Some (Ok (v4_bitxor a b))
  | OOr => Some (Ok (v4_bitor a b))
  | OAnd => Some (Ok (v4_bitand a b))
  | ORotWords => Some (v4_rotate_words_right p a i)
  | OSplatRotr => Some (v4_splat_rotate_right w p a i)
  | _ => None
  end.

Definition run_v1 (w : N) (p : profile) (o : op) (a b : list N) (i : N) : option (res (list N)) :=
  match o with
  | ONew => Some (Ok (v1_new (f0 a)))
  | ORotr => Some (Ok (v1_rotate_right w a i))
  | OLoad => Some (v1_load p b)
  | OXorStore => Some (v1_xor_store p a b)
  | OIntoInner => Some (Ok [v1_into_inner a])
  | OSwap1 => Some (v1_swap1 w p a)
  | OSwap2 => Some (v1_swap2 w p a)
  | OSwap4 => Some (v1_swap4 w p a)
  | OSwap8 => Some (v1_swap8 w p a)
  | OSwap16 => Some (v1_swap16 w p a)
  | OSwap32 => Some (v1_swap32 w p a)
  | OSwap64 => Some (v1_swap64 w p a)
  | OAndNot => Some (Ok (v1_andnot w a b))
  | OExtract => Some (ok1 (v1_extract p a i))
  | OAddAssign => Some (Ok (v1_add_assign w a b))
  | OXorAssign => Some (Ok (v1_bitxor_assign a b))
  | OXor => Some (Ok (v1_bitxor a b))
  | OAnd => Some (Ok (v1_bitand a b))
  | ONot => Some (Ok (v1_not w a))
  | _ => None
  end.

Definition run_v2 (w : N) (p : profile) (o : op) (a b : list N) (i : N) : option (res (list N)) :=
  match o with
  | ONew => Some (Ok (v2_new (f0 a) (f1 a)))
  | ORotr => Some (Ok (v2_rotate_right w a i))
  | OLoad => Some (v2_load p b)
  | OXorStore => Some (v2_xor_store p a b)
  | OExtract => Some (ok1 (v2_extract a i))
  | OAndNot => Some (Ok (v2_andnot w a b))
  | OAddAssign => Some (Ok (v2_add_assign w a b))
  | OXorAssign => Some (Ok (v2_bitxor_assign a b))
  | OAnd => Some (Ok (v2_bitand a b))
  | ONot => Some (Ok (v2_not w a))
  | OOr => Some (Ok (v2_bitor a b))
  | _ => None
  end.

Definition run_x44 (p : profile) (o : op) (a b : list N) (i : N) : option (res (list N)) :=
  let A := parts a in let B := parts b in
  match o with
  | ONew => Some (Ok (flat (x44_from (g 0 A) (g 1 A) (g 2 A) (g 3 A))))
  | OSplat => Some (Ok (flat (x44_splat a)))
  | OIntoParts => Some (Ok (flat (x44_into_parts A)))
  | OXor => Some (Ok (flat (x44_bitxor A B)))
  | OOr => Some (Ok (flat (x44_bitor A B)))
  | OAnd => Some (Ok (flat (x44_bitand A B)))
  | OAdd => Some (Ok (flat (x44_add A B)))
  | OXorAssign => Some (Ok (flat (x44_bitxor_assign A B)))
  | OAddAssign => Some (Ok (flat (x44_add_assign A B)))
  | ORotWords => Some (okf (x44_rotate_words_right p A i))
  | OSplatRotr => Some (okf (x44_splat_rotate_right p A i))
  | _ => None
  end.

Definition run_op (p : profile) (t : ty) (o : op) (a b : list N) (i : N) : option (res (list N)) :=
  match t with
  | U32x4 => run_v4 32 p o a b i
  | U64x4 => run_v4 64 p o a b i
  | U128x1 => run_v1 128 p o a b i
  | U128x2 => run_v2 128 p o a b i
  | U32x4x4 => run_x44 p o a b i
  end.
