(** Model of /repo/hashes/groestl/src/{compressor.rs,lib.rs} (groestl-aesni 0.3.1)
    as written: the AES-NI code path on 128-bit registers, and the hasher.

    [X4] / [X8] are lists of 4 / 8 registers; a register is a list of 16 bytes
    (Model/GroestlIntrinsics.v).  Function names are the Rust names.  The
    S-box used by [aesenclast] is a parameter [S]; the executable instance
    uses [AES.sbox_fast]. *)
From Coq Require Import NArith List Arith Bool.
From CC Require Import Lib.Words Lib.Bytes Lib.ListX Spec.AES
     Model.GroestlIntrinsics Model.BlockBuffer.
Import ListNotations.

Definition X := list reg.

Definition x_map (f : reg -> reg) (a : X) : X := map f a.
Definition x_map2 (f : reg -> reg -> reg) (a b : X) : X := map2 f a b.
(** [impl BitXor for X4 / X8] *)
Definition x_xor (a b : X) : X := x_map2 mm_xor_si128 a b.
(** [X8::shuffle] *)
Definition x_shuffle (a : X) (i : list nat) : X := map (fun k => nth k a []) i.
Definition rotl1 (a : X) := x_shuffle a [1; 2; 3; 4; 5; 6; 7; 0].
Definition rotl2 (a : X) := x_shuffle a [2; 3; 4; 5; 6; 7; 0; 1].
Definition rotl3 (a : X) := x_shuffle a [3; 4; 5; 6; 7; 0; 1; 2].
Definition rotl4 (a : X) := x_shuffle a [4; 5; 6; 7; 0; 1; 2; 3].
Definition rotl6 (a : X) := x_shuffle a [6; 7; 0; 1; 2; 3; 4; 5].

(** i64 arithmetic on bit patterns *)
Definition mul64 (a b : N) : N := wrap 64 (a * b).

Definition mul2 (i : reg) : reg :=
  let all_1b := mm_set1_epi64x 0x1b1b1b1b1b1b1b1b in
  let j := mm_and_si128 (mm_cmpgt_epi8 (mm_cvtsi64_si128 0) i) all_1b in
  let i := mm_add_epi8 i i in
  mm_xor_si128 i j.

(** the MixBytes network of [submix], generic in the register operations *)
Definition mix_net {V} (vxor : V -> V -> V) (vmul2 : V -> V) (rot : nat -> list V -> list V)
           (a : list V) : list V :=
  let xr := map2 vxor in
  let t := xr a (rot 1 a) in
  let b := xr (xr (rot 2 a) (rot 4 t)) (rot 6 t) in
  let a := xr t (rot 3 t) in
  let a := xr (map vmul2 a) b in
  xr b (map vmul2 (rot 3 a)).

Definition rot_x (k : nat) (a : X) : X :=
  match k with 1 => rotl1 a | 2 => rotl2 a | 3 => rotl3 a | 4 => rotl4 a | 6 => rotl6 a | _ => a end.

Section WithSbox.
Variable S : N -> N.

Definition submix (a : X) : X :=
  let b0 := mm_cvtsi64_si128 0 in
  let a := x_map (fun x => mm_aesenclast_si128 S x b0) a in
  mix_net mm_xor_si128 mul2 rot_x a.

Definition transpose_mask : reg := mm_set_epi64x 0x0f070b030e060a02 0x0d0509010c040800.

Definition transpose_a (i : X) : X :=
  let i := x_map (fun x => mm_shuffle_epi8 x transpose_mask) i in
  match i with
  | [i0; i1; i2; i3] =>
      let z := x_map (fun x => mm_shuffle_epi32 x 0xd8)
                     [mm_unpacklo_epi16 i0 i1; mm_unpackhi_epi16 i0 i1;
                      mm_unpacklo_epi16 i2 i3; mm_unpackhi_epi16 i2 i3] in
      match z with
      | [z0; z1; z2; z3] =>
          [mm_unpacklo_epi32 z0 z2; mm_unpacklo_epi32 z1 z3;
           mm_unpackhi_epi32 z0 z2; mm_unpackhi_epi32 z1 z3]
      | _ => []
      end
  | _ => []
  end.

Definition transpose_b (i : X) : X :=
  match i with
  | [i0; i1; i2; i3; i4; i5; i6; i7] =>
      [mm_unpacklo_epi64 i0 i4; mm_unpackhi_epi64 i0 i4;
       mm_unpacklo_epi64 i1 i5; mm_unpackhi_epi64 i1 i5;
       mm_unpacklo_epi64 i2 i6; mm_unpackhi_epi64 i2 i6;
       mm_unpacklo_epi64 i3 i7; mm_unpackhi_epi64 i3 i7]
  | _ => []
  end.

Definition transpose_b_inv (i : X) : X :=
  match i with
  | [i0; i1; i2; i3; i4; i5; i6; i7] =>
      [mm_unpacklo_epi64 i0 i1; mm_unpacklo_epi64 i2 i3;
       mm_unpacklo_epi64 i4 i5; mm_unpacklo_epi64 i6 i7;
       mm_unpackhi_epi64 i0 i1; mm_unpackhi_epi64 i2 i3;
       mm_unpackhi_epi64 i4 i5; mm_unpackhi_epi64 i6 i7]
  | _ => []
  end.

Definition transpose_o_b (i : X) : X :=
  let t0 := mm_cvtsi64_si128 0 in
  match i with
  | [i0; i1; i2; i3] =>
      [mm_unpacklo_epi64 i0 t0; mm_unpackhi_epi64 i0 t0;
       mm_unpacklo_epi64 i1 t0; mm_unpackhi_epi64 i1 t0;
       mm_unpacklo_epi64 i2 t0; mm_unpackhi_epi64 i2 t0;
       mm_unpacklo_epi64 i3 t0; mm_unpackhi_epi64 i3 t0]
  | _ => []
  end.

Definition transpose_o_b_inv (i : X) : X :=
  match i with
  | [i0; i1; i2; i3; i4; i5; i6; i7] =>
      x_map2 mm_unpacklo_epi64 [i0; i2; i4; i6] [i1; i3; i5; i7]
  | _ => []
  end.

Definition O1 : N := 0x0101010101010101.
Definition FF64 : N := 0xffffffffffffffff.

Definition round_mask : X :=
  [mm_set_epi64x 0x03060a0d08020509 0x0c0f0104070b0e00;
   mm_set_epi64x 0x04070c0f0a03060b 0x0e090205000d0801;
   mm_set_epi64x 0x05000e090c04070d 0x080b0306010f0a02;
   mm_set_epi64x 0x0601080b0e05000f 0x0a0d040702090c03;
   mm_set_epi64x 0x0702090c0f060108 0x0b0e0500030a0d04;
   mm_set_epi64x 0x00030b0e0907020a 0x0d080601040c0f05;
   mm_set_epi64x 0x01040d080b00030c 0x0f0a0702050e0906;
   mm_set_epi64x 0x02050f0a0d01040e 0x090c000306080b07].

(** [round(i, a)] of the 512-bit variant (P in the low, Q in the high halves) *)
Definition round (i : N) (a : X) : X :=
  let ff := FF64 in
  let l0 := mm_set_epi64x ff (N.lxor (mul64 i O1) 0x7060504030201000) in
  let lx := mm_set_epi64x ff 0 in
  let l7 := mm_set_epi64x (N.lxor (mul64 i O1) 0x8f9fafbfcfdfefff) 0 in
  let a := x_xor a [l0; lx; lx; lx; lx; lx; lx; l7] in
  let a := x_map2 mm_shuffle_epi8 a round_mask in
  submix a.

Definition rounds_p_q (p : X) : X :=
  let p := round 0 p in let p := round 1 p in let p := round 2 p in
  let p := round 3 p in let p := round 4 p in let p := round 5 p in
  let p := round 6 p in let p := round 7 p in let p := round 8 p in
  let p := round 9 p in p.

Definition load_x4 (data : list N) : X := map (mm_loadu data) [0; 1; 2; 3].
Definition load_x8 (data : list N) : X := map (mm_loadu data) [0; 1; 2; 3; 4; 5; 6; 7].

Definition tf512 (cv : X) (data : list N) : X :=
  let y := transpose_a (load_x4 data) in
  let x := x_map2 mm_xor_si128 cv y in
  let p := transpose_b (x ++ y) in
  let p := rounds_p_q p in
  let p := transpose_b_inv p in
  match p with
  | [p0; p1; p2; p3; p4; p5; p6; p7] =>
      let x := [mm_xor_si128 p0 p4; mm_xor_si128 p1 p5; mm_xor_si128 p2 p6; mm_xor_si128 p3 p7] in
      x_xor cv x
  | _ => []
  end.

Definition of512 (cv : X) : X :=
  let p := transpose_o_b cv in
  let p := rounds_p_q p in
  let p := x_xor cv (transpose_o_b_inv p) in
  match transpose_a p, cv with
  | [_; _; x9; x11], [c0; c1; _; _] => [c0; c1; x9; x11]
  | _, _ => []
  end.

Definition init512 (cv : X) : X := transpose_a cv.

(** 1024-bit variant *)
Definition transpose (i : X) : X :=
  let i := x_map (fun x => mm_shuffle_epi8 x transpose_mask) i in
  match i with
  | [i0; i1; i2; i3; i4; i5; i6; i7] =>
      let eve := [i0; i2; i4; i6] in
      let odd := [i1; i3; i5; i7] in
      let i := x_map2 (fun e o => mm_shuffle_epi32 (mm_unpacklo_epi16 e o) 0xd8) eve odd in
      let t := x_map2 (fun e o => mm_shuffle_epi32 (mm_unpackhi_epi16 e o) 0xd8) eve odd in
      match i, t with
      | [i0; i1; i2; i3], [t0; t1; t2; t3] =>
          let t := [mm_unpacklo_epi32 t0 t1; mm_unpacklo_epi32 i0 i1;
                    mm_unpacklo_epi32 t2 t3; mm_unpacklo_epi32 i2 i3;
                    mm_unpackhi_epi32 i0 i1; mm_unpackhi_epi32 t0 t1;
                    mm_unpackhi_epi32 i2 i3; mm_unpackhi_epi32 t2 t3] in
          match t with
          | [t0; t1; t2; t3; t4; t5; t6; t7] =>
              [mm_unpacklo_epi64 t1 t3; mm_unpackhi_epi64 t1 t3;
               mm_unpacklo_epi64 t0 t2; mm_unpackhi_epi64 t0 t2;
               mm_unpacklo_epi64 t4 t6; mm_unpackhi_epi64 t4 t6;
               mm_unpacklo_epi64 t5 t7; mm_unpackhi_epi64 t5 t7]
          | _ => []
          end
      | _, _ => []
      end
  | _ => []
  end.

Definition transpose_inv (i : X) : X :=
  match i with
  | [i0; i1; i2; i3; i4; i5; i6; i7] =>
      let i := x_map (fun x => mm_shuffle_epi8 x transpose_mask)
                     [mm_unpacklo_epi64 i0 i1; mm_unpackhi_epi64 i0 i1;
                      mm_unpacklo_epi64 i2 i3; mm_unpackhi_epi64 i2 i3;
                      mm_unpacklo_epi64 i4 i5; mm_unpackhi_epi64 i4 i5;
                      mm_unpacklo_epi64 i6 i7; mm_unpackhi_epi64 i6 i7] in
      match i with
      | [i0; i1; i2; i3; i4; i5; i6; i7] =>
          let i := x_map (fun x => mm_shuffle_epi32 x 0xd8)
                         [mm_unpacklo_epi16 i0 i2; mm_unpacklo_epi16 i1 i3;
                          mm_unpackhi_epi16 i0 i2; mm_unpackhi_epi16 i1 i3;
                          mm_unpacklo_epi16 i4 i6; mm_unpacklo_epi16 i5 i7;
                          mm_unpackhi_epi16 i4 i6; mm_unpackhi_epi16 i5 i7] in
          match i with
          | [i0; i1; i2; i3; i4; i5; i6; i7] =>
              [mm_unpacklo_epi32 i0 i4; mm_unpacklo_epi32 i2 i6;
               mm_unpackhi_epi32 i0 i4; mm_unpackhi_epi32 i2 i6;
               mm_unpacklo_epi32 i1 i5; mm_unpacklo_epi32 i3 i7;
               mm_unpackhi_epi32 i1 i5; mm_unpackhi_epi32 i3 i7]
          | _ => []
          end
      | _ => []
      end
  | _ => []
  end.

Definition mask1024 : X :=
  [mm_set_epi64x 0x0306090c0f020508 0x0b0e0104070a0d00;
   mm_set_epi64x 0x04070a0d00030609 0x0c0f0205080b0e01;
   mm_set_epi64x 0x05080b0e0104070a 0x0d000306090c0f02;
   mm_set_epi64x 0x06090c0f0205080b 0x0e0104070a0d0003;
   mm_set_epi64x 0x070a0d000306090c 0x0f0205080b0e0104;
   mm_set_epi64x 0x080b0e0104070a0d 0x000306090c0f0205;
   mm_set_epi64x 0x090c0f0205080b0e 0x0104070a0d000306;
   mm_set_epi64x 0x0e0104070a0d0003 0x06090c0f0205080b].

(** [const_p[i]], [const_q[i]] *)
Definition const_p (i : N) : reg :=
  mm_set_epi64x (N.lxor (mul64 i O1) 0xf0e0d0c0b0a09080) (N.lxor (mul64 i O1) 0x7060504030201000).
Definition const_q (i : N) : reg :=
  mm_set_epi64x (N.lxor (mul64 i O1) 0x0f1f2f3f4f5f6f7f) (N.lxor (mul64 i O1) 0x8f9fafbfcfdfefff).

(** one half-iteration of the loop body of [rounds_p]: [x.0 ^= p; pshufb; submix] *)
Definition round_p1024 (i : N) (x : X) : X :=
  let x := match x with x0 :: r => mm_xor_si128 x0 (const_p i) :: r | [] => [] end in
  let x := x_map2 mm_shuffle_epi8 x mask1024 in
  submix x.

(** the loops run over [const_p.chunks_exact(2)], i.e. rounds 0..13 in order *)
Definition rounds_p (x : X) : X :=
  fold_left (fun x i => round_p1024 (N.of_nat i) x) (seq 0 14) x.

Definition mask1024_q : X := x_shuffle mask1024 [1; 3; 5; 7; 0; 2; 4; 6].

Definition round_q1024 (i : N) (x : X) : X :=
  let f := mm_set1_epi64x FF64 in
  let x := x_map2 mm_shuffle_epi8 (x_xor x [f; f; f; f; f; f; f; const_q i]) mask1024_q in
  submix x.

Definition rounds_q (x : X) : X :=
  fold_left (fun x i => round_q1024 (N.of_nat i) x) (seq 0 14) x.

Definition init1024 (cv : X) : X := transpose cv.

Definition tf1024 (cv : X) (data : list N) : X :=
  let p := load_x8 data in
  let q := transpose p in
  let cv := x_xor cv (rounds_p (x_xor cv q)) in
  x_xor cv (rounds_q q).

Definition of1024 (cv : X) : X :=
  let p := transpose_inv (x_xor cv (rounds_p cv)) in
  match cv, p with
  | [c0; c1; c2; c3; _; _; _; _], [_; _; _; _; p4; p5; p6; p7] => [c0; c1; c2; c3; p4; p5; p6; p7]
  | _, _ => []
  end.

(** * lib.rs: the hasher *)

(** [u64::from(bits).to_be()] stored in memory = big-endian bytes of [bits] *)
Definition bswap64 (x : N) : N := le_join (rev (le_split 8 x)).

(** [new_truncated(bits)] on [words] 64-bit words (8 / 16): the IV block as bytes *)
Definition iv_block (words : nat) (bits : N) : list N :=
  bytes_le 8 (upd (words - 1) (bswap64 bits) (repeat 0%N words)).

(** [transmute!] of a byte block into registers *)
Definition regs_of_bytes (n : nat) (b : list N) : X := map (mm_loadu b) (seq 0 n).

Record hasher := H { h_buf : bb; h_count : N; h_cv : X }.

(** which compressor: block size in bytes, [init], [tf], [of] *)
Record comp := C { c_bytes : nat; c_init : X -> X; c_tf : X -> list N -> X; c_of : X -> X }.
Definition comp512 := C 64 init512 tf512 of512.
Definition comp1024 := C 128 init1024 tf1024 of1024.

Definition new_truncated (c : comp) (bits : N) : hasher :=
  let iv := iv_block (c_bytes c / 8) bits in
  H (bb_new (c_bytes c)) 0 (c_init c (regs_of_bytes (c_bytes c / 16) iv)).

(** [digest::Update::update]: every emitted block bumps [block_counter]
    ([u64], wrapping shown explicitly) and is compressed *)
Definition absorb (c : comp) (st : N * X) (blk : list N) : N * X :=
  (addw 64 (fst st) 1, c_tf c (snd st) blk).

Definition update (c : comp) (h : hasher) (data : list N) : hasher :=
  let '(b, out) := input_block (h_buf h) data in
  let '(cnt, cv) := fold_left (absorb c) out (h_count h, h_cv h) in
  H b cnt cv.

(** [finalize_dirty]: returns the state bytes ([transmute!(self.cv)]); [count] is
    [self.block_counter + 1 + (buffer.remaining() <= 8) as u64] *)
Definition finalize_with (c : comp) (h : hasher) (count : N) : list N :=
  let '(_, out) := len_padding_be 8 (h_buf h) count in
  let cv := fold_left (c_tf c) out (h_cv h) in
  concat (c_of c cv).

Definition extra_block (h : hasher) : N :=
  if Nat.leb (bb_remaining (h_buf h)) 8 then 1%N else 0%N.

(** release profile: [u64] arithmetic wraps *)
Definition finalize_dirty (c : comp) (h : hasher) : list N :=
  finalize_with c h (addw 64 (addw 64 (h_count h) 1) (extra_block h)).

(** ** the same with the build profile explicit: with overflow checks on
    ([debug = true]) [*block_counter += 1] and [block_counter + 1 + ..] panic
    ([None]) when the [u64] overflows; without them they wrap. *)
Definition add64_chk (debug : bool) (a b : N) : option N :=
  if (debug && (18446744073709551616 <=? a + b)%N)%bool then None else Some (addw 64 a b).

Definition absorb_chk (debug : bool) (c : comp) (st : option (N * X)) (blk : list N) : option (N * X) :=
  match st with
  | None => None
  | Some (cnt, cv) =>
      match add64_chk debug cnt 1 with
      | None => None
      | Some cnt' => Some (cnt', c_tf c cv blk)
      end
  end.

Definition update_chk (debug : bool) (c : comp) (h : hasher) (data : list N) : option hasher :=
  let '(b, out) := input_block (h_buf h) data in
  match fold_left (absorb_chk debug c) out (Some (h_count h, h_cv h)) with
  | None => None
  | Some (cnt, cv) => Some (H b cnt cv)
  end.

Definition finalize_chk (debug : bool) (c : comp) (h : hasher) : option (list N) :=
  match add64_chk debug (h_count h) 1 with
  | None => None
  | Some c1 =>
      match add64_chk debug c1 (extra_block h) with
      | None => None
      | Some count => Some (finalize_with c h count)
      end
  end.

(** [finalize_into_dirty]: the output words are [result[bits/128..]] written
    with [to_le_bytes]; on the little-endian host [transmute!] followed by
    [to_le_bytes] is the identity on bytes, so word [k] is bytes [8k..8k+8]. *)
Definition out256 (r : list N) : list N := skipn (8 * 4) r.
Definition out512 (r : list N) : list N := skipn (8 * 8) r.
Definition out384 (r : list N) : list N := skipn (8 * 10) r.
(** Groestl224: [((result[4] >> 32) as u32).to_le_bytes()] then [result[5..8]] *)
Definition out224 (r : list N) : list N :=
  let w4 := le_join (firstn 8 (skipn 32 r)) in
  le_split 4 (wrap 32 (N.shiftr w4 32)) ++ skipn (8 * 5) r.

Definition digest (c : comp) (bits : N) (out : list N -> list N) (msg : list N) : list N :=
  out (finalize_dirty c (update c (new_truncated c bits) msg)).

End WithSbox.

Definition m_groestl224 := digest (comp512 sbox_fast) 224 out224.
Definition m_groestl256 := digest (comp512 sbox_fast) 256 out256.
Definition m_groestl384 := digest (comp1024 sbox_fast) 384 out384.
Definition m_groestl512 := digest (comp1024 sbox_fast) 512 out512.
