(** C01 — the ChaCha key stream equals the specified ChaCha function (block level).

    Model: Model/ChaChaGuts.v (guts.rs as written). Specification: Spec/ChaCha.v
    (index-wise quarter rounds, layouts, HChaCha), anchored by the published vectors
    in Spec/KAT_ChaCha.v.

    The statement about [apply_keystream] after [seek] — and after any history of seeks,
    applies and position queries — for the seven cipher types is the second group of
    theorems: the block-level theorems composed with the history theorem of C02
    (Proofs/ChaChaCompose.v). *)
From Coq Require Import NArith ZArith List.
From CC Require Import Lib.Words Lib.Bytes Lib.ListX Spec.Lanes Model.ChaChaGuts.
From CC Require Import Proofs.ChaChaRounds Proofs.ChaChaGutsWords Proofs.ChaChaGuts Proofs.ChaChaGutsKat.
From CC Require Spec.ChaCha Spec.KAT_ChaCha.
From CC Require Import Model.ChaChaStream Proofs.ChaChaStreamSpec Proofs.ChaChaStreamHist Proofs.ChaChaCompose.
Import ListNotations.
Local Open Scope N_scope.

(** one vectorised double round ([round]; [diagonalize]; [round]; [undiagonalize]) on a
    4-word-per-row state, with wrapping 32-bit add, xor and rotate-right by 16/20/24/25,
    is the specification's double round (quarter rounds on columns 0-4-8-12 … then on
    diagonals 0-5-10-15 …, rotate-left by 16/12/8/7) on the 16 words in row order *)
Theorem C01_dround_eq_spec :
  forall x : vstate,
    shape 4 x ->
    flat (dround add32 N.lxor rotr32 x)
      = Spec.ChaCha.double_round Spec.ChaCha.add32 N.lxor Spec.ChaCha.rotl32 (flat x)
    /\ shape 4 (dround add32 N.lxor rotr32 x).
Proof. exact dround_eq_spec. Qed.

(** the same for abstract word operations and for each of the four lanes of the wide
    (4-block) state: lane [i] of the wide state evolves like a narrow state *)
Theorem C01_wide_lanes_eq_narrow :
  forall (add xor rotr : N -> N -> N) (n : nat) (x : vstate),
    shape 16 x ->
    (forall i, In i [0; 1; 2; 3]%nat ->
       lane_state i (rounds add xor rotr n x) = rounds add xor rotr n (lane_state i x))
    /\ shape 16 (rounds add xor rotr n x).
Proof. exact rounds_wide. Qed.

(** [refill]: for every state of three 4-word vectors and EVERY number of double rounds
    (0 included) the 64 output bytes are the little-endian serialisation of the
    specification's block function (drounds double rounds, then feed-forward) on
    sigma ++ b ++ c ++ d *)
Theorem C01_refill_eq_block :
  forall (s : chacha) (drounds : nat),
    length (cb s) = 4%nat /\ length (cc s) = 4%nat /\ length (cd s) = 4%nat ->
    fst (refill s drounds)
      = bytes_le 4 (Spec.ChaCha.spec_block_words drounds (Spec.ChaCha.sigma ++ cb s ++ cc s ++ cd s)).
Proof. exact refill_eq_block. Qed.

(** [init_chacha] with an 8-byte nonce, then [seek64 ctr]: the djb layout
    (words 12,13 = 64-bit block counter, words 14,15 = nonce) *)
Theorem C01_init_layout_djb :
  forall key nonce ctr,
    length key = 32%nat -> length nonce = 8%nat ->
    Spec.ChaCha.sigma ++ cb (seek64 (init_chacha key nonce) ctr) ++ cc (seek64 (init_chacha key nonce) ctr)
      ++ cd (seek64 (init_chacha key nonce) ctr)
    = Spec.ChaCha.init_state Spec.ChaCha.Djb (words_le 4 key) (words_le 4 nonce) ctr.
Proof. exact init_layout_djb. Qed.

(** [init_chacha] with a 12-byte nonce, then [seek32 ctr]: the RFC 7539 layout
    (word 12 = 32-bit block counter, words 13-15 = nonce) *)
Theorem C01_init_layout_ietf :
  forall key nonce ctr,
    length key = 32%nat -> length nonce = 12%nat ->
    Spec.ChaCha.sigma ++ cb (seek32 (init_chacha key nonce) ctr) ++ cc (seek32 (init_chacha key nonce) ctr)
      ++ cd (seek32 (init_chacha key nonce) ctr)
    = Spec.ChaCha.init_state Spec.ChaCha.Ietf (words_le 4 key) (words_le 4 nonce) ctr.
Proof. exact init_layout_ietf. Qed.

(** [init_chacha_x]: key words = HChaCha(drounds) subkey of key and nonce[0..16]
    (words 0-3 and 12-15 after the rounds, no feed-forward), then the djb layout on
    nonce[16..24] *)
Theorem C01_init_layout_x :
  forall key nonce ctr drounds,
    length key = 32%nat -> length nonce = 24%nat ->
    Spec.ChaCha.sigma ++ cb (seek64 (init_chacha_x key nonce drounds) ctr)
      ++ cc (seek64 (init_chacha_x key nonce drounds) ctr)
      ++ cd (seek64 (init_chacha_x key nonce drounds) ctr)
    = Spec.ChaCha.init_state Spec.ChaCha.XDjb
        (Spec.ChaCha.spec_hchacha drounds key (firstn 16 nonce)) (words_le 4 (skipn 16 nonce)) ctr.
Proof. exact init_layout_x. Qed.

(** constructor, seek to block [ctr], one [refill] = block [ctr] of the specified key
    stream, for the three layouts and every round count *)
Theorem C01_block_djb :
  forall key nonce ctr drounds,
    length key = 32%nat -> length nonce = 8%nat ->
    fst (refill (seek64 (init_chacha key nonce) ctr) drounds)
      = Spec.ChaCha.spec_block Spec.ChaCha.Djb drounds key nonce ctr.
Proof. exact block_djb. Qed.

Theorem C01_block_ietf :
  forall key nonce ctr drounds,
    length key = 32%nat -> length nonce = 12%nat ->
    fst (refill (seek32 (init_chacha key nonce) ctr) drounds)
      = Spec.ChaCha.spec_block Spec.ChaCha.Ietf drounds key nonce ctr.
Proof. exact block_ietf. Qed.

Theorem C01_block_x :
  forall key nonce ctr drounds,
    length key = 32%nat -> length nonce = 24%nat ->
    fst (refill (seek64 (init_chacha_x key nonce drounds) ctr) drounds)
      = Spec.ChaCha.spec_block Spec.ChaCha.XDjb drounds key nonce ctr.
Proof. exact block_x. Qed.

(** the specification reproduces the published vectors *)
Definition C01_kats :=
  (Spec.KAT_ChaCha.rfc7539_block, Spec.KAT_ChaCha.rfc7539_encrypt, Spec.KAT_ChaCha.hchacha20_vector,
   kat_chacha20_tc1, kat_chacha12_tc1, kat_chacha8_tc1,
   kat_chacha20_repo, kat_chacha12_repo, kat_chacha8_repo, kat_xchacha20_repo).

Print Assumptions C01_dround_eq_spec.
Print Assumptions C01_wide_lanes_eq_narrow.
Print Assumptions C01_refill_eq_block.
Print Assumptions C01_init_layout_djb.
Print Assumptions C01_init_layout_ietf.
Print Assumptions C01_init_layout_x.
Print Assumptions C01_block_djb.
Print Assumptions C01_block_ietf.
Print Assumptions C01_block_x.
Print Assumptions C01_kats.

(** * end to end: seek / apply_keystream / current_pos histories against the specification

    [m_run v drounds key nonce ops] runs the model of the cipher type (constructor, Buffer
    wrapper with lazy fill / wide path / tail, seek32/seek64, the real block producers) on a
    history; [spec_block_fn] reads nothing but the block counter from a state, the key stream is
    [Spec.ChaCha.spec_block] of the layout; [machine_run] is the abstract position machine
    written with Spec/ChaCha.v alone. [drounds] is arbitrary (4/6/10 are the shipped aliases). *)
Theorem C01_refill_at_counter_eq_spec_block :
  forall v drounds key nonce,
    length key = 32%nat -> Forall is_byte nonce ->
    length nonce = (match v with VDjb => 8 | VIetf => 12 | VX => 24 end)%nat ->
    forall k, k < Spec.ChaCha.blocks_of (layout_of v) ->
    fst (refill (block_state v drounds key nonce k) drounds)
      = Spec.ChaCha.spec_block (layout_of v) drounds key nonce k.
Proof. exact refill_block_state_eq_spec. Qed.

Theorem C01_apply_keystream_eq_spec :
  forall v drounds key nonce ops,
    Forall is_byte key -> length key = 32%nat -> Forall is_byte nonce ->
    length nonce = (match v with VDjb => 8 | VIetf => 12 | VX => 24 end)%nat ->
    Forall op_ok ops ->
    m_run v drounds key nonce ops
      = spec_run (spec_block_fn v drounds key nonce) (is12_of v) (init_of v drounds key nonce) 0 ops
    /\ existsb obs_panics (m_run v drounds key nonce ops) = false.
Proof. exact apply_keystream_eq_spec. Qed.

Theorem C01_ks_byte_eq_spec :
  forall v drounds key nonce,
    length key = 32%nat -> Forall is_byte nonce ->
    length nonce = (match v with VDjb => 8 | VIetf => 12 | VX => 24 end)%nat ->
    forall p, p < 64 * Spec.ChaCha.blocks_of (layout_of v) ->
    ks_byte (spec_block_fn v drounds key nonce) (is12_of v) (init_of v drounds key nonce) p
      = nth (N.to_nat (p mod 64)) (Spec.ChaCha.spec_block (layout_of v) drounds key nonce (p / 64)) 0.
Proof. exact ks_byte_spec_fn. Qed.

Theorem C01_model_history_eq_spec_machine :
  forall v drounds key nonce ops,
    Forall is_byte key -> length key = 32%nat -> Forall is_byte nonce ->
    length nonce = (match v with VDjb => 8 | VIetf => 12 | VX => 24 end)%nat ->
    Forall op_ok ops ->
    m_run v drounds key nonce ops = machine_run (layout_of v) drounds key nonce 0 ops
    /\ existsb obs_panics (m_run v drounds key nonce ops) = false.
Proof. exact model_history_eq_spec_machine. Qed.

Theorem C01_seek_apply_after_history_eq_spec :
  forall v drounds key nonce pre p data,
    Forall is_byte key -> length key = 32%nat -> Forall is_byte nonce ->
    length nonce = (match v with VDjb => 8 | VIetf => 12 | VX => 24 end)%nat ->
    Forall op_ok pre -> N.of_nat (length data) < 2 ^ 64 ->
    p < 2 ^ 64 -> p + N.of_nat (length data) <= 64 * Spec.ChaCha.blocks_of (layout_of v) ->
    m_run v drounds key nonce (pre ++ [OSeek (Z.of_N p); OApply data])
    = m_run v drounds key nonce pre
      ++ [ObsSeek ROk; ObsApply ROk (Spec.ChaCha.spec_apply (layout_of v) drounds key nonce p data)].
Proof. exact seek_apply_after_history_eq_spec. Qed.

Theorem C01_seek_apply_eq_spec :
  forall v drounds key nonce p data,
    Forall is_byte key -> length key = 32%nat -> Forall is_byte nonce ->
    length nonce = (match v with VDjb => 8 | VIetf => 12 | VX => 24 end)%nat ->
    N.of_nat (length data) < 2 ^ 64 ->
    p < 2 ^ 64 -> p + N.of_nat (length data) <= 64 * Spec.ChaCha.blocks_of (layout_of v) ->
    m_run v drounds key nonce [OSeek (Z.of_N p); OApply data]
    = [ObsSeek ROk; ObsApply ROk (Spec.ChaCha.spec_apply (layout_of v) drounds key nonce p data)].
Proof. exact seek_apply_eq_spec. Qed.

Theorem C01_spec_apply_bytes :
  forall v drounds key nonce p data i,
    Forall is_byte key -> length key = 32%nat -> Forall is_byte nonce ->
    length nonce = (match v with VDjb => 8 | VIetf => 12 | VX => 24 end)%nat ->
    p + N.of_nat (length data) <= 64 * Spec.ChaCha.blocks_of (layout_of v) -> (i < length data)%nat ->
    nth i (Spec.ChaCha.spec_apply (layout_of v) drounds key nonce p data) 0
    = N.lxor (nth i data 0)
        (nth (N.to_nat ((p + N.of_nat i) mod 64))
             (Spec.ChaCha.spec_block (layout_of v) drounds key nonce ((p + N.of_nat i) / 64)) 0).
Proof. exact spec_apply_nth. Qed.

Example C01_rfc7539_2_4_2_through_seek_apply :
  m_run VIetf 10 ex_key ex_nonce [OSeek 64; OApply ex_plain] = [ObsSeek ROk; ObsApply ROk ex_cipher]
  /\ Spec.ChaCha.spec_apply Spec.ChaCha.Ietf 10 ex_key ex_nonce 64 ex_plain = ex_cipher.
Proof. exact rfc7539_2_4_2_through_seek_apply. Qed.

Print Assumptions C01_refill_at_counter_eq_spec_block.
Print Assumptions C01_apply_keystream_eq_spec.
Print Assumptions C01_ks_byte_eq_spec.
Print Assumptions C01_model_history_eq_spec_machine.
Print Assumptions C01_seek_apply_after_history_eq_spec.
Print Assumptions C01_seek_apply_eq_spec.
Print Assumptions C01_spec_apply_bytes.
Print Assumptions C01_rfc7539_2_4_2_through_seek_apply.
