(** C01 — the ChaCha key stream equals the specified ChaCha function (block level).

    Model: Model/ChaChaGuts.v (guts.rs as written). Specification: Spec/ChaCha.v
    (index-wise quarter rounds, layouts, HChaCha), anchored by the published vectors
    in Spec/KAT_ChaCha.v.

    The statement about [apply_keystream] after [seek] for the seven cipher types is a
    corollary of the block-level theorems below and the history theorem of C02; its
    place is marked at the end of this file. *)
From Coq Require Import NArith List.
From CC Require Import Lib.Words Lib.Bytes Lib.ListX Spec.Lanes Model.ChaChaGuts.
From CC Require Import Proofs.ChaChaRounds Proofs.ChaChaGutsWords Proofs.ChaChaGuts Proofs.ChaChaGutsKat.
From CC Require Spec.ChaCha Spec.KAT_ChaCha.
Import ListNotations.
Local Open Scope N_scope.

(** one vectorised double round ([round]; [diagonalize]; [round]; [undiagonalize]) on a
    4-word-per-row state, with wrapping 32-bit add, xor and rotate-right by 16/20/24/25,
    is the specification's double round (quarter rounds on columns 0-4-8-12 … then on
    diagonals 0-5-10-15 …, rotate-left by 16/12/8/7) on the 16 words in row order *)
Theorem C01_dround_eq_spec :
  forall x : vstate,
    shape 4 x ->
    flat (dround add32 N.lxor rotr32 x)
      = Spec.ChaCha.double_round Spec.ChaCha.add32 N.lxor Spec.ChaCha.rotl32 (flat x)
    /\ shape 4 (dround add32 N.lxor rotr32 x).
Proof. exact dround_eq_spec. Qed.

(** the same for abstract word operations and for each of the four lanes of the wide
    (4-block) state: lane [i] of the wide state evolves like a narrow state *)
Theorem C01_wide_lanes_eq_narrow :
  forall (add xor rotr : N -> N -> N) (n : nat) (x : vstate),
    shape 16 x ->
    (forall i, In i [0; 1; 2; 3]%nat ->
       lane_state i (rounds add xor rotr n x) = rounds add xor rotr n (lane_state i x))
    /\ shape 16 (rounds add xor rotr n x).
Proof. exact rounds_wide. Qed.

(** [refill]: for every state of three 4-word vectors and EVERY number of double rounds
    (0 included) the 64 output bytes are the little-endian serialisation of the
    specification's block function (drounds double rounds, then feed-forward) on
    sigma ++ b ++ c ++ d *)
Theorem C01_refill_eq_block :
  forall (s : chacha) (drounds : nat),
    length (cb s) = 4%nat /\ length (cc s) = 4%nat /\ length (cd s) = 4%nat ->
    fst (refill s drounds)
      = bytes_le 4 (Spec.ChaCha.spec_block_words drounds (Spec.ChaCha.sigma ++ cb s ++ cc s ++ cd s)).
Proof. exact refill_eq_block. Qed.

(** [init_chacha] with an 8-byte nonce, then [seek64 ctr]: the djb layout
    (words 12,13 = 64-bit block counter, words 14,15 = nonce) *)
Theorem C01_init_layout_djb :
  forall key nonce ctr,
    length key = 32%nat -> length nonce = 8%nat ->
    Spec.ChaCha.sigma ++ cb (seek64 (init_chacha key nonce) ctr) ++ cc (seek64 (init_chacha key nonce) ctr)
      ++ cd (seek64 (init_chacha key nonce) ctr)
    = Spec.ChaCha.init_state Spec.ChaCha.Djb (words_le 4 key) (words_le 4 nonce) ctr.
Proof. exact init_layout_djb. Qed.

(** [init_chacha] with a 12-byte nonce, then [seek32 ctr]: the RFC 7539 layout
    (word 12 = 32-bit block counter, words 13-15 = nonce) *)
Theorem C01_init_layout_ietf :
  forall key nonce ctr,
    length key = 32%nat -> length nonce = 12%nat ->
    Spec.ChaCha.sigma ++ cb (seek32 (init_chacha key nonce) ctr) ++ cc (seek32 (init_chacha key nonce) ctr)
      ++ cd (seek32 (init_chacha key nonce) ctr)
    = Spec.ChaCha.init_state Spec.ChaCha.Ietf (words_le 4 key) (words_le 4 nonce) ctr.
Proof. exact init_layout_ietf. Qed.

(** [init_chacha_x]: key words = HChaCha(drounds) subkey of key and nonce[0..16]
    (words 0-3 and 12-15 after the rounds, no feed-forward), then the djb layout on
    nonce[16..24] *)
Theorem C01_init_layout_x :
  forall key nonce ctr drounds,
    length key = 32%nat -> length nonce = 24%nat ->
    Spec.ChaCha.sigma ++ cb (seek64 (init_chacha_x key nonce drounds) ctr)
      ++ cc (seek64 (init_chacha_x key nonce drounds) ctr)
      ++ cd (seek64 (init_chacha_x key nonce drounds) ctr)
    = Spec.ChaCha.init_state Spec.ChaCha.XDjb
        (Spec.ChaCha.spec_hchacha drounds key (firstn 16 nonce)) (words_le 4 (skipn 16 nonce)) ctr.
Proof. exact init_layout_x. Qed.

(** constructor, seek to block [ctr], one [refill] = block [ctr] of the specified key
    stream, for the three layouts and every round count *)
Theorem C01_block_djb :
  forall key nonce ctr drounds,
    length key = 32%nat -> length nonce = 8%nat ->
    fst (refill (seek64 (init_chacha key nonce) ctr) drounds)
      = Spec.ChaCha.spec_block Spec.ChaCha.Djb drounds key nonce ctr.
Proof. exact block_djb. Qed.

Theorem C01_block_ietf :
  forall key nonce ctr drounds,
    length key = 32%nat -> length nonce = 12%nat ->
    fst (refill (seek32 (init_chacha key nonce) ctr) drounds)
      = Spec.ChaCha.spec_block Spec.ChaCha.Ietf drounds key nonce ctr.
Proof. exact block_ietf. Qed.

Theorem C01_block_x :
  forall key nonce ctr drounds,
    length key = 32%nat -> length nonce = 24%nat ->
    fst (refill (seek64 (init_chacha_x key nonce drounds) ctr) drounds)
      = Spec.ChaCha.spec_block Spec.ChaCha.XDjb drounds key nonce ctr.
Proof. exact block_x. Qed.

(** the specification reproduces the published vectors *)
Definition C01_kats :=
  (Spec.KAT_ChaCha.rfc7539_block, Spec.KAT_ChaCha.rfc7539_encrypt, Spec.KAT_ChaCha.hchacha20_vector,
   kat_chacha20_tc1, kat_chacha12_tc1, kat_chacha8_tc1,
   kat_chacha20_repo, kat_chacha12_repo, kat_chacha8_repo, kat_xchacha20_repo).

Print Assumptions C01_dround_eq_spec.
Print Assumptions C01_wide_lanes_eq_narrow.
Print Assumptions C01_refill_eq_block.
Print Assumptions C01_init_layout_djb.
Print Assumptions C01_init_layout_ietf.
Print Assumptions C01_init_layout_x.
Print Assumptions C01_block_djb.
Print Assumptions C01_block_ietf.
Print Assumptions C01_block_x.
Print Assumptions C01_kats.

(* ------------------------------------------------------------------------------------
   PLACE FOR THE FINAL COROLLARY (added by the lead once Props/C02.v has the history
   theorem):

   Theorem C01_apply_keystream_eq_spec :
     for each of the seven type aliases (layout l, drounds in {4,6,10}), every key
     (32 bytes), nonce (8/12/24 bytes), every in-range byte position p and data:
       m_run variant drounds key nonce [OSeek p; OApply data]
         = [ObsSeek ROk; ObsApply ROk (Spec.ChaCha.spec_apply l drounds key nonce p data)]
     (and after any history) — from the C02 history theorem instantiated with
     blockfn := fun ctr => Spec.ChaCha.spec_block l drounds key nonce ctr, whose premise
     "refill of the state seeked to block ctr yields blockfn ctr" is C01_block_djb /
     C01_block_ietf / C01_block_x above, and "refill4 = four refills" is C14_refill4_eq_4_refills.
   ------------------------------------------------------------------------------------ *)
