(** C20 — every declared cargo feature combination builds and only selects implementations.

    PARTIAL by design.  "rustc accepts the configuration" is not a statement about an
    executable model; it is observed by the check (cargo check on each of the 70 lattice points,
    the lattice being kept equal to [Features.manifest] by a generated Coq file).  What is proved
    here is the second half: turning a feature on or off only selects an implementation.

    Full statement (kept for reference):

      C20_feature_selection_irrelevant :
        forall crate (p : point) (e : env) input,
          In p (points crate) ->
          meaning (select crate p e) input = meaning (select crate (default_point crate) e) input

    where [meaning] is the modelled Rust code the selection names.  Closed below for
    threefish-cipher and skein-hash (loop = unrolled rounds: C09), groestl-aesni (the three
    modules instantiate one source function), crypto-simd / ppv-null (nothing selected) and all
    features that occur in no cfg.  For blake-hash, jh-x86_64 and c2-chacha the selection only
    chooses the inputs (no_simd, std) of the ppv-lite86 dispatch macros; equality of the results
    is C03_dispatch_irrelevant, which needs "the six Machine instantiations of the generic body
    compute one function" for each body (C03/C12/C13, in progress): that hypothesis is what the
    [_partial] theorems leave open, together with ppv-lite86's own generic-vs-x86_64 module
    ([arch_irrelevant], C12/C13). *)
From Coq Require Import String List NArith Bool.
From CC Require Import Model.Features Proofs.Features Proofs.FeaturesCompose.
From CC Require Model.Threefish Model.Dispatch.
Import ListNotations.
Open Scope string_scope.

(** the modelled lattice: 4+4+2+1+2+32+16+8+1 = 70 points; `default` is one of them *)
Theorem C20_lattice :
  map (fun c => length (points c)) all_crates = [4; 4; 2; 1; 2; 32; 16; 8; 1]%nat
  /\ total_points manifest = 70%nat
  /\ forall c, In (default_point c) (points c).
Proof. exact (conj lattice_sizes (conj lattice_total default_is_point)). Qed.

(** features that occur in no cfg (blake simd; groestl lazy_static; chacha simd, cipher;
    ppv-lite86 std, simd; all of crypto-simd) select nothing, at any point, in any environment *)
Theorem C20_noop_features_select_nothing :
  forall c p f e, In p (points c) -> In f (noop c) -> select c (f :: p) e = select c p e.
Proof. exact noop_features_select_nothing. Qed.

(** Threefish (and Skein over it): every point, under any feature unification, computes the
    same encryption and decryption as the default point.  Corollary of C09_unroll_irrelevant. *)
Theorem C20_threefish_selection_irrelevant :
  forall cfg c, c = Threefish \/ c = Skein ->
  forall p e e' x, tf_run cfg (select c p e) x = tf_run cfg (select c (default_point c) e') x.
Proof. exact threefish_selection_irrelevant. Qed.

(** Groestl (autodetected module | statically chosen module, any CPU / target features) and the
    crates with nothing to select: whatever the implementation functions are *)
Theorem C20_groestl_selection_irrelevant :
  forall (I O : Type) via_dispatch arch_ops rounds (groestl_fn : I -> O) fixed p p' e e' x,
    run I O via_dispatch arch_ops rounds groestl_fn fixed Groestl p e x
    = run I O via_dispatch arch_ops rounds groestl_fn fixed Groestl p' e' x.
Proof. exact groestl_selection_irrelevant. Qed.

(** blake-hash, jh-x86_64, c2-chacha: for a generic body whose six instantiations agree on
    [dom], every lattice point x macro x CPU (with SSE2) x target-feature set returns the same
    value, and it is the reference value (no point reaches the unimplemented!() arm) *)
Theorem C20_dispatch_selection_irrelevant_partial :
  forall (X Y : Type) (algo : Dispatch.backend -> X -> Y) (ref : X -> Y) (dom : X -> Prop),
    (forall b x, dom x -> algo b x = ref x) ->
    forall c, c = Blake \/ c = JH \/ c = ChaCha ->
    forall m m' p p' e e' cpu cpu' tf tf' x,
      Dispatch.f_sse2 cpu = true -> Dispatch.f_sse2 cpu' = true -> dom x ->
      dispatch_run algo m cpu tf (select c p e) x = dispatch_run algo m' cpu' tf' (select c p' e') x
      /\ dispatch_run algo m cpu tf (select c p e) x = Some (ref x).
Proof. exact @dispatch_selection_irrelevant. Qed.

(** all nine crates at once, the meaning of the selected code being a parameter: any two points in
    any two environments agree, given the three facts owed by C03 (dispatch inputs), C12/C13
    (generic vs x86_64 module) and C09 (rounds; discharged in the next theorem) *)
Theorem C20_feature_selection_irrelevant_partial :
  forall (I O : Type) via_dispatch arch_ops rounds (groestl_fn : I -> O) fixed,
    dispatch_inputs_irrelevant I O via_dispatch -> arch_irrelevant I O arch_ops -> rounds_irrelevant I O rounds ->
    forall c p p' e e' x,
      run I O via_dispatch arch_ops rounds groestl_fn fixed c p e x
      = run I O via_dispatch arch_ops rounds groestl_fn fixed c p' e' x.
Proof. exact selection_irrelevant. Qed.

Theorem C20_feature_selection_irrelevant_tf_partial :
  forall (O : Type) (cfg : Threefish.cfg) via_dispatch arch_ops (groestl_fn : tf_input -> O) fixed post,
    dispatch_inputs_irrelevant tf_input O via_dispatch -> arch_irrelevant tf_input O arch_ops ->
    forall c p p' e e' x,
      run tf_input O via_dispatch arch_ops (fun _ l x => post (tf_rounds cfg l x)) groestl_fn fixed c p e x
      = run tf_input O via_dispatch arch_ops (fun _ l x => post (tf_rounds cfg l x)) groestl_fn fixed c p' e' x.
Proof. exact selection_irrelevant_tf. Qed.

(** non-vacuity: the lattice really selects (each distinguished selection is reached) and what
    the default points select *)
Definition C20_examples := (selections_reached, default_selections, closure_saturated).

Print Assumptions C20_lattice.
Print Assumptions C20_noop_features_select_nothing.
Print Assumptions C20_threefish_selection_irrelevant.
Print Assumptions C20_groestl_selection_irrelevant.
Print Assumptions C20_dispatch_selection_irrelevant_partial.
Print Assumptions C20_feature_selection_irrelevant_partial.
Print Assumptions C20_feature_selection_irrelevant_tf_partial.
Print Assumptions C20_examples.
