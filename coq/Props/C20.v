(** C20 — every declared cargo feature combination builds and only selects implementations.

    PARTIAL by design.  "rustc accepts the configuration" is not a statement about an
    executable model; it is observed by the check (cargo check on each of the 70 lattice points,
    the lattice being kept equal to [Features.manifest] by a generated Coq file).  What is proved
    here is the second half: turning a feature on or off only selects an implementation.

    Full statement (kept for reference):

      C20_feature_selection_irrelevant :
        forall crate (p : point) (e : env) input,
          In p (points crate) ->
          meaning (select crate p e) input = meaning (select crate (default_point crate) e) input

    where [meaning] is the modelled Rust code the selection names.  Closed below for
    threefish-cipher and skein-hash (loop = unrolled rounds: C09), crypto-simd / ppv-null (nothing
    selected) and all features that occur in no cfg.  For blake-hash, jh-x86_64 and c2-chacha the
    selection only chooses the inputs (no_simd, std) of the ppv-lite86 dispatch macros; the
    [_partial] theorems state that with the hypothesis "the six Machine instantiations of the
    generic body compute one function", and the [C20_*_feature_irrelevant] theorems at the end of
    this file discharge it with C03 (C03_real_blocks_are_model / C03_real_blocks_agree) for the
    whole block functions: ChaCha narrow and wide refill, BLAKE put_block (32/64) and finalize, JH f8.
    groestl-aesni: the three modules aes / ssse3 / sse2 are modelled as three entry points, each
    a call of the shared body, with the std autodetect and the no-std re-export chain
    (Model/FeaturesGroestl.v; [C20_groestl_*]); the earlier [C20_groestl_selection_irrelevant] is
    a statement about a definition that ignores the module and has no content of its own.
    Still open: ppv-lite86's own generic-vs-x86_64 module choice as a statement about the crate
    ([arch_irrelevant]); it is covered through C03's six machines for the algorithms above.
    Trusted: code generation under #[target_feature]. *)
From Coq Require Import String List NArith Bool.
From CC Require Import Model.Features Proofs.Features Proofs.FeaturesCompose.
From CC Require Model.Threefish Model.Dispatch.
Import ListNotations.
Open Scope string_scope.

(** the modelled lattice: 4+4+2+1+2+32+16+8+1 = 70 points; `default` is one of them *)
Theorem C20_lattice :
  map (fun c => length (points c)) all_crates = [4; 4; 2; 1; 2; 32; 16; 8; 1]%nat
  /\ total_points manifest = 70%nat
  /\ forall c, In (default_point c) (points c).
Proof. exact (conj lattice_sizes (conj lattice_total default_is_point)). Qed.

(** features that occur in no cfg (blake simd; groestl lazy_static; chacha simd, cipher;
    ppv-lite86 std, simd; all of crypto-simd) select nothing, at any point, in any environment *)
Theorem C20_noop_features_select_nothing :
  forall c p f e, In p (points c) -> In f (noop c) -> select c (f :: p) e = select c p e.
Proof. exact noop_features_select_nothing. Qed.

(** Threefish (and Skein over it): every point, under any feature unification, computes the
    same encryption and decryption as the default point.  Corollary of C09_unroll_irrelevant. *)
Theorem C20_threefish_selection_irrelevant :
  forall cfg c, c = Threefish \/ c = Skein ->
  forall p e e' x, tf_run cfg (select c p e) x = tf_run cfg (select c (default_point c) e') x.
Proof. exact threefish_selection_irrelevant. Qed.

(** Groestl (autodetected module | statically chosen module, any CPU / target features) and the
    crates with nothing to select: whatever the implementation functions are *)
Theorem C20_groestl_selection_irrelevant :
  forall (I O : Type) via_dispatch arch_ops rounds (groestl_fn : I -> O) fixed p p' e e' x,
    run I O via_dispatch arch_ops rounds groestl_fn fixed Groestl p e x
    = run I O via_dispatch arch_ops rounds groestl_fn fixed Groestl p' e' x.
Proof. exact groestl_selection_irrelevant. Qed.

(** blake-hash, jh-x86_64, c2-chacha: for a generic body whose six instantiations agree on
    [dom], every lattice point x macro x CPU (with SSE2) x target-feature set returns the same
    value, and it is the reference value (no point reaches the unimplemented!() arm) *)
Theorem C20_dispatch_selection_irrelevant_partial :
  forall (X Y : Type) (algo : Dispatch.backend -> X -> Y) (ref : X -> Y) (dom : X -> Prop),
    (forall b x, dom x -> algo b x = ref x) ->
    forall c, c = Blake \/ c = JH \/ c = ChaCha ->
    forall m m' p p' e e' cpu cpu' tf tf' x,
      Dispatch.f_sse2 cpu = true -> Dispatch.f_sse2 cpu' = true -> dom x ->
      dispatch_run algo m cpu tf (select c p e) x = dispatch_run algo m' cpu' tf' (select c p' e') x
      /\ dispatch_run algo m cpu tf (select c p e) x = Some (ref x).
Proof. exact @dispatch_selection_irrelevant. Qed.

(** all nine crates at once, the meaning of the selected code being a parameter: any two points in
    any two environments agree, given the three facts owed by C03 (dispatch inputs), C12/C13
    (generic vs x86_64 module) and C09 (rounds; discharged in the next theorem) *)
Theorem C20_feature_selection_irrelevant_partial :
  forall (I O : Type) via_dispatch arch_ops rounds (groestl_fn : I -> O) fixed,
    dispatch_inputs_irrelevant I O via_dispatch -> arch_irrelevant I O arch_ops -> rounds_irrelevant I O rounds ->
    forall c p p' e e' x,
      run I O via_dispatch arch_ops rounds groestl_fn fixed c p e x
      = run I O via_dispatch arch_ops rounds groestl_fn fixed c p' e' x.
Proof. exact selection_irrelevant. Qed.

Theorem C20_feature_selection_irrelevant_tf_partial :
  forall (O : Type) (cfg : Threefish.cfg) via_dispatch arch_ops (groestl_fn : tf_input -> O) fixed post,
    dispatch_inputs_irrelevant tf_input O via_dispatch -> arch_irrelevant tf_input O arch_ops ->
    forall c p p' e e' x,
      run tf_input O via_dispatch arch_ops (fun _ l x => post (tf_rounds cfg l x)) groestl_fn fixed c p e x
      = run tf_input O via_dispatch arch_ops (fun _ l x => post (tf_rounds cfg l x)) groestl_fn fixed c p' e' x.
Proof. exact selection_irrelevant_tf. Qed.

(** non-vacuity: the lattice really selects (each distinguished selection is reached) and what
    the default points select *)
Definition C20_examples := (selections_reached, default_selections, closure_saturated).

Print Assumptions C20_lattice.
Print Assumptions C20_noop_features_select_nothing.
Print Assumptions C20_threefish_selection_irrelevant.
Print Assumptions C20_groestl_selection_irrelevant.
Print Assumptions C20_dispatch_selection_irrelevant_partial.
Print Assumptions C20_feature_selection_irrelevant_partial.
Print Assumptions C20_feature_selection_irrelevant_tf_partial.
Print Assumptions C20_examples.

(** audit C20-F2 (work package audit-followups): the hypothesis of
    [C20_dispatch_selection_irrelevant_partial] DISCHARGED with C03 for the seven block functions that
    blake-hash, jh-x86_64 and c2-chacha run through the ppv-lite86 dispatch macros. Bodies = the whole
    block functions on the six real machines [real_xinst prof b]. Any two lattice points [p p'],
    environments [e e'] (feature unification), macros, CPUs reporting SSE2, target-feature sets and
    build profiles [prof prof'] return the same value, it is the executable model's (= the
    specification's by C01 / C04 / C06), and unimplemented!() is not reached. *)
From CC Require Import Lib.Words Lib.Bytes Model.MachineFull Proofs.MachineInstReal Proofs.MachineFullChaCha
  Proofs.MachineFullBlake Proofs.MachineFullReal.
From CC Require Model.PpvSoft Model.ChaChaGuts Model.Blake Model.JH Proofs.FollowupsSmall Model.FeaturesGroestl Proofs.FollowupsGroestl.
Local Open Scope N_scope.

Theorem C20_chacha_refill_wide_feature_irrelevant :
  forall prof prof' k m m' p p' e e' cpu cpu' tf tf' s,
    Dispatch.f_sse2 cpu = true -> Dispatch.f_sse2 cpu' = true -> cstore_ok s ->
    dispatch_run (fun b => xm_refill_wide (real_xinst prof b) k) m cpu tf (select ChaCha p e) s
    = dispatch_run (fun b => xm_refill_wide (real_xinst prof' b) k) m' cpu' tf' (select ChaCha p' e') s
    /\ dispatch_run (fun b => xm_refill_wide (real_xinst prof b) k) m cpu tf (select ChaCha p e) s
       = Some (fst (ChaChaGuts.refill_wide (cc_of s) k), store_of (snd (ChaChaGuts.refill_wide (cc_of s) k))).
Proof. exact FollowupsSmall.F_C20.chacha_refill_wide_feature_irrelevant. Qed.

(** [refill_narrow] has two dispatch sites (dispatch! for the rounds, dispatch_light128! for the rest);
    [narrow_run prof k cpu tf sel s] = [refill_narrow_on k (prof, no_simd, std, cpu, tf) s] for
    [sel = SelDispatch no_simd std _] *)
Theorem C20_chacha_refill_narrow_feature_irrelevant :
  forall prof prof' k p p' e e' cpu cpu' tf tf' s,
    Dispatch.f_sse2 cpu = true -> Dispatch.f_sse2 cpu' = true -> cstore_ok s ->
    FollowupsSmall.F_C20.narrow_run prof k cpu tf (select ChaCha p e) s
    = FollowupsSmall.F_C20.narrow_run prof' k cpu' tf' (select ChaCha p' e') s
    /\ FollowupsSmall.F_C20.narrow_run prof k cpu tf (select ChaCha p e) s
       = Some (fst (ChaChaGuts.refill (cc_of s) k), store_of (snd (ChaChaGuts.refill (cc_of s) k))).
Proof. exact FollowupsSmall.F_C20.chacha_refill_narrow_feature_irrelevant. Qed.

Theorem C20_blake_put_block32_feature_irrelevant :
  forall block t0 t1, Forall is_byte block -> t0 < 2 ^ 32 -> t1 < 2 ^ 32 ->
  forall prof prof' m m' p p' e e' cpu cpu' tf tf' h,
    Dispatch.f_sse2 cpu = true -> Dispatch.f_sse2 cpu' = true -> bytes_ok 16 (fst h) /\ bytes_ok 16 (snd h) ->
    dispatch_run (fun b h => xm_put_block32 (real_xinst prof b) h block (t0, t1)) m cpu tf (select Blake p e) h
    = dispatch_run (fun b h => xm_put_block32 (real_xinst prof' b) h block (t0, t1)) m' cpu' tf' (select Blake p' e') h
    /\ dispatch_run (fun b h => xm_put_block32 (real_xinst prof b) h block (t0, t1)) m cpu tf (select Blake p e) h
       = Some (h_bytes 4 (Blake.put_block32 (h_words 4 h) block (t0, t1))).
Proof. exact FollowupsSmall.F_C20.blake_put_block32_feature_irrelevant. Qed.

Theorem C20_blake_put_block64_feature_irrelevant :
  forall block t0 t1, Forall is_byte block -> t0 < 2 ^ 64 -> t1 < 2 ^ 64 ->
  forall prof prof' m m' p p' e e' cpu cpu' tf tf' h,
    Dispatch.f_sse2 cpu = true -> Dispatch.f_sse2 cpu' = true -> bytes_ok 32 (fst h) /\ bytes_ok 32 (snd h) ->
    dispatch_run (fun b h => xm_put_block64 (real_xinst prof b) h block (t0, t1)) m cpu tf (select Blake p e) h
    = dispatch_run (fun b h => xm_put_block64 (real_xinst prof' b) h block (t0, t1)) m' cpu' tf' (select Blake p' e') h
    /\ dispatch_run (fun b h => xm_put_block64 (real_xinst prof b) h block (t0, t1)) m cpu tf (select Blake p e) h
       = Some (h_bytes 8 (Blake.put_block64 (h_words 8 h) block (t0, t1))).
Proof. exact FollowupsSmall.F_C20.blake_put_block64_feature_irrelevant. Qed.

Theorem C20_blake_finalize_feature_irrelevant :
  forall prof prof' m m' p p' e e' cpu cpu' tf tf',
    Dispatch.f_sse2 cpu = true -> Dispatch.f_sse2 cpu' = true ->
    (forall h, bytes_ok 16 (fst h) /\ bytes_ok 16 (snd h) ->
       dispatch_run (fun b => xm_finalize32 (real_xinst prof b)) m cpu tf (select Blake p e) h
       = dispatch_run (fun b => xm_finalize32 (real_xinst prof' b)) m' cpu' tf' (select Blake p' e') h
       /\ dispatch_run (fun b => xm_finalize32 (real_xinst prof b)) m cpu tf (select Blake p e) h
          = Some (Blake.compressor_finalize 4 (h_words 4 h))) /\
    (forall h, bytes_ok 32 (fst h) /\ bytes_ok 32 (snd h) ->
       dispatch_run (fun b => xm_finalize64 (real_xinst prof b)) m cpu tf (select Blake p e) h
       = dispatch_run (fun b => xm_finalize64 (real_xinst prof' b)) m' cpu' tf' (select Blake p' e') h
       /\ dispatch_run (fun b => xm_finalize64 (real_xinst prof b)) m cpu tf (select Blake p e) h
          = Some (Blake.compressor_finalize 8 (h_words 8 h))).
Proof. exact FollowupsSmall.F_C20.blake_finalize_feature_irrelevant. Qed.

Theorem C20_jh_f8_feature_irrelevant :
  forall state, bytes_ok 128 state ->
  forall prof prof' m m' p p' e e' cpu cpu' tf tf' data,
    Dispatch.f_sse2 cpu = true -> Dispatch.f_sse2 cpu' = true -> bytes_ok 64 data ->
    dispatch_run (fun b => xm_f8 (real_xinst prof b) e8_sched state) m cpu tf (select JH p e) data
    = dispatch_run (fun b => xm_f8 (real_xinst prof' b) e8_sched state) m' cpu' tf' (select JH p' e') data
    /\ dispatch_run (fun b => xm_f8 (real_xinst prof b) e8_sched state) m cpu tf (select JH p e) data
       = Some (JH.m_f8 state data).
Proof. exact FollowupsSmall.F_C20.jh_f8_feature_irrelevant. Qed.

(** audit C20-F1: groestl-aesni with the THREE entry-point modules modelled separately
    (Model/FeaturesGroestl.v: each of the 18 wrappers is its own definition, a call of the shared
    [*_impl] body as in compressor.rs; name aliases by target features; the lazy_static
    [dispatch_init] chain under std; [static_dispatch] without). [point_exported S field p e cs ts] =
    what a call of the exported function [field] does at lattice point [p] in environment [e], [cs] /
    [ts] = SSE2 detected / promised. REPLACES [C20_groestl_selection_irrelevant] (which quantified over
    a single [groestl_fn] and held by reflexivity). TRUSTED, outside the model: what
    [#[target_feature(enable = ..)]] changes (code generation of the three copies). *)
Import FeaturesGroestl.

Theorem C20_groestl_entry_points_are_shared_body :
  forall S m,
    (forall cv data, e_tf512 (entries_of S m) cv data = Groestl.tf512 S cv data) /\
    (forall cv, e_of512 (entries_of S m) cv = Groestl.of512 S cv) /\
    (forall cv, e_init512 (entries_of S m) cv = Groestl.init512 cv) /\
    (forall cv data, e_tf1024 (entries_of S m) cv data = Groestl.tf1024 S cv data) /\
    (forall cv, e_of1024 (entries_of S m) cv = Groestl.of1024 S cv) /\
    (forall cv, e_init1024 (entries_of S m) cv = Groestl.init1024 cv).
Proof. exact FollowupsGroestl.F_C20G.entries_are_shared_body. Qed.

Theorem C20_groestl_point_selection_irrelevant :
  forall (S : N -> N) (T : Type) (field : entries -> T) p p' e e' cs cs' ts ts' f f',
    point_exported S field p e cs ts = Runs f -> point_exported S field p' e' cs' ts' = Runs f' ->
    f = f' /\ f = field (FollowupsGroestl.F_C20G.shared S).
Proof. exact FollowupsGroestl.F_C20G.groestl_point_selection_irrelevant. Qed.

Theorem C20_groestl_point_runs :
  forall (S : N -> N) (T : Type) (field : entries -> T) p e,
    point_exported S field p e true true = Runs (field (FollowupsGroestl.F_C20G.shared S)).
Proof. exact FollowupsGroestl.F_C20G.groestl_point_runs. Qed.

(** the std autodetect arm panics iff none of aes / ssse3 / sse2 is detected - on a CPU where AES-NI
    and SSSE3 imply SSE2: iff SSE2 is not detected; nothing is built iff no std and no target sse2 *)
Theorem C20_groestl_std_panics_iff :
  forall std c t,
    exported_module std c t = InitPanics <->
    std = true /\ c_aes c = false /\ c_ssse3 c = false /\ c_sse2 c = false.
Proof. exact FollowupsGroestl.F_C20G.std_panics_iff. Qed.

Theorem C20_groestl_std_panics_iff_no_sse2 :
  forall c t, (c_aes c = true -> c_sse2 c = true) /\ (c_ssse3 c = true -> c_sse2 c = true) ->
    (exported_module true c t = InitPanics <-> c_sse2 c = false).
Proof. exact FollowupsGroestl.F_C20G.std_panics_iff_no_sse2. Qed.

Theorem C20_groestl_not_built_iff :
  forall std c t, exported_module std c t = NotBuilt <-> std = false /\ t_sse2 t = false.
Proof. exact FollowupsGroestl.F_C20G.not_built_iff. Qed.

(** the four digests through the exported functions, in every configuration that runs: the
    specification (C07), for every message below the format limit *)
Theorem C20_groestl_digests_eq_spec :
  forall (std : bool) c t msg,
    (if std then c_sse2 c else t_sse2 t) = true ->
    (GroestlHash.fits 64 msg -> groestl224_on std c t msg = Runs (Spec.Groestl.groestl224 msg) /\
                                groestl256_on std c t msg = Runs (Spec.Groestl.groestl256 msg)) /\
    (GroestlHash.fits 128 msg -> groestl384_on std c t msg = Runs (Spec.Groestl.groestl384 msg) /\
                                 groestl512_on std c t msg = Runs (Spec.Groestl.groestl512 msg)).
Proof. exact FollowupsGroestl.F_C20G.digests_on_eq_spec. Qed.

Definition C20_followup_examples :=
  (FollowupsSmall.F_C20_Example.two_points, FollowupsGroestl.F_C20G.selections,
   FollowupsGroestl.F_C20G.a_changed_wrapper_is_detected, FollowupsGroestl.F_C20G.point_module_vs_features).

Print Assumptions C20_chacha_refill_wide_feature_irrelevant.
Print Assumptions C20_chacha_refill_narrow_feature_irrelevant.
Print Assumptions C20_blake_put_block32_feature_irrelevant.
Print Assumptions C20_blake_put_block64_feature_irrelevant.
Print Assumptions C20_blake_finalize_feature_irrelevant.
Print Assumptions C20_jh_f8_feature_irrelevant.
Print Assumptions C20_groestl_entry_points_are_shared_body.
Print Assumptions C20_groestl_point_selection_irrelevant.
Print Assumptions C20_groestl_point_runs.
Print Assumptions C20_groestl_std_panics_iff.
Print Assumptions C20_groestl_std_panics_iff_no_sse2.
Print Assumptions C20_groestl_not_built_iff.
Print Assumptions C20_groestl_digests_eq_spec.
Print Assumptions C20_followup_examples.
