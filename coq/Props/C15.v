(** C15 — ChaCha stream parameters round-trip, are isolated, and define stream equality.

    Model: Model/ChaChaGuts.v ([set_stream_param], [get_stream_param] return [None] where
    the Rust indexes [d] out of bounds, i.e. for a parameter >= 2: such parameters are
    outside the property, hence the precondition [p < 2]). [wf s]: b, c, d are four words
    below 2^32 each, which every [vec128_storage] is. *)
From Coq Require Import NArith List.
From CC Require Import Lib.Words Lib.Bytes Lib.ListX Spec.Lanes Model.ChaChaGuts.
From CC Require Import Proofs.ChaChaGutsWords Proofs.ChaChaGuts Proofs.ChaChaGutsParams.
From CC Require Spec.ChaCha.
Import ListNotations.
Local Open Scope N_scope.

(** setting parameter 0 or 1 never fails and keeps the state well-formed
    (so the implications below are not vacuous) *)
Theorem C15_set_param_ok :
  forall s p v, wf s -> p < 2 -> exists s', set_stream_param s p v = Some s' /\ wf s'.
Proof. exact set_param_ok. Qed.

(** set, then get the same parameter: the value comes back (full 64-bit range) *)
Theorem C15_get_set_param :
  forall s p v s', wf s -> p < 2 -> v < 2^64 ->
    set_stream_param s p v = Some s' -> get_stream_param s' p = Some v.
Proof. exact get_set_param. Qed.

(** the other parameter and the key are untouched *)
Theorem C15_set_param_isolated :
  forall s p v s', wf s -> p < 2 ->
    set_stream_param s p v = Some s' ->
    get_stream_param s' (1 - p) = get_stream_param s (1 - p) /\ cb s' = cb s /\ cc s' = cc s.
Proof. exact set_param_isolated. Qed.

(** parameter 0 is the block counter: setting it is [seek64] *)
Theorem C15_set_param0_eq_seek :
  forall s v, set_stream_param s 0 v = Some (seek64 s v).
Proof. exact set_param0_eq_seek. Qed.

(** parameter 1 is the stream id: setting it on a state made by [new] gives the state
    [new] makes from that id as the 8-byte little-endian nonce *)
Theorem C15_set_param1_eq_new :
  forall key nonce id, length key = 32%nat -> length nonce = 8%nat ->
    set_stream_param (init_chacha key nonce) 1 id = Some (init_chacha key (le_split 8 id)).
Proof. exact set_param1_eq_new. Qed.

(** both set, in either order, from ANY previous counter/id: the state is the one created
    directly with those values … *)
Theorem C15_set_params_eq_new :
  forall key nonce ctr id s1 s2, length key = 32%nat -> length nonce = 8%nat ->
    (set_stream_param (init_chacha key nonce) 1 id = Some s1 /\ set_stream_param s1 0 ctr = Some s2) \/
    (set_stream_param (init_chacha key nonce) 0 ctr = Some s1 /\ set_stream_param s1 1 id = Some s2) ->
    s2 = seek64 (init_chacha key (le_split 8 id)) ctr.
Proof. exact set_params_eq_new. Qed.

Theorem C15_set_both_eq_direct :
  forall s ctr id s1 s2, length (cd s) = 4%nat ->
    (set_stream_param s 1 id = Some s1 /\ set_stream_param s1 0 ctr = Some s2) \/
    (set_stream_param s 0 ctr = Some s1 /\ set_stream_param s1 1 id = Some s2) ->
    s2 = CC (cb s) (cc s) [ctr mod 2^32; (ctr / 2^32) mod 2^32; id mod 2^32; (id / 2^32) mod 2^32].
Proof. exact set_both_eq_direct. Qed.

(** … and the output that follows is the specified block for that key, stream id and
    counter, for every number of double rounds *)
Theorem C15_set_params_refill_eq_spec :
  forall key nonce ctr id s1 s2 drounds, length key = 32%nat -> length nonce = 8%nat ->
    (set_stream_param (init_chacha key nonce) 1 id = Some s1 /\ set_stream_param s1 0 ctr = Some s2) \/
    (set_stream_param (init_chacha key nonce) 0 ctr = Some s1 /\ set_stream_param s1 1 id = Some s2) ->
    fst (refill s2 drounds) = Spec.ChaCha.spec_block Spec.ChaCha.Djb drounds key (le_split 8 id) ctr.
Proof. exact set_params_refill_eq_spec. Qed.

(** [stream64_eq]: true exactly when the key words and the stream id agree
    (the 64-bit counter, words 0,1 of d, is ignored) … *)
Theorem C15_stream64_eq_iff :
  forall x y, wf x -> wf y ->
    (stream64_eq x y = true <->
     cb x = cb y /\ cc x = cc y /\ get_stream_param x 1 = get_stream_param y 1).
Proof. exact stream64_eq_iff. Qed.

(** … i.e. exactly when [y] is [x] moved to another 64-bit block count *)
Theorem C15_stream64_eq_iff_seek :
  forall x y, wf x -> wf y -> (stream64_eq x y = true <-> y = seek64 x (pos64 y)).
Proof. exact stream64_eq_iff_seek. Qed.

(** [stream32_eq]: true exactly when the key words and words 1,2,3 of d agree
    (the 32-bit counter, word 0 of d, is ignored) … *)
Theorem C15_stream32_eq_iff :
  forall x y, wf x -> wf y ->
    (stream32_eq x y = true <->
     cb x = cb y /\ cc x = cc y /\ nth 1 (cd x) 0 = nth 1 (cd y) 0 /\
     get_stream_param x 1 = get_stream_param y 1).
Proof. exact stream32_eq_iff. Qed.

Theorem C15_stream32_eq_iff_seek :
  forall x y, wf x -> wf y -> (stream32_eq x y = true <-> y = seek32 x (nth 0 (cd y) 0)).
Proof. exact stream32_eq_iff_seek. Qed.

(** the model's [None] for every parameter >= 2 is coarser than the Rust, whose index
    computation [(param << 1)] drops the top bit of the u32 (2^31, 2^31+1 alias 0, 1; all
    other values panic); the exact index computation agrees with the model on the
    parameters of the property *)
Theorem C15_param_index_agrees :
  forall s p v, p < 2 ->
    set_stream_param_u32 s p v = set_stream_param s p v /\
    get_stream_param_u32 s p = get_stream_param s p.
Proof. exact param_u32_agrees. Qed.

(** non-vacuity / discrimination on concrete well-formed states *)
Definition C15_examples := stream_eq_examples.

Print Assumptions C15_set_param_ok.
Print Assumptions C15_get_set_param.
Print Assumptions C15_set_param_isolated.
Print Assumptions C15_set_param0_eq_seek.
Print Assumptions C15_set_param1_eq_new.
Print Assumptions C15_set_params_eq_new.
Print Assumptions C15_set_both_eq_direct.
Print Assumptions C15_set_params_refill_eq_spec.
Print Assumptions C15_stream64_eq_iff.
Print Assumptions C15_stream64_eq_iff_seek.
Print Assumptions C15_stream32_eq_iff.
Print Assumptions C15_stream32_eq_iff_seek.
Print Assumptions C15_param_index_agrees.
Print Assumptions C15_examples.

(* ---- lines to add to Props/C15.v ---- *)
From CC Require Import Proofs.ChaChaGutsHistory.

(** * histories of the block API: [new], then any finite sequence of [refill] / [refill4] /
    [set_stream_param] / [get_stream_param] ([g_run], [None] = a failed operation), against the
    abstract machine [abstract_run] over (counter, stream id) written with Spec/ChaCha.v alone
    (definitions in Proofs/ChaChaGutsHistory.v; [gop_ok]: parameter < 2, value < 2^64) *)
Theorem C15_history_eq_abstract_machine :
  forall drounds key nonce ops,
    Forall is_byte key -> length key = 32%nat -> Forall is_byte nonce -> length nonce = 8%nat ->
    Forall gop_ok ops ->
    g_run drounds (init_chacha key nonce) ops
    = Some (fst (abstract_run drounds key (0, le_join nonce) ops),
            seek64 (init_chacha key (le_split 8 (snd (snd (abstract_run drounds key (0, le_join nonce) ops)))))
                   (fst (snd (abstract_run drounds key (0, le_join nonce) ops))))
    /\ fst (snd (abstract_run drounds key (0, le_join nonce) ops)) < 2^64
    /\ snd (snd (abstract_run drounds key (0, le_join nonce) ops)) < 2^64.
Proof. exact guts_history. Qed.

Theorem C15_history_never_fails :
  forall drounds key nonce ops,
    Forall is_byte key -> length key = 32%nat -> Forall is_byte nonce -> length nonce = 8%nat ->
    Forall gop_ok ops ->
    g_run drounds (init_chacha key nonce) ops <> None.
Proof. exact guts_history_never_fails. Qed.

(** values that are not a u64 are taken modulo 2^64 (only the parameter guard is left) *)
Theorem C15_history_any_value :
  forall drounds key nonce ops,
    Forall is_byte key -> length key = 32%nat -> Forall is_byte nonce -> length nonce = 8%nat ->
    Forall gop_ok_param ops ->
    let ar := abstract_run drounds key (0, le_join nonce) (map norm_op ops) in
    g_run drounds (init_chacha key nonce) ops
    = Some (fst ar, seek64 (init_chacha key (le_split 8 (snd (snd ar)))) (fst (snd ar))).
Proof. exact guts_history_any_value. Qed.

(** two histories that reach the same abstract (counter, id) are in the same model state and are
    followed by identical observations *)
Theorem C15_history_independence :
  forall drounds key nonce1 nonce2 ops1 ops2 rest,
    Forall is_byte key -> length key = 32%nat ->
    Forall is_byte nonce1 -> length nonce1 = 8%nat -> Forall is_byte nonce2 -> length nonce2 = 8%nat ->
    Forall gop_ok ops1 -> Forall gop_ok ops2 -> Forall gop_ok rest ->
    let a1 := abstract_run drounds key (0, le_join nonce1) ops1 in
    let a2 := abstract_run drounds key (0, le_join nonce2) ops2 in
    snd a1 = snd a2 ->
    let tail := abstract_run drounds key (snd a1) rest in
    g_run drounds (init_chacha key nonce1) ops1 = Some (fst a1, rep key (snd a1)) /\
    g_run drounds (init_chacha key nonce2) ops2 = Some (fst a2, rep key (snd a1)) /\
    g_run drounds (init_chacha key nonce1) (ops1 ++ rest) = Some (fst a1 ++ fst tail, rep key (snd tail)) /\
    g_run drounds (init_chacha key nonce2) (ops2 ++ rest) = Some (fst a2 ++ fst tail, rep key (snd tail)).
Proof. exact guts_history_independence. Qed.

(** [stream64_eq] of the states two histories (same key) end in: true iff the abstract ids agree *)
Theorem C15_history_stream64_eq :
  forall drounds key nonce1 nonce2 ops1 ops2 o1 o2 s1 s2,
    Forall is_byte key -> length key = 32%nat ->
    Forall is_byte nonce1 -> length nonce1 = 8%nat -> Forall is_byte nonce2 -> length nonce2 = 8%nat ->
    Forall gop_ok ops1 -> Forall gop_ok ops2 ->
    g_run drounds (init_chacha key nonce1) ops1 = Some (o1, s1) ->
    g_run drounds (init_chacha key nonce2) ops2 = Some (o2, s2) ->
    let f1 := snd (abstract_run drounds key (0, le_join nonce1) ops1) in
    let f2 := snd (abstract_run drounds key (0, le_join nonce2) ops2) in
    (stream64_eq s1 s2 = true <-> snd f1 = snd f2) /\
    (stream64_eq s1 s2 = true <-> s2 = seek64 s1 (fst f2)).
Proof. exact guts_history_stream64_eq. Qed.

(** one [refill4] across the wrap of the 64-bit counter: blocks 2^64-2, 2^64-1, 0, 1 *)
Theorem C15_history_refill4_wraps :
  forall drounds key nonce,
    Forall is_byte key -> length key = 32%nat -> Forall is_byte nonce -> length nonce = 8%nat ->
    exists sf,
    g_run drounds (init_chacha key nonce) [GSet 0 (2^64 - 2); GRefill4; GGet 0]
    = Some ([GUnit;
             GOut (Spec.ChaCha.spec_block Spec.ChaCha.Djb drounds key nonce (2^64 - 2) ++
                   Spec.ChaCha.spec_block Spec.ChaCha.Djb drounds key nonce (2^64 - 1) ++
                   Spec.ChaCha.spec_block Spec.ChaCha.Djb drounds key nonce 0 ++
                   Spec.ChaCha.spec_block Spec.ChaCha.Djb drounds key nonce 1);
             GVal 2], sf)
    /\ sf = seek64 (init_chacha key nonce) 2.
Proof. exact guts_refill4_wraps. Qed.

(** [new] with a 12-byte nonce: the same machine from counter = 2^32 * nonce word 0, id = nonce words 1,2 *)
Theorem C15_history_nonce12 :
  forall drounds key nonce ops,
    Forall is_byte key -> length key = 32%nat -> Forall is_byte nonce -> length nonce = 12%nat ->
    Forall gop_ok ops ->
    let st0 := (2^32 * le_join (firstn 4 nonce), le_join (skipn 4 nonce)) in
    g_run drounds (init_chacha key nonce) ops
    = Some (fst (abstract_run drounds key st0 ops), rep key (snd (abstract_run drounds key st0 ops)))
    /\ astate_ok (snd (abstract_run drounds key st0 ops)).
Proof. exact guts_history_nonce12. Qed.

Definition C15_history_example := guts_history_example.

Print Assumptions C15_history_eq_abstract_machine.
Print Assumptions C15_history_never_fails.
Print Assumptions C15_history_any_value.
Print Assumptions C15_history_independence.
Print Assumptions C15_history_stream64_eq.
Print Assumptions C15_history_refill4_wraps.
Print Assumptions C15_history_nonce12.
Print Assumptions C15_history_example.

(** audit C15-F1 (work package audit-leftovers, Proofs/LeftoversGuts.v): the EXACT behaviour of the index
    computation of guts.rs ([(param << 1)] on u32, [set_stream_param_u32] / [get_stream_param_u32] of
    Proofs/ChaChaGutsParams.v, [None] = index-out-of-bounds panic) on the whole u32 range.  The shift
    drops the top bit: the functions only see [param mod 2^31]; 2^31 and 2^31 + 1 behave as parameters
    0 and 1 (no panic); every other value in [2, 2^32) panics.  ([set_stream_param]/[get_stream_param]
    of Model/ChaChaGuts.v return [None] for every parameter >= 2, i.e. they are exact on
    [0, 2^31) and coarser only at the two aliases, which are outside the property.) *)
From CC Require Proofs.LeftoversGuts.

Theorem C15_param_u32_exact :
  forall s p v,
    set_stream_param_u32 s p v = set_stream_param s (p mod 2 ^ 31) v /\
    get_stream_param_u32 s p = get_stream_param s (p mod 2 ^ 31).
Proof. exact LeftoversGuts.param_u32_exact. Qed.

Theorem C15_param_u32_alias :
  forall s p v,
    p = 2 ^ 31 \/ p = 2 ^ 31 + 1 ->
    set_stream_param_u32 s p v = set_stream_param s (p - 2 ^ 31) v /\
    get_stream_param_u32 s p = get_stream_param s (p - 2 ^ 31) /\
    p - 2 ^ 31 < 2.
Proof. exact LeftoversGuts.param_u32_alias_exact. Qed.

Theorem C15_param_u32_panics :
  forall s p v,
    2 <= p -> p < 2 ^ 32 -> p <> 2 ^ 31 -> p <> 2 ^ 31 + 1 ->
    set_stream_param_u32 s p v = None /\ get_stream_param_u32 s p = None.
Proof. exact LeftoversGuts.param_u32_panics. Qed.

Theorem C15_param_u32_defined_iff :
  forall s p v,
    p < 2 ^ 32 ->
    (set_stream_param_u32 s p v <> None <-> (p = 0 \/ p = 1 \/ p = 2 ^ 31 \/ p = 2 ^ 31 + 1)) /\
    (get_stream_param_u32 s p <> None <-> (p = 0 \/ p = 1 \/ p = 2 ^ 31 \/ p = 2 ^ 31 + 1)).
Proof. exact LeftoversGuts.param_u32_defined_iff. Qed.

Print Assumptions C15_param_u32_exact.
Print Assumptions C15_param_u32_alias.
Print Assumptions C15_param_u32_panics.
Print Assumptions C15_param_u32_defined_iff.
