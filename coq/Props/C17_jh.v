(** C17 (JH part) — the byte counter and the bit length written into the final
    block are exact for every history of update calls with fewer than 2^61
    bytes in total (in particular across 2^29 bytes = 2^32 bits), in both build
    profiles, and the digest of such a history is the specified one. *)
From Coq Require Import NArith List.
From CC Require Import Lib.Words Lib.Bytes Model.BlockBuffer Model.JH.
From CC Require Import Proofs.JHPad Proofs.JHDigest.
From CC Require Spec.JH.
Import ListNotations.
Local Open Scope N_scope.

(** for every sequence of update calls: no overflow panic, [datalen] = bytes
    absorbed, the length field = 8 * bytes, finalize = the one-shot digest *)
Theorem C17_jh_len_exact : forall p v calls,
  N.of_nat (length (concat calls)) < 2 ^ 61 ->
  exists h, h_updates p (h_default v) calls = Some h
         /\ h_datalen h = N.of_nat (length (concat calls))
         /\ h_bitlen p h = Some (8 * N.of_nat (length (concat calls)))
         /\ h_finalize p v h = m_digest p v (concat calls).
Proof. exact updates_len_exact. Qed.

(** ... and the blocks compressed over the whole history are the specified padding *)
Theorem C17_jh_blocks_exact : forall p v calls,
  N.of_nat (length (concat calls)) < 2 ^ 61 ->
  exists h bl fin,
    h_updates p (h_default v) calls = Some h
    /\ h_state h = fold_left compressor_input bl (compressor_new (v_h0 v))
    /\ h_final_blocks h (8 * N.of_nat (length (concat calls))) = Some fin
    /\ bl ++ fin = Spec.JH.blocks_of (Spec.JH.pad (concat calls)).
Proof. exact updates_blocks_eq_spec. Qed.

(** corollary: digests of such histories conform (all four variants) *)
Theorem C17_jh_digest_conforms : forall p v size calls, variant_size v size ->
  Forall is_byte (concat calls) -> N.of_nat (length (concat calls)) < 2 ^ 61 ->
  exists h, h_updates p (h_default v) calls = Some h
         /\ h_datalen h = N.of_nat (length (concat calls))
         /\ h_bitlen p h = Some (8 * N.of_nat (length (concat calls)))
         /\ h_finalize p v h = Some (Spec.JH.jh size (concat calls)).
Proof. exact updates_digest_eq_spec. Qed.

(** the bound is tight *)
Theorem C17_jh_len_limit : forall st,
  h_bitlen Debug (Hasher st (bb_new 64) (2 ^ 61)) = None /\
  h_bitlen Release (Hasher st (bb_new 64) (2 ^ 61)) = Some 0.
Proof. exact bitlen_overflow_at_2_61. Qed.

Definition C17_jh_examples := (updates_example, digest_eq_spec_example).

Print Assumptions C17_jh_len_exact.
Print Assumptions C17_jh_blocks_exact.
Print Assumptions C17_jh_digest_conforms.
Print Assumptions C17_jh_len_limit.
Print Assumptions C17_jh_examples.

(* ---- c17-fromstate: digest continued from ANY entered state = specification ---- *)
From CC Require Import Proofs.JHFromState.

(** a state entered through the hook: any 128-byte chaining value [cv], byte counter [D], buffered
    bytes, with the consistency condition D mod 64 = number of buffered bytes (met by every state
    reached by hashing: [C17_jh_reached_state_consistent]); then any sequence of update calls and
    finalize, fewer than 2^61 bytes in total, either profile, any of the four variants: no overflow
    panic, exact counter and length field, and the digest is the specification continued from
    [cv] over buffered ++ data for a message of D + bytes-fed bytes *)
Theorem C17_jh_from_state_eq_spec : forall p v size cv D buffered calls,
  variant_size v size ->
  length cv = 128%nat -> Forall is_byte cv ->
  Forall is_byte buffered -> Forall is_byte (concat calls) ->
  D mod 64 = N.of_nat (length buffered) ->
  D + N.of_nat (length (concat calls)) < 2 ^ 61 ->
  exists h,
    h_updates p (Hasher (compressor_new cv)
                        (fst (input_block (bb_reset (h_buffer (h_default v))) buffered)) D) calls = Some h
    /\ h_datalen h = D + N.of_nat (length (concat calls))
    /\ h_bitlen p h = Some (8 * (D + N.of_nat (length (concat calls))))
    /\ h_finalize p v h
       = Some (Spec.JH.jh_tail size cv (D + N.of_nat (length (concat calls))) (buffered ++ concat calls)).
Proof. exact from_state_digest_eq_spec. Qed.

(** ... and the blocks compressed from the entered state on are the specified continued padding *)
Theorem C17_jh_from_state_blocks_exact : forall p v cv D buffered calls,
  D mod 64 = N.of_nat (length buffered) ->
  D + N.of_nat (length (concat calls)) < 2 ^ 61 ->
  exists h bl fin,
    h_updates p (Hasher (compressor_new cv)
                        (fst (input_block (bb_reset (h_buffer (h_default v))) buffered)) D) calls = Some h
    /\ h_state h = fold_left compressor_input bl (compressor_new cv)
    /\ h_bitlen p h = Some (8 * (D + N.of_nat (length (concat calls))))
    /\ h_final_blocks h (8 * (D + N.of_nat (length (concat calls)))) = Some fin
    /\ bl ++ fin = Spec.JH.blocks_of
                     (Spec.JH.pad_tail (D + N.of_nat (length (concat calls))) (buffered ++ concat calls)).
Proof. exact from_state_blocks_eq_spec. Qed.

(** the consistency condition holds in every state reached from [default] by update calls *)
Theorem C17_jh_reached_state_consistent : forall p v calls,
  N.of_nat (length (concat calls)) < 2 ^ 64 ->
  exists h, h_updates p (h_default v) calls = Some h
         /\ h_datalen h mod 64 = N.of_nat (length (Proofs.BlockBufferLazy.bb_content (h_buffer h)))
         /\ length (Proofs.BlockBufferLazy.bb_content (h_buffer h)) = bb_pos (h_buffer h)
         /\ bb_size (h_buffer h) = 64%nat.
Proof. exact reached_state_consistent. Qed.

Definition C17_jh_from_state_examples :=
  (reached_state_values, reached_state_from_state_theorem_applies,
   reached_state_continuation_is_whole_digest, entered_state_above_2_32_bytes, entered_state_limit).

Print Assumptions C17_jh_from_state_eq_spec.
Print Assumptions C17_jh_from_state_blocks_exact.
Print Assumptions C17_jh_reached_state_consistent.
Print Assumptions C17_jh_from_state_examples.
