(** C17 (Skein part) — the byte position in the tweak stays exact for every
    length up to the limit of the 64-bit position word [t.0], in particular
    across 2^32 bytes.  States far into a message are entered as the hook
    [verif_set_state] does: chaining value [x], position [off], FIRST flag,
    buffered bytes [bb_content b] (at most one block; a full block is a
    pending lazy block). *)
From Coq Require Import NArith List Bool Arith.
From CC Require Import Lib.Words Lib.Bytes Model.BlockBuffer Model.Skein.
From CC Require Import Proofs.BlockBufferLazy Proofs.SkeinProps.
From CC Require Spec.Skein.
Import ListNotations.
Module SS := Spec.Skein.
Local Open Scope N_scope.

(** With [total] = buffered + fed bytes and off + total < 2^64: no call panics
    (either profile); after the updates the position word is
    off + (number of blocks given to Threefish) * nb, the remaining
    1..nb bytes are buffered, position + buffered = off + total; after the
    final block the position word is exactly off + total (not wrapped). *)
Theorem C17_skein_pos_exact :
  forall prof nu v p,
    (v = skein256 /\ p = SS.skein256p) \/ (v = skein512 /\ p = SS.skein512p)
    \/ (v = skein1024 /\ p = SS.skein1024p) ->
  forall (x : list N) (off : N) (first : bool) (b : bb) (pieces : list (list N)),
    bb_wf b -> bb_size b = v_bytes v ->
    Forall is_byte (bb_content b) -> Forall (Forall is_byte) pieces ->
    let nb := v_bytes v in
    let total := (length (bb_content b) + length (concat pieces))%nat in
    let blocks := ((total - 1) / nb)%nat in
    off + N.of_nat total < 2 ^ 64 ->
    exists h' s'' buf,
      updates prof nu v
        (Hs (St off (N.shiftl SS.T_MSG 56 + (if first then N.shiftl 1 62 else 0) + 0) x) b) pieces = Ok h'
      /\ st_t0 (h_state h') = off + N.of_nat (blocks * nb)
      /\ bb_pos (h_buffer h') = (total - blocks * nb)%nat
      /\ st_t0 (h_state h') + N.of_nat (bb_pos (h_buffer h')) = off + N.of_nat total
      /\ finalize_message prof nu v h' = Ok (s'', buf)
      /\ st_t0 s'' = off + N.of_nat total /\ st_t0 s'' < 2 ^ 64.
Proof. exact skein_pos_exact_explicit. Qed.

(** ... and the digest is the specified one: Output of UBI continued at
    position [off] over buffered bytes ++ message. *)
Theorem C17_skein_from_state_eq_spec :
  forall prof nu v p,
    (v = skein256 /\ p = SS.skein256p) \/ (v = skein512 /\ p = SS.skein512p)
    \/ (v = skein1024 /\ p = SS.skein1024p) ->
  forall (x : list N) (off : N) (first : bool) (b : bb) (pieces : list (list N)) (n_out : nat),
    bb_wf b -> bb_size b = v_bytes v ->
    Forall is_byte (bb_content b) -> Forall (Forall is_byte) pieces ->
    let all := bb_content b ++ concat pieces in
    off + N.of_nat (length all) < 2 ^ 64 ->
    finish_pieces prof nu v
      (Hs (St off (N.shiftl SS.T_MSG 56 + (if first then N.shiftl 1 62 else 0) + 0) x) b) n_out pieces
    = Ok (SS.output p (SS.ubi_from p x SS.T_MSG off first all) n_out).
Proof. exact skein_from_state_eq_spec_explicit. Qed.

(** The bound is exact for the debug build: if the bytes absorbed take the
    position word to 2^64 or beyond, the digest computation panics (overflow
    check on [state.t.0 += byte_count_add]); the release build does not panic
    there (it wraps, and the digest is then not the Skein value: see the
    example below).  Skein 1.3 itself allows messages up to 2^96 - 1 bytes. *)
Theorem C17_skein_beyond_2_64 :
  forall nu v,
    v = skein256 \/ v = skein512 \/ v = skein1024 ->
  forall (x : list N) (off : N) (first : bool) (b : bb) (pieces : list (list N)) (n_out : nat),
    bb_wf b -> bb_size b = v_bytes v ->
    Forall is_byte (bb_content b) -> Forall (Forall is_byte) pieces ->
    let total := (length (bb_content b) + length (concat pieces))%nat in
    let h := Hs (St off (N.shiftl SS.T_MSG 56 + (if first then N.shiftl 1 62 else 0) + 0) x) b in
    off < 2 ^ 64 ->
    2 ^ 64 <= off + N.of_nat total ->
    finish_pieces Debug nu v h n_out pieces = Panic
    /\ exists r, bind (updates Release nu v h pieces) (finalize_message Release nu v) = Ok r.
Proof. exact skein_beyond_2_64_explicit. Qed.

(** non-vacuity: a state 32 bytes below 2^32 with a full block pending and a
    33-byte tail crosses 2^32, satisfies the hypotheses, and the computed
    digest is the specified one.  Beyond the bound: from 2^64 - 32 with a full
    block pending, one more byte takes the position to 2^64 — the debug build
    panics, the release build wraps [t.0] to 0 and returns a digest that is
    not the Skein value (see also C05_ubi_block_eq_spec, second half). *)
Definition C17_skein_examples := (pos_exact_crossing_2_32, overflow_at_2_64).

Print Assumptions C17_skein_pos_exact.
Print Assumptions C17_skein_from_state_eq_spec.
Print Assumptions C17_skein_beyond_2_64.
Print Assumptions C17_skein_examples.
