(** C06 — JH-224/256/384/512 digests conform to the JH specification for every message.

    Model: Model/JH.v (compressor.rs, consts.rs, lib.rs as written; 128-bit words are N).
    Spec:  Spec/JH.v  (nibble-oriented, from the published definition; KAT_JH.v).
    Every statement below is closed under the global context. *)
From Coq Require Import NArith List Arith.
From CC Require Import Lib.Words Lib.Bytes Model.BlockBuffer Model.JH.
From CC Require Import Proofs.JHTables Proofs.JHBits Proofs.JHRound Proofs.JHRounds
                       Proofs.JHF8 Proofs.JHPad Proofs.JHDigest.
From CC Require Spec.JH Spec.KAT_JH.
Import ListNotations.
Local Open Scope N_scope.

(** consts.rs: the four initial values are H(0) = F8(H(-1), 0) of the specification *)
Theorem C06_iv_table_eq_spec :
  JH224_H0 = Spec.JH.iv 224 /\ JH256_H0 = Spec.JH.iv 256 /\
  JH384_H0 = Spec.JH.iv 384 /\ JH512_H0 = Spec.JH.iv 512.
Proof. exact iv_table_eq_spec. Qed.

(** [ss]: for all 128-bit words and every bit position j, bit j of the four even
    (odd) output registers is S0/S1 — selected by bit j of the low (high) constant
    word — of bit j of the four even (odd) input registers; register 0 (1) is the
    most significant bit of the nibble *)
Theorem C06_ss_bitwise_eq_sbox : forall s k j, j < 128 ->
  Spec.JH.nib (N.testbit (y0 (ss s k)) j) (N.testbit (y2 (ss s k)) j)
              (N.testbit (y4 (ss s k)) j) (N.testbit (y6 (ss s k)) j)
  = Spec.JH.sbox (N.testbit (fst k) j)
      (Spec.JH.nib (N.testbit (y0 s) j) (N.testbit (y2 s) j) (N.testbit (y4 s) j) (N.testbit (y6 s) j))
  /\
  Spec.JH.nib (N.testbit (y1 (ss s k)) j) (N.testbit (y3 (ss s k)) j)
              (N.testbit (y5 (ss s k)) j) (N.testbit (y7 (ss s k)) j)
  = Spec.JH.sbox (N.testbit (snd k) j)
      (Spec.JH.nib (N.testbit (y1 s) j) (N.testbit (y3 s) j) (N.testbit (y5 s) j) (N.testbit (y7 s) j)).
Proof. exact ss_bitwise_eq_sbox. Qed.

(** [l]: at every bit position the (even, odd) nibbles of the output are L of the
    (even, odd) nibbles of the input *)
Theorem C06_l_bitwise_eq_L : forall y j,
  (Spec.JH.nib (N.testbit (y0 (l y)) j) (N.testbit (y2 (l y)) j) (N.testbit (y4 (l y)) j) (N.testbit (y6 (l y)) j),
   Spec.JH.nib (N.testbit (y1 (l y)) j) (N.testbit (y3 (l y)) j) (N.testbit (y5 (l y)) j) (N.testbit (y7 (l y)) j))
  = Spec.JH.L
      (Spec.JH.nib (N.testbit (y0 y) j) (N.testbit (y2 y) j) (N.testbit (y4 y) j) (N.testbit (y6 y) j))
      (Spec.JH.nib (N.testbit (y1 y) j) (N.testbit (y3 y) j) (N.testbit (y5 y) j) (N.testbit (y7 y) j)).
Proof. exact l_bitwise_eq_L. Qed.

(** [swap1 .. swap64] move bit j to bit j xor 2^k *)
Theorem C06_swap_eq_index_xor : forall k x j, (k < 7)%nat -> j < 128 ->
  N.testbit (swapk k x) j = N.testbit x (N.lxor j (swap_amount k)).
Proof. exact swapk_bit. Qed.

(** E8_BITSLICE_ROUNDCONSTANT: each of the 42 entries is the generated constant
    C_r = R6^r(C_0) of the specification, its 256 bits brought to the (parity,
    column) positions of round r mod 7 ([kc_of], from the position tables [posT]) *)
Theorem C06_bitslice_constants_eq_spec : forall r, (r < 42)%nat ->
  kcols (nth r rc_table (0, 0)) = kc_of (r mod 7)%nat (nth r Spec.JH.round_consts []).
Proof. exact constants_eq_spec. Qed.

(** one round: the body of unroll7! (S-boxes, L, swap of the odd registers) is R8
    of the specification with the round's constant, under the position maps of
    rounds r and r+1 (period 7) *)
Theorem C06_round_eq_spec : forall r y, (r < 42)%nat ->
  Spec.JH.R (gather (posT (r mod 7)%nat) (cols y)) (nth r Spec.JH.round_consts [])
  = gather (posT (S r mod 7)%nat) (cols (round (r mod 7)%nat (nth r rc_table (0, 0)) y)).
Proof. exact round_eq_spec. Qed.

(** the compression function, for every 1024-bit state and every 512-bit block *)
Theorem C06_f8_eq_spec : forall state block,
  length state = 128%nat -> Forall is_byte state ->
  length block = 64%nat -> Forall is_byte block ->
  m_f8 state block = Spec.JH.F8 state block.
Proof. exact f8_eq_spec. Qed.

(** the blocks fed to F8 are the specified padding (both branches of
    finalize_into_dirty), in both build profiles, below 2^61 bytes *)
Theorem C06_schedule_eq_spec : forall p v msg,
  N.of_nat (length msg) < 2 ^ 61 ->
  m_blocks p v msg = Some (Spec.JH.blocks_of (Spec.JH.pad msg)).
Proof. exact schedule_eq_spec. Qed.

(** the bound is the implementation's: at 2^61 bytes [datalen as u64 * 8] leaves 64
    bits — a build with overflow checks panics, one without writes length 0 *)
Theorem C06_length_field_limit : forall st,
  h_bitlen Debug (Hasher st (bb_new 64) (2 ^ 61)) = None /\
  h_bitlen Release (Hasher st (bb_new 64) (2 ^ 61)) = Some 0.
Proof. exact bitlen_overflow_at_2_61. Qed.

(** the four hashers, Digest::digest(msg), both build profiles *)
Theorem C06_jh224_eq_spec : forall p msg, Forall is_byte msg -> N.of_nat (length msg) < 2 ^ 61 ->
  m_digest p Jh224 msg = Some (Spec.JH.jh 224 msg).
Proof. intros p msg. apply digest_eq_spec. left. split; reflexivity. Qed.
Theorem C06_jh256_eq_spec : forall p msg, Forall is_byte msg -> N.of_nat (length msg) < 2 ^ 61 ->
  m_digest p Jh256 msg = Some (Spec.JH.jh 256 msg).
Proof. intros p msg. apply digest_eq_spec. right. left. split; reflexivity. Qed.
Theorem C06_jh384_eq_spec : forall p msg, Forall is_byte msg -> N.of_nat (length msg) < 2 ^ 61 ->
  m_digest p Jh384 msg = Some (Spec.JH.jh 384 msg).
Proof. intros p msg. apply digest_eq_spec. right. right. left. split; reflexivity. Qed.
Theorem C06_jh512_eq_spec : forall p msg, Forall is_byte msg -> N.of_nat (length msg) < 2 ^ 61 ->
  m_digest p Jh512 msg = Some (Spec.JH.jh 512 msg).
Proof. intros p msg. apply digest_eq_spec. right. right. right. split; reflexivity. Qed.

(** non-vacuity of the implications above *)
Definition C06_examples := (digest_eq_spec_example, schedule_aligned_example,
                            schedule_unaligned_example, ss_example).

(** the specification reproduces the NIST vectors and the published tables *)
Definition C06_kats :=
  (Spec.KAT_JH.jh224_empty, Spec.KAT_JH.jh256_empty, Spec.KAT_JH.jh384_empty, Spec.KAT_JH.jh512_empty,
   Spec.KAT_JH.jh224_len1, Spec.KAT_JH.jh256_len1, Spec.KAT_JH.jh384_len1, Spec.KAT_JH.jh512_len1,
   Spec.KAT_JH.jh224_len55, Spec.KAT_JH.jh256_len56, Spec.KAT_JH.jh384_len63, Spec.KAT_JH.jh512_len65,
   Spec.KAT_JH.jh224_len64, Spec.KAT_JH.jh256_len64, Spec.KAT_JH.jh384_len64, Spec.KAT_JH.jh512_len64,
   Spec.KAT_JH.jh224_len256, Spec.KAT_JH.jh384_len256,
   Spec.KAT_JH.jh256_len1516, Spec.KAT_JH.jh512_len886,
   Spec.KAT_JH.iv224_published, Spec.KAT_JH.iv256_published,
   Spec.KAT_JH.iv384_published, Spec.KAT_JH.iv512_published, Spec.KAT_JH.C1_published).

Print Assumptions C06_iv_table_eq_spec.
Print Assumptions C06_ss_bitwise_eq_sbox.
Print Assumptions C06_l_bitwise_eq_L.
Print Assumptions C06_swap_eq_index_xor.
Print Assumptions C06_bitslice_constants_eq_spec.
Print Assumptions C06_round_eq_spec.
Print Assumptions C06_f8_eq_spec.
Print Assumptions C06_schedule_eq_spec.
Print Assumptions C06_length_field_limit.
Print Assumptions C06_jh224_eq_spec.
Print Assumptions C06_jh256_eq_spec.
Print Assumptions C06_jh384_eq_spec.
Print Assumptions C06_jh512_eq_spec.
Print Assumptions C06_examples.
Print Assumptions C06_kats.
