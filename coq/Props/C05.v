(** C05 — Skein-256/512/1024 digests conform to Skein 1.3 for every message and
    every positive output length.

    Model: [Model/Skein.v] (hashes/skein/src/lib.rs as written, on top of
    [Model/BlockBuffer.v] and [Model/Threefish.v]); specification:
    [Spec/Skein.v] (UBI, configuration block, counter-mode output) over
    [Spec/Threefish.v].  The cipher enters through C09 (Props/C09.v).
    [prof] is the build profile (overflow checks on/off), [nu] the
    [no_unroll] feature of threefish-cipher.  A message is a list of bytes
    ([is_byte b := b < 256]); "any number of update calls" is a list of pieces
    whose concatenation is the message. *)
From Coq Require Import NArith List Bool Arith.
From CC Require Import Lib.Words Lib.Bytes Model.BlockBuffer Model.Skein.
From CC Require Import Proofs.BlockBufferLazy Proofs.SkeinProps.
From CC Require Spec.Skein Spec.KAT_Skein.
Import ListNotations.
Module SS := Spec.Skein.
Local Open Scope N_scope.

(** [process_block] is one UBI step [E(x, T, block) xor block] with the tweak
    [T = position + type 2^120 + first 2^126 + final 2^127], position = [t.0 +
    byte_count_add], and clears FIRST — provided the position stays below 2^64.
    At 2^64 and beyond the debug build panics and the release build wraps the
    position. *)
Theorem C05_ubi_block_eq_spec :
  forall prof nu v p,
    (v = skein256 /\ p = SS.skein256p) \/ (v = skein512 /\ p = SS.skein512p)
    \/ (v = skein1024 /\ p = SS.skein1024p) ->
  forall s block add ty (first final : bool),
    ty = SS.T_CFG \/ ty = SS.T_MSG \/ ty = SS.T_OUT ->
    st_t1 s = N.shiftl ty 56 + (if first then N.shiftl 1 62 else 0) + (if final then N.shiftl 1 63 else 0) ->
    length block = v_bytes v -> Forall is_byte block ->
    (st_t0 s + add < 2 ^ 64 ->
     process_block prof nu v s block add =
     Ok (St (st_t0 s + add)
            (N.shiftl ty 56 + 0 + (if final then N.shiftl 1 63 else 0))
            (SS.ubi_block p (st_x s) (SS.tweak (st_t0 s + add) ty first final) block)))
    /\ (2 ^ 64 <= st_t0 s + add ->
        process_block Debug nu v s block add = Panic
        /\ process_block Release nu v s block add =
           Ok (St ((st_t0 s + add) mod 2 ^ 64)
                  (N.shiftl ty 56 + 0 + (if final then N.shiftl 1 63 else 0))
                  (SS.ubi_block p (st_x s) (SS.tweak ((st_t0 s + add) mod 2 ^ 64) ty first final) block))).
Proof. exact ubi_block_eq_spec_explicit. Qed.

(** Lazy schedule. From a hasher whose state is (chaining value [x], position
    [off], type MSG, FIRST = [first]) and whose buffer holds [bb_content b], any
    sequence of [update] calls followed by the first half of [finalize]
    (FINAL flag, ZeroPadding, last block) performs exactly these UBI steps on
    [all] = buffered bytes ++ message, [len] = its length, [n] = (len-1)/nb:
    for i < n the full block i with position off+(i+1)nb, FIRST only for i = 0
    (and only if it was set), never FINAL; then once the held-back bytes
    [all[n nb ..]] (1..nb bytes, a full block when len is a positive multiple
    of nb; no bytes when len = 0) zero-padded to a block, with position
    off+len and FINAL (and FIRST if n = 0): for the empty message a single zero
    block with byte count 0.  The result is UBI of the specification.
    A fresh hasher is [b = bb_new nb], [off = 0], [first = true], [x = IV]. *)
Theorem C05_skein_lazy_schedule :
  forall prof nu v p,
    (v = skein256 /\ p = SS.skein256p) \/ (v = skein512 /\ p = SS.skein512p)
    \/ (v = skein1024 /\ p = SS.skein1024p) ->
  forall (x : list N) (off : N) (first : bool) (b : bb) (pieces : list (list N)),
    bb_wf b -> bb_size b = v_bytes v ->
    Forall is_byte (bb_content b) -> Forall (Forall is_byte) pieces ->
    let nb := v_bytes v in
    let all := bb_content b ++ concat pieces in
    let len := length all in
    let n := ((len - 1) / nb)%nat in
    off + N.of_nat len < 2 ^ 64 ->
    let step := fun (h : list N) (i : nat) =>
      SS.ubi_block p h (SS.tweak (off + N.of_nat ((i + 1) * nb)) SS.T_MSG ((i =? 0)%nat && first) false)
                   (firstn nb (skipn (i * nb) all)) in
    let last :=
      SS.ubi_block p (fold_left step (seq 0 n) x)
                   (SS.tweak (off + N.of_nat len) SS.T_MSG ((n =? 0)%nat && first) true)
                   (skipn (n * nb) all ++ repeat 0 (nb - (len - n * nb))) in
    exists buf,
      bind (updates prof nu v
              (Hs (St off (N.shiftl SS.T_MSG 56 + (if first then N.shiftl 1 62 else 0) + 0) x) b) pieces)
           (finalize_message prof nu v)
      = Ok (St (off + N.of_nat len) (N.shiftl SS.T_MSG 56 + 0 + N.shiftl 1 63) last, buf)
      /\ last = SS.ubi_from p x SS.T_MSG off first all.
Proof. exact skein_lazy_schedule_explicit. Qed.

(** [Default] processes the configuration block of the specification: the
    chaining value is [IV = UBI(0, config_string(8 N), T_cfg)], the tweak is
    (0, FIRST|MSG), the buffer is empty — for N*8 < 2^64; beyond, [N * 8]
    overflows (debug: panic). *)
Theorem C05_skein_default_eq_iv :
  forall prof nu v p,
    (v = skein256 /\ p = SS.skein256p) \/ (v = skein512 /\ p = SS.skein512p)
    \/ (v = skein1024 /\ p = SS.skein1024p) ->
  forall n_out : N,
    (n_out * 8 < 2 ^ 64 ->
     default prof nu v n_out =
     Ok (Hs (St 0 (N.shiftl SS.T_MSG 56 + N.shiftl 1 62 + 0) (SS.iv p (8 * n_out))) (bb_new (v_bytes v))))
    /\ (2 ^ 64 <= n_out * 8 -> default Debug nu v n_out = Panic).
Proof. exact skein_default_eq_iv_explicit. Qed.

(** the output loop is counter-mode [Output], truncated to [n_out] bytes *)
Theorem C05_skein_output_eq_spec :
  forall prof nu v p,
    (v = skein256 /\ p = SS.skein256p) \/ (v = skein512 /\ p = SS.skein512p)
    \/ (v = skein1024 /\ p = SS.skein1024p) ->
  forall (x : list N) (n_out : nat),
    let size := N.to_nat (v_bits v / 8) in
    output_loop prof nu v x size n_out (seq 0 ((n_out + size - 1) / size)) = Ok (SS.output p x n_out).
Proof. exact skein_output_eq_spec_explicit. Qed.

(** Conformance.  For every byte string, fed in any number of [update] calls,
    of fewer than 2^64 bytes (the width of the position word [t.0]; Skein 1.3
    itself allows up to 2^96 - 1 bytes), every output size 1 <= n with
    8 n < 2^64 (i.e. n < 2^61: the 64-bit output-bits field of the configuration
    block, computed as [N::to_u64() * 8]), both build profiles and both unroll
    settings: [Default; update ...; finalize] does not panic and returns the
    Skein 1.3 value. *)
Theorem C05_skein256_eq_spec :
  forall prof nu (pieces : list (list N)) (n : nat),
    Forall (Forall is_byte) pieces ->
    (1 <= n)%nat -> 8 * N.of_nat n < 2 ^ 64 ->
    N.of_nat (length (concat pieces)) < 2 ^ 64 ->
    digest_pieces prof nu skein256 n pieces = Ok (SS.skein SS.skein256p n (concat pieces)).
Proof.
  exact (fun prof nu => skein_eq_spec_explicit prof nu skein256 SS.skein256p
                          (or_introl (conj eq_refl eq_refl))).
Qed.

Theorem C05_skein512_eq_spec :
  forall prof nu (pieces : list (list N)) (n : nat),
    Forall (Forall is_byte) pieces ->
    (1 <= n)%nat -> 8 * N.of_nat n < 2 ^ 64 ->
    N.of_nat (length (concat pieces)) < 2 ^ 64 ->
    digest_pieces prof nu skein512 n pieces = Ok (SS.skein SS.skein512p n (concat pieces)).
Proof.
  exact (fun prof nu => skein_eq_spec_explicit prof nu skein512 SS.skein512p
                          (or_intror (or_introl (conj eq_refl eq_refl)))).
Qed.

Theorem C05_skein1024_eq_spec :
  forall prof nu (pieces : list (list N)) (n : nat),
    Forall (Forall is_byte) pieces ->
    (1 <= n)%nat -> 8 * N.of_nat n < 2 ^ 64 ->
    N.of_nat (length (concat pieces)) < 2 ^ 64 ->
    digest_pieces prof nu skein1024 n pieces = Ok (SS.skein SS.skein1024p n (concat pieces)).
Proof.
  exact (fun prof nu => skein_eq_spec_explicit prof nu skein1024 SS.skein1024p
                          (or_intror (or_intror (conj eq_refl eq_refl)))).
Qed.

(** one-shot [Digest::digest(msg)] *)
Theorem C05_skein_digest_eq_spec :
  forall prof nu v p,
    (v = skein256 /\ p = SS.skein256p) \/ (v = skein512 /\ p = SS.skein512p)
    \/ (v = skein1024 /\ p = SS.skein1024p) ->
  forall (msg : list N) (n : nat),
    Forall is_byte msg ->
    (1 <= n)%nat -> 8 * N.of_nat n < 2 ^ 64 ->
    N.of_nat (length msg) < 2 ^ 64 ->
    digest prof nu v n msg = Ok (SS.skein p n msg).
Proof. exact skein_digest_eq_spec_explicit. Qed.

(** [BlockBuffer::input_lazy]: emitted blocks followed by the bytes left in the
    buffer are the previously buffered bytes followed by the input *)
Theorem C05_input_lazy_reconstructs :
  forall b input,
    bb_wf b ->
    concat (snd (input_lazy b input)) ++ bb_content (fst (input_lazy b input))
    = bb_content b ++ input.
Proof. exact input_lazy_reconstructs. Qed.

(** feeding [a] then [c] emits the same blocks and leaves the same buffered
    bytes as feeding [a ++ c] *)
Theorem C05_input_lazy_app :
  forall b a c,
    bb_wf b ->
    let r1 := input_lazy b a in
    let r2 := input_lazy (fst r1) c in
    let r3 := input_lazy b (a ++ c) in
    snd r3 = snd r1 ++ snd r2 /\ bb_eqv (fst r2) (fst r3).
Proof. exact input_lazy_app. Qed.

(** the specification reproduces the three published empty-message vectors and
    the 18 vectors of the crate's test suite *)
Definition C05_kats :=
  (Spec.KAT_Skein.all_kats,
   (* Skein 1.3 paper, appendix C: independent of the crate's test data *)
   Spec.KAT_Skein.paper_skein256_ff, Spec.KAT_Skein.paper_skein256_32, Spec.KAT_Skein.paper_skein256_64,
   Spec.KAT_Skein.paper_skein512_ff, Spec.KAT_Skein.paper_skein512_64, Spec.KAT_Skein.paper_skein512_128,
   Spec.KAT_Skein.paper_skein1024_ff).

(** non-vacuity: the hypotheses of the conformance theorems are satisfiable, and
    the model itself (three update calls, all four profile/unroll settings)
    computes a vector of the test suite *)
Definition C05_examples := (eq_spec_hypotheses_satisfiable, model_kat_256_32_len17).

Print Assumptions C05_ubi_block_eq_spec.
Print Assumptions C05_skein_lazy_schedule.
Print Assumptions C05_skein_default_eq_iv.
Print Assumptions C05_skein_output_eq_spec.
Print Assumptions C05_skein256_eq_spec.
Print Assumptions C05_skein512_eq_spec.
Print Assumptions C05_skein1024_eq_spec.
Print Assumptions C05_skein_digest_eq_spec.
Print Assumptions C05_input_lazy_reconstructs.
Print Assumptions C05_input_lazy_app.
Print Assumptions C05_kats.
Print Assumptions C05_examples.
