(** C17 — hash length counters stay exact for very long messages and at word boundaries.

    The four families are proved in their own files, re-checked together with this one:
      Props/C17_blake.v    bit counter (t.0, t.1), carry at 2^32 resp. 2^64 bits, limit 2^64 / 2^128 bits
      Props/C17_groestl.v  u64 block counter and the big-endian count field, limit 2^64 blocks
      Props/C17_jh.v       usize byte counter, bit length field, limit 2^61 bytes (as implemented)
      Props/C17_skein.v    tweak position t.0, limit 2^64 bytes
    Each states exactness from ANY counter value (so for states entered through hook H2) and
    that the digest continued from such a state is the specified one.  This file pins the
    boundaries the property names as direct corollaries at the real word widths. *)
From Coq Require Import NArith List Arith Lia.
From CC Require Import Lib.Words Lib.Bytes Model.BlockBuffer Model.Blake Model.Groestl.
From CC Require Import Proofs.GroestlSchedule Proofs.GroestlCounter.
From CC Require Props.C17_blake Props.C17_groestl Props.C17_jh Props.C17_skein.
Import ListNotations.
Local Open Scope N_scope.

(** BLAKE-224/256: compressing the block that takes the bit count to 2^32 carries into t.1 *)
Theorem C17_blake256_carry_at_2_32 : forall k, k + 1 < 2 ^ 32 ->
  increase_count 32 (2 ^ 32 - 512, k) 64 = (0, k + 1).
Proof.
  intros k Hk. unfold increase_count. cbn [fst snd].
  change (wrap 32 (64 * 8)) with 512. change (2 ^ 32 - 512 + 512) with (2 ^ 32).
  change (N.shiftl 1 32 <=? 2 ^ 32) with true. cbv iota.
  change (wrap 32 (2 ^ 32)) with 0. f_equal. unfold addw. now apply wrap_small.
Qed.

(** BLAKE-384/512: the 2^64-bit low-word carry *)
Theorem C17_blake512_carry_at_2_64 : forall k, k + 1 < 2 ^ 64 ->
  increase_count 64 (2 ^ 64 - 1024, k) 128 = (0, k + 1).
Proof.
  intros k Hk. unfold increase_count. cbn [fst snd].
  change (wrap 64 (128 * 8)) with 1024. change (2 ^ 64 - 1024 + 1024) with (2 ^ 64).
  change (N.shiftl 1 64 <=? 2 ^ 64) with true. cbv iota.
  change (wrap 64 (2 ^ 64)) with 0. f_equal. unfold addw. now apply wrap_small.
Qed.

(** Groestl: a message that ends in block 2^8, 2^16 or 2^32 (any 0 < p < 64): all eight
    count bytes are right *)
Theorem C17_groestl_count_across_byte_boundaries : forall bs p msg, (8 < bs)%nat -> 0 < p -> p < 64 ->
  let prior := 2 ^ p - 1 in
  let out := finalize_dirty (comp_rec bs) (update (comp_rec bs) (H (bb_new bs) prior []) msg) in
  N.of_nat (Spec.Groestl.pad_blocks bs (length msg)) < 2 ^ 63 ->
  be_join (skipn (length out - 8) out) = 2 ^ p - 1 + N.of_nat (Spec.Groestl.pad_blocks bs (length msg)).
Proof.
  intros bs p msg Hbs Hp0 Hp prior out Hlt. subst out prior.
  apply final_count_exact; [exact Hbs|].
  assert (2 ^ p <= 2 ^ 63) by (apply N.pow_le_mono_r; lia).
  change (2 ^ 64) with (2 ^ 63 + 2 ^ 63). lia.
Qed.

Definition C17_families :=
  (Props.C17_blake.C17_blake_t_exact, Props.C17_blake.C17_blake_increase_count_exact,
   Props.C17_groestl.C17_groestl_count_exact, Props.C17_groestl.C17_groestl_final_count_exact,
   Props.C17_jh.C17_jh_len_exact, Props.C17_jh.C17_jh_digest_conforms,
   Props.C17_skein.C17_skein_pos_exact, Props.C17_skein.C17_skein_from_state_eq_spec).

Print Assumptions C17_blake256_carry_at_2_32.
Print Assumptions C17_blake512_carry_at_2_64.
Print Assumptions C17_groestl_count_across_byte_boundaries.
Print Assumptions C17_families.
