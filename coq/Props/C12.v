(** C12 — word-wise vector operations of ppv-lite86 equal their scalar lane meaning:
    x86-64 back ends (SSE2, SSSE3, SSE4.1/AVX, AVX2). Portable back end and the generic
    x2/x4 forwarding of soft.rs: Props/C12g.v.

    Reading the statements: a 128-bit vector is its register, 16 bytes in memory order
    ([wf 16 x]: 16 entries, each below 256); [words_le k x] is its view as little-endian
    [k]-byte words in lane order and [bytes_le k] the inverse; the right-hand sides are the
    lane-wise contract of Spec/Lanes.v. [s3] = SSSE3 available (pshufb forms) or not (shift-or /
    pshuflw forms). Every model operation is a total function, so the equalities also say
    that the operation returns. *)
From Coq Require Import NArith List.
From CC Require Import Lib.Words Lib.Bytes Model.Intrinsics Model.PpvSse Model.PpvAvx2 Spec.Lanes
  Proofs.PpvSseWords Proofs.PpvSseMove Proofs.PpvAvx2Words Proofs.PpvSseU128 Proofs.PpvSseSwapAll.
Import ListNotations.
Local Open Scope N_scope.

Theorem C12_sse_u32x4_add_lanewise : forall a b, wf 16 a -> wf 16 b ->
  u32x4_add a b = bytes_le 4 (v_add 32 (words_le 4 a) (words_le 4 b)).
Proof. exact sse_u32x4_add_lanewise. Qed.
Theorem C12_sse_u64x2_add_lanewise : forall a b, wf 16 a -> wf 16 b ->
  u64x2_add a b = bytes_le 8 (v_add 64 (words_le 8 a) (words_le 8 b)).
Proof. exact sse_u64x2_add_lanewise. Qed.

(** bit operations of all three 128-bit types ([k] = 4, 8, 16 bytes per word) *)
Theorem C12_sse_bitops_lanewise : forall k, In k [4; 8; 16]%nat -> forall a b, wf 16 a -> wf 16 b ->
  sse_xor a b = bytes_le k (v_xor (words_le k a) (words_le k b)) /\
  sse_and a b = bytes_le k (v_and (words_le k a) (words_le k b)) /\
  sse_or a b = bytes_le k (v_or (words_le k a) (words_le k b)) /\
  sse_not a = bytes_le k (v_not (8 * N.of_nat k) (words_le k a)) /\
  sse_andnot a b = bytes_le k (v_andnot (8 * N.of_nat k) (words_le k a) (words_le k b)).
Proof. exact sse_bitops_lanewise. Qed.

Theorem C12_sse_u32x4_rotr_lanewise : forall s3 k x,
  In k [7; 8; 11; 12; 16; 20; 24; 25] -> wf 16 x ->
  u32x4_rotr s3 k x = bytes_le 4 (v_rotr 32 k (words_le 4 x)).
Proof. exact sse_u32x4_rotr_lanewise. Qed.
Theorem C12_sse_u64x2_rotr_lanewise : forall s3 k x,
  In k [7; 8; 11; 12; 16; 20; 24; 25; 32] -> wf 16 x ->
  u64x2_rotr s3 k x = bytes_le 8 (v_rotr 64 k (words_le 8 x)).
Proof. exact sse_u64x2_rotr_lanewise. Qed.

Theorem C12_sse_u32x4_shuffle_is_perm : forall x, wf 16 x ->
  u32x4_shuffle1230 x = bytes_le 4 (shuffle1230 (words_le 4 x)) /\
  u32x4_shuffle2301 x = bytes_le 4 (shuffle2301 (words_le 4 x)) /\
  u32x4_shuffle3012 x = bytes_le 4 (shuffle3012 (words_le 4 x)).
Proof. exact sse_u32x4_shuffle_is_perm. Qed.

Theorem C12_sse_u32x4_bswap_lanewise : forall s3 x, wf 16 x ->
  u32x4_bswap s3 x = bytes_le 4 (v_bswap 32 (words_le 4 x)).
Proof. exact sse_u32x4_bswap_lanewise. Qed.
Theorem C12_sse_u64x2_bswap_lanewise : forall s3 x, wf 16 x ->
  u64x2_bswap s3 x = bytes_le 8 (v_bswap 64 (words_le 8 x)).
Proof. exact sse_u64x2_bswap_lanewise. Qed.
Theorem C12_sse_u128x1_bswap_lanewise : forall s3 x, wf 16 x ->
  u128x1_bswap s3 x = bytes_le 16 (v_bswap 128 (words_le 16 x)).
Proof. exact sse_u128x1_bswap_lanewise. Qed.

Theorem C12_sse_u64x4_shuffle_is_perm :
  forall s3 v,
  wf2 v ->
  img2 (u64x4_shuffle1230 s3 v) = bytes_le 8 (shuffle1230 (words_le 8 (img2 v))) /\
  img2 (u64x4_shuffle2301 v) = bytes_le 8 (shuffle2301 (words_le 8 (img2 v))) /\
  img2 (u64x4_shuffle3012 s3 v) = bytes_le 8 (shuffle3012 (words_le 8 (img2 v))).
Proof. exact sse_u64x4_shuffle_is_perm. Qed.

Theorem C12_avx2_add_lanewise :
  forall a b,
  wf 32 a -> wf 32 b ->
  avx2_add a b = bytes_le 4 (v_add 32 (words_le 4 a) (words_le 4 b)).
Proof. exact avx2_add_lanewise. Qed.

Theorem C12_avx2_bitops_lanewise :
  forall a b,
  wf 32 a -> wf 32 b ->
  avx2_xor a b = bytes_le 4 (v_xor (words_le 4 a) (words_le 4 b)) /\
  avx2_and a b = bytes_le 4 (v_and (words_le 4 a) (words_le 4 b)) /\
  avx2_or a b = bytes_le 4 (v_or (words_le 4 a) (words_le 4 b)) /\
  avx2_not a = bytes_le 4 (v_not 32 (words_le 4 a)) /\
  avx2_andnot a b = bytes_le 4 (v_andnot 32 (words_le 4 a) (words_le 4 b)).
Proof. exact avx2_bitops_lanewise. Qed.

Theorem C12_avx2_rotr_lanewise :
  forall k x,
  In k [7; 8; 11; 12; 16; 20; 24; 25] -> wf 32 x ->
  avx2_rotr k x = bytes_le 4 (v_rotr 32 k (words_le 4 x)).
Proof. exact avx2_rotr_lanewise. Qed.

Theorem C12_avx2_bswap_lanewise :
  forall x,
  wf 32 x ->
  avx2_bswap x = bytes_le 4 (v_bswap 32 (words_le 4 x)).
Proof. exact avx2_bswap_lanewise. Qed.

Theorem C12_avx2_lane_shuffle_is_perm :
  forall x,
  wf 32 x ->
  avx2_shuffle_lane_words1230 x = bytes_le 4 (per_lane4 shuffle1230 (words_le 4 x)) /\
  avx2_shuffle_lane_words2301 x = bytes_le 4 (per_lane4 shuffle2301 (words_le 4 x)) /\
  avx2_shuffle_lane_words3012 x = bytes_le 4 (per_lane4 shuffle3012 (words_le 4 x)).
Proof. exact avx2_lane_shuffle_is_perm. Qed.

Theorem C12_sse_u128x1_rotr_lanewise :
  forall k x,
  In k [7; 8; 11; 12; 16; 20; 24; 25; 32] -> wf 16 x ->
  u128x1_rotr k x = bytes_le 16 (v_rotr 128 k (words_le 16 x)).
Proof. exact sse_u128x1_rotr_lanewise. Qed.

Theorem C12_sse_u128x1_swap_is_bitgroup_swap :
  forall s3 n x,
  In n [1; 2; 4; 8; 16; 32; 64] -> wf 16 x ->
  u128x1_swap s3 n x = bytes_le 16 (v_swap n 128 (words_le 16 x)) /\
  (forall j, j < 128 ->
     N.testbit (le_join (u128x1_swap s3 n x)) j = N.testbit (le_join x) (N.lxor j n)).
Proof. exact sse_u128x1_swap_is_bitgroup_swap. Qed.

Print Assumptions C12_sse_u32x4_add_lanewise.
Print Assumptions C12_sse_u64x2_add_lanewise.
Print Assumptions C12_sse_bitops_lanewise.
Print Assumptions C12_sse_u32x4_rotr_lanewise.
Print Assumptions C12_sse_u64x2_rotr_lanewise.
Print Assumptions C12_sse_u32x4_shuffle_is_perm.
Print Assumptions C12_sse_u32x4_bswap_lanewise.
Print Assumptions C12_sse_u64x2_bswap_lanewise.
Print Assumptions C12_sse_u128x1_bswap_lanewise.
Print Assumptions C12_sse_u64x4_shuffle_is_perm.
Print Assumptions C12_avx2_add_lanewise.
Print Assumptions C12_avx2_bitops_lanewise.
Print Assumptions C12_avx2_rotr_lanewise.
Print Assumptions C12_avx2_bswap_lanewise.
Print Assumptions C12_avx2_lane_shuffle_is_perm.
Print Assumptions C12_sse_u128x1_rotr_lanewise.
Print Assumptions C12_sse_u128x1_swap_is_bitgroup_swap.

(* ---- added by work package ppv-wide: composed statements for the x86 wide types ---- *)
From CC Require Model.PpvSoft Model.PpvSoftAssign.
From CC Require Import Proofs.PpvWideLift Proofs.PpvWideSse Proofs.PpvWideAvx2 Proofs.PpvWideTie.

(** x86 wide types (soft.rs x2<W,G> / x4<W> over one-register types): a value is the list [v] of its
    registers, [wide16 n v] = [n] well-formed 16-byte registers ([n] = 2: u32x4x2_sse2, u64x2x2_sse2,
    u64x4_sse2, u128x2_sse2; [n] = 4: u32x4x4_sse2, u64x2x4_sse2, u128x4_sse2), [wide32 2 v] = two
    32-byte registers (u32x4x4_avx2); the byte image is [concat v]. [xn_unop f] / [xn_binop f] is the
    wrapper applied to the element method [f] (Model/PpvSse.v), proved equal to the soft.rs model
    (Model/PpvSoft.v, Model/PpvSoftAssign.v) in [C12_x86_soft_wrappers_agree]. *)
Theorem C12_sse_wide_add_lanewise : forall n a b, wide16 n a -> wide16 n b ->
  concat (xn_binop u32x4_add a b)
    = bytes_le 4 (v_add 32 (words_le 4 (concat a)) (words_le 4 (concat b))) /\
  concat (xn_binop u64x2_add a b)
    = bytes_le 8 (v_add 64 (words_le 8 (concat a)) (words_le 8 (concat b))).
Proof. exact sse_wide_add_lanewise. Qed.

Theorem C12_sse_wide_bitops_lanewise : forall k n a b, In k [4; 8; 16]%nat -> wide16 n a -> wide16 n b ->
  concat (xn_binop sse_xor a b) = bytes_le k (v_xor (words_le k (concat a)) (words_le k (concat b))) /\
  concat (xn_binop sse_and a b) = bytes_le k (v_and (words_le k (concat a)) (words_le k (concat b))) /\
  concat (xn_binop sse_or a b) = bytes_le k (v_or (words_le k (concat a)) (words_le k (concat b))) /\
  concat (xn_unop sse_not a) = bytes_le k (v_not (8 * N.of_nat k) (words_le k (concat a))) /\
  concat (xn_binop sse_andnot a b)
    = bytes_le k (v_andnot (8 * N.of_nat k) (words_le k (concat a)) (words_le k (concat b))).
Proof. exact sse_wide_bitops_lanewise. Qed.

Theorem C12_sse_wide_u32_rotr_lanewise : forall s3 k n v,
  In k [7; 8; 11; 12; 16; 20; 24; 25] -> wide16 n v ->
  concat (xn_unop (u32x4_rotr s3 k) v) = bytes_le 4 (v_rotr 32 k (words_le 4 (concat v))).
Proof. exact sse_wide_u32_rotr_lanewise. Qed.
Theorem C12_sse_wide_u64_rotr_lanewise : forall s3 k n v,
  In k [7; 8; 11; 12; 16; 20; 24; 25; 32] -> wide16 n v ->
  concat (xn_unop (u64x2_rotr s3 k) v) = bytes_le 8 (v_rotr 64 k (words_le 8 (concat v))).
Proof. exact sse_wide_u64_rotr_lanewise. Qed.
Theorem C12_sse_wide_u128_rotr_lanewise : forall k n v,
  In k [7; 8; 11; 12; 16; 20; 24; 25; 32] -> wide16 n v ->
  concat (xn_unop (u128x1_rotr k) v) = bytes_le 16 (v_rotr 128 k (words_le 16 (concat v))).
Proof. exact sse_wide_u128_rotr_lanewise. Qed.

Theorem C12_sse_wide_bswap_lanewise : forall s3 n v, wide16 n v ->
  concat (xn_unop (u32x4_bswap s3) v) = bytes_le 4 (v_bswap 32 (words_le 4 (concat v))) /\
  concat (xn_unop (u64x2_bswap s3) v) = bytes_le 8 (v_bswap 64 (words_le 8 (concat v))) /\
  concat (xn_unop (u128x1_bswap s3) v) = bytes_le 16 (v_bswap 128 (words_le 16 (concat v))).
Proof. exact sse_wide_bswap_lanewise. Qed.

Theorem C12_sse_wide_lane_shuffle_is_perm : forall n v, wide16 n v ->
  concat (xn_unop u32x4_shuffle1230 v) = bytes_le 4 (per_lane4 shuffle1230 (words_le 4 (concat v))) /\
  concat (xn_unop u32x4_shuffle2301 v) = bytes_le 4 (per_lane4 shuffle2301 (words_le 4 (concat v))) /\
  concat (xn_unop u32x4_shuffle3012 v) = bytes_le 4 (per_lane4 shuffle3012 (words_le 4 (concat v))).
Proof. exact sse_wide_lane_shuffle_is_perm. Qed.

Theorem C12_sse_wide_u128_swap_is_bitgroup_swap : forall s3 m n v,
  In m [1; 2; 4; 8; 16; 32; 64] -> wide16 n v ->
  concat (xn_unop (u128x1_swap s3 m) v) = bytes_le 16 (v_swap m 128 (words_le 16 (concat v))) /\
  (forall (i : nat) j, (i < n)%nat -> j < 128 ->
     N.testbit (nth i (words_le 16 (concat (xn_unop (u128x1_swap s3 m) v))) 0) j
     = N.testbit (nth i (words_le 16 (concat v)) 0) (N.lxor j m)).
Proof. exact sse_wide_u128_swap_is_bitgroup_swap. Qed.

(** u32x4x4_avx2 = x2<u32x4x2_avx2, G0> *)
Theorem C12_avx2_wide_add_lanewise : forall n a b, wide32 n a -> wide32 n b ->
  concat (xn_binop avx2_add a b) = bytes_le 4 (v_add 32 (words_le 4 (concat a)) (words_le 4 (concat b))).
Proof. exact avx2_wide_add_lanewise. Qed.
Theorem C12_avx2_wide_bitops_lanewise : forall n a b, wide32 n a -> wide32 n b ->
  concat (xn_binop avx2_xor a b) = bytes_le 4 (v_xor (words_le 4 (concat a)) (words_le 4 (concat b))) /\
  concat (xn_binop avx2_and a b) = bytes_le 4 (v_and (words_le 4 (concat a)) (words_le 4 (concat b))) /\
  concat (xn_binop avx2_or a b) = bytes_le 4 (v_or (words_le 4 (concat a)) (words_le 4 (concat b))) /\
  concat (xn_unop avx2_not a) = bytes_le 4 (v_not 32 (words_le 4 (concat a))) /\
  concat (xn_binop avx2_andnot a b) = bytes_le 4 (v_andnot 32 (words_le 4 (concat a)) (words_le 4 (concat b))).
Proof. exact avx2_wide_bitops_lanewise. Qed.
Theorem C12_avx2_wide_rotr_lanewise : forall k n v,
  In k [7; 8; 11; 12; 16; 20; 24; 25] -> wide32 n v ->
  concat (xn_unop (avx2_rotr k) v) = bytes_le 4 (v_rotr 32 k (words_le 4 (concat v))).
Proof. exact avx2_wide_rotr_lanewise. Qed.
Theorem C12_avx2_wide_bswap_lanewise : forall n v, wide32 n v ->
  concat (xn_unop avx2_bswap v) = bytes_le 4 (v_bswap 32 (words_le 4 (concat v))).
Proof. exact avx2_wide_bswap_lanewise. Qed.
Theorem C12_avx2_wide_lane_shuffle_is_perm : forall n v, wide32 n v ->
  concat (xn_unop avx2_shuffle_lane_words1230 v) = bytes_le 4 (per_lane4 shuffle1230 (words_le 4 (concat v))) /\
  concat (xn_unop avx2_shuffle_lane_words2301 v) = bytes_le 4 (per_lane4 shuffle2301 (words_le 4 (concat v))) /\
  concat (xn_unop avx2_shuffle_lane_words3012 v) = bytes_le 4 (per_lane4 shuffle3012 (words_le 4 (concat v))).
Proof. exact avx2_wide_lane_shuffle_is_perm. Qed.

(** the x86 copy of the soft.rs wrappers = the soft.rs model at the register element type, for every
    (total) element method [f]; [ok1 f], [ok2 f] = [f] as a method that returns; the assign macros
    (fwd_binop_assign_x2!/x4!, Model/PpvSoftAssign.v) with the element assign [*self = self.f(rhs)] *)
Theorem C12_x86_soft_wrappers_agree : forall (W : Type) (d : W),
  (forall (f : W -> W) v, length v = 2%nat ->
     PpvSoft.x2_unop d (PpvSoftAssign.ok1 f) v = PpvSoft.Ok (xn_unop f v)) /\
  (forall (f : W -> W) v, length v = 4%nat ->
     PpvSoft.x4_unop d (PpvSoftAssign.ok1 f) v = PpvSoft.Ok (xn_unop f v)) /\
  (forall (f : W -> W -> W) a b, length a = 2%nat -> length b = 2%nat ->
     PpvSoft.x2_binop d (PpvSoftAssign.ok2 f) a b = PpvSoft.Ok (xn_binop f a b) /\
     PpvSoftAssign.x2_binop_assign d (PpvSoftAssign.elem_assign (PpvSoftAssign.ok2 f)) a b
       = PpvSoft.Ok (xn_binop f a b)) /\
  (forall (f : W -> W -> W) a b, length a = 4%nat -> length b = 4%nat ->
     PpvSoft.x4_binop d (PpvSoftAssign.ok2 f) a b = PpvSoft.Ok (xn_binop f a b) /\
     PpvSoftAssign.x4_binop_assign d (PpvSoftAssign.elem_assign (PpvSoftAssign.ok2 f)) a b
       = PpvSoft.Ok (xn_binop f a b)).
Proof. exact x86_soft_ops_agree. Qed.

(** [+=], [^=], [|=], [&=] of the x86 wide types through the assign macros: lane-wise meaning *)
Theorem C12_sse_wide_assign_lanewise : forall k a b, In k [4; 8; 16]%nat ->
  (wide16 2 a -> wide16 2 b ->
   let asg f := PpvSoft.omapo (@concat N)
                  (PpvSoftAssign.x2_binop_assign [] (PpvSoftAssign.elem_assign (PpvSoftAssign.ok2 f)) a b) in
   asg u32x4_add = PpvSoft.Ok (bytes_le 4 (v_add 32 (words_le 4 (concat a)) (words_le 4 (concat b)))) /\
   asg u64x2_add = PpvSoft.Ok (bytes_le 8 (v_add 64 (words_le 8 (concat a)) (words_le 8 (concat b)))) /\
   asg sse_xor = PpvSoft.Ok (bytes_le k (v_xor (words_le k (concat a)) (words_le k (concat b)))) /\
   asg sse_or = PpvSoft.Ok (bytes_le k (v_or (words_le k (concat a)) (words_le k (concat b)))) /\
   asg sse_and = PpvSoft.Ok (bytes_le k (v_and (words_le k (concat a)) (words_le k (concat b))))) /\
  (wide16 4 a -> wide16 4 b ->
   let asg f := PpvSoft.omapo (@concat N)
                  (PpvSoftAssign.x4_binop_assign [] (PpvSoftAssign.elem_assign (PpvSoftAssign.ok2 f)) a b) in
   asg u32x4_add = PpvSoft.Ok (bytes_le 4 (v_add 32 (words_le 4 (concat a)) (words_le 4 (concat b)))) /\
   asg u64x2_add = PpvSoft.Ok (bytes_le 8 (v_add 64 (words_le 8 (concat a)) (words_le 8 (concat b)))) /\
   asg sse_xor = PpvSoft.Ok (bytes_le k (v_xor (words_le k (concat a)) (words_le k (concat b)))) /\
   asg sse_or = PpvSoft.Ok (bytes_le k (v_or (words_le k (concat a)) (words_le k (concat b)))) /\
   asg sse_and = PpvSoft.Ok (bytes_le k (v_and (words_le k (concat a)) (words_le k (concat b))))).
Proof. exact sse_wide_assign_lanewise. Qed.
Theorem C12_avx2_wide_assign_lanewise : forall a b, wide32 2 a -> wide32 2 b ->
  let asg f := PpvSoft.omapo (@concat N)
                 (PpvSoftAssign.x2_binop_assign [] (PpvSoftAssign.elem_assign (PpvSoftAssign.ok2 f)) a b) in
  asg avx2_add = PpvSoft.Ok (bytes_le 4 (v_add 32 (words_le 4 (concat a)) (words_le 4 (concat b)))) /\
  asg avx2_xor = PpvSoft.Ok (bytes_le 4 (v_xor (words_le 4 (concat a)) (words_le 4 (concat b)))) /\
  asg avx2_or = PpvSoft.Ok (bytes_le 4 (v_or (words_le 4 (concat a)) (words_le 4 (concat b)))) /\
  asg avx2_and = PpvSoft.Ok (bytes_le 4 (v_and (words_le 4 (concat a)) (words_le 4 (concat b)))).
Proof. exact avx2_wide_assign_lanewise. Qed.

Print Assumptions C12_sse_wide_add_lanewise.
Print Assumptions C12_sse_wide_bitops_lanewise.
Print Assumptions C12_sse_wide_u32_rotr_lanewise.
Print Assumptions C12_sse_wide_u64_rotr_lanewise.
Print Assumptions C12_sse_wide_u128_rotr_lanewise.
Print Assumptions C12_sse_wide_bswap_lanewise.
Print Assumptions C12_sse_wide_lane_shuffle_is_perm.
Print Assumptions C12_sse_wide_u128_swap_is_bitgroup_swap.
Print Assumptions C12_avx2_wide_add_lanewise.
Print Assumptions C12_avx2_wide_bitops_lanewise.
Print Assumptions C12_avx2_wide_rotr_lanewise.
Print Assumptions C12_avx2_wide_bswap_lanewise.
Print Assumptions C12_avx2_wide_lane_shuffle_is_perm.
Print Assumptions C12_x86_soft_wrappers_agree.
Print Assumptions C12_sse_wide_assign_lanewise.
Print Assumptions C12_avx2_wide_assign_lanewise.
