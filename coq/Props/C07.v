(** C07 — Groestl-224/256/384/512 digests conform to the Groestl specification
    (SHA-3 finalist version) for every message.

    Model: Model/Groestl.v + Model/GroestlIntrinsics.v — compressor.rs and lib.rs as
           written: 16-byte registers, the SSE2/SSSE3/AES-NI intrinsics the code issues
           with the masks and constants it uses, the transposed row layout, the
           BlockBuffer/len64_padding_be schedule with the wrapping u64 block counter.
    Spec:  Spec/Groestl.v (byte matrices, written from the published definition;
           S-box = inverse in GF(2^8) then affine map, Spec/AES.v; KAT_Groestl.v).
    Every statement below is closed under the global context. *)
From Coq Require Import NArith List Arith.
From CC Require Import Lib.Words Lib.Bytes Spec.AES Model.BlockBuffer
     Model.GroestlIntrinsics Model.Groestl.
From CC Require Import Proofs.GroestlLayout Proofs.GroestlMix Proofs.GroestlRound
     Proofs.GroestlCompress Proofs.GroestlSchedule Proofs.GroestlHash.
From CC Require Spec.Groestl Spec.KAT_Groestl.
Import ListNotations.
Local Open Scope N_scope.

(** * the S-box *)

(** the S-box table (and the tree the executable model uses) is the definition
    "multiplicative inverse in GF(2^8), then the affine map" *)
Theorem C07_sbox_table_is_definition :
  forall x, x < 256 -> nth (N.to_nat x) sbox_table 0 = sbox x.
Proof. exact sbox_table_correct. Qed.

Theorem C07_sbox_fast_is_definition : forall x, sbox_fast x = sbox x.
Proof. exact sbox_fast_correct. Qed.

Theorem C07_gf_inv_is_inverse : forall x, 0 < x -> x < 256 -> gf_mul x (gf_inv x) = 1.
Proof. exact gf_inv_correct. Qed.

(** * MixBytes *)

(** [mul2] (add + signed compare + mask 0x1b on 16 lanes) is multiplication by 02 *)
Theorem C07_mul2_eq_xtime : forall r, length r = 16%nat -> mul2 r = map xtime r.
Proof. exact mul2_eq_xtime. Qed.

(** * permutations, compression function, output transformation
      (for any substitution [S]; instantiated with the AES S-box below) *)

(** 512-bit state: the ten rounds on the interleaved P|Q rows are P and Q *)
Theorem C07_rounds_p_q_eq_spec : forall S a b, length a = 64%nat -> length b = 64%nat ->
  rounds_p_q S (rows2 a b) = rows2 (Spec.Groestl.P S Spec.Groestl.p512 a) (Spec.Groestl.Q S Spec.Groestl.p512 b).
Proof. exact rounds_p_q_eq. Qed.

(** 1024-bit state: the fourteen rounds are P resp. Q (ShiftBytesWide) *)
Theorem C07_rounds_p_eq_spec : forall S a, length a = 128%nat ->
  rounds_p S (L1024 a) = L1024 (Spec.Groestl.P S Spec.Groestl.p1024 a).
Proof. exact rounds_p_eq. Qed.
Theorem C07_rounds_q_eq_spec : forall S a, length a = 128%nat ->
  rounds_q S (L1024 a) = L1024 (Spec.Groestl.Q S Spec.Groestl.p1024 a).
Proof. exact rounds_q_eq. Qed.

(** tf512 / tf1024 are f(h,m) = P(h xor m) xor Q(m) xor h on the transposed chaining value *)
Theorem C07_tf512_eq_f : forall S h m, length h = 64%nat -> length m = 64%nat ->
  tf512 S (LA h) m = LA (Spec.Groestl.f S Spec.Groestl.p512 h m).
Proof. exact tf512_eq. Qed.
Theorem C07_tf1024_eq_f : forall S h m, length h = 128%nat -> length m = 128%nat ->
  tf1024 S (L1024 h) m = L1024 (Spec.Groestl.f S Spec.Groestl.p1024 h m).
Proof. exact tf1024_eq. Qed.

(** of512 / of1024 give the half of P(h) xor h the digests are cut from *)
Theorem C07_of512_eq_omega : forall S h, length h = 64%nat ->
  skipn 32 (concat (of512 S (LA h))) = skipn 32 (Spec.Groestl.omega S Spec.Groestl.p512 h).
Proof. exact of512_eq. Qed.
Theorem C07_of1024_eq_omega : forall S h, length h = 128%nat ->
  skipn 64 (concat (of1024 S (L1024 h))) = skipn 64 (Spec.Groestl.omega S Spec.Groestl.p1024 h).
Proof. exact of1024_eq. Qed.

(** * schedule: update/finalize feed exactly the padded message, for any compressor,
      from any buffered state with any block count (states entered through hook H2
      included), as long as the total stays below 2^64 blocks *)
Theorem C07_schedule_eq_spec : forall c h buffered tail,
  (8 < c_bytes c)%nat -> holds (c_bytes c) (h_buf h) buffered ->
  h_count h + N.of_nat (Spec.Groestl.pad_blocks (c_bytes c) (length buffered + length tail)) < 2^64 ->
  finalize_dirty c (update c h tail)
  = concat (c_of c (fold_left (c_tf c)
        (Spec.Groestl.blocks (c_bytes c) (Spec.Groestl.pad_from (c_bytes c) (h_count h) (buffered ++ tail)))
        (h_cv h))).
Proof. exact hasher_schedule. Qed.

(** the padded message itself (compressor that records its blocks) *)
Theorem C07_schedule_recorded : forall bs prior msg, (8 < bs)%nat ->
  prior + N.of_nat (Spec.Groestl.pad_blocks bs (length msg)) < 2^64 ->
  finalize_dirty (comp_rec bs) (update (comp_rec bs) (H (bb_new bs) prior []) msg)
  = Spec.Groestl.pad_from bs prior msg.
Proof. exact hasher_schedule_recorded. Qed.

(** * the four digests, for every message of fewer than 2^64 blocks (the format limit) *)
Theorem C07_groestl224_eq_spec : forall msg,
  N.of_nat (Spec.Groestl.pad_blocks 64 (length msg)) < 2 ^ 64 ->
  m_groestl224 msg = Spec.Groestl.groestl224 msg.
Proof. exact groestl224_eq_spec. Qed.

Theorem C07_groestl256_eq_spec : forall msg,
  N.of_nat (Spec.Groestl.pad_blocks 64 (length msg)) < 2 ^ 64 ->
  m_groestl256 msg = Spec.Groestl.groestl256 msg.
Proof. exact groestl256_eq_spec. Qed.

Theorem C07_groestl384_eq_spec : forall msg,
  N.of_nat (Spec.Groestl.pad_blocks 128 (length msg)) < 2 ^ 64 ->
  m_groestl384 msg = Spec.Groestl.groestl384 msg.
Proof. exact groestl384_eq_spec. Qed.

Theorem C07_groestl512_eq_spec : forall msg,
  N.of_nat (Spec.Groestl.pad_blocks 128 (length msg)) < 2 ^ 64 ->
  m_groestl512 msg = Spec.Groestl.groestl512 msg.
Proof. exact groestl512_eq_spec. Qed.

(** the specification reproduces the published vectors *)
Definition C07_kats :=
  (Spec.KAT_Groestl.kat224_empty, Spec.KAT_Groestl.kat224_len55, Spec.KAT_Groestl.kat224_len56,
   Spec.KAT_Groestl.kat224_len255,
   Spec.KAT_Groestl.kat256_empty, Spec.KAT_Groestl.kat256_len55, Spec.KAT_Groestl.kat256_len56,
   Spec.KAT_Groestl.kat256_len255,
   Spec.KAT_Groestl.kat384_empty, Spec.KAT_Groestl.kat384_len119, Spec.KAT_Groestl.kat384_len120,
   Spec.KAT_Groestl.kat384_len255,
   Spec.KAT_Groestl.kat512_empty, Spec.KAT_Groestl.kat512_len119, Spec.KAT_Groestl.kat512_len120,
   Spec.KAT_Groestl.kat512_len255).

(** non-vacuity: a message meeting the hypothesis, and the schedule on a concrete state *)
Definition C07_examples := (hasher_schedule_example, chain_ne_wrong_matrix).

Print Assumptions C07_sbox_table_is_definition.
Print Assumptions C07_sbox_fast_is_definition.
Print Assumptions C07_gf_inv_is_inverse.
Print Assumptions C07_mul2_eq_xtime.
Print Assumptions C07_rounds_p_q_eq_spec.
Print Assumptions C07_rounds_p_eq_spec.
Print Assumptions C07_rounds_q_eq_spec.
Print Assumptions C07_tf512_eq_f.
Print Assumptions C07_tf1024_eq_f.
Print Assumptions C07_of512_eq_omega.
Print Assumptions C07_of1024_eq_omega.
Print Assumptions C07_schedule_eq_spec.
Print Assumptions C07_schedule_recorded.
Print Assumptions C07_groestl224_eq_spec.
Print Assumptions C07_groestl256_eq_spec.
Print Assumptions C07_groestl384_eq_spec.
Print Assumptions C07_groestl512_eq_spec.
Print Assumptions C07_kats.
Print Assumptions C07_examples.
