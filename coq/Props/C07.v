(** C07 — Groestl-224/256/384/512 digests conform to the Groestl specification
    (SHA-3 finalist version) for every message.

    STATUS of this file: first delivery.  Proved so far: the S-box facts, the
    GF(2^8) facts and the known-answer vectors.  The conformance theorems
    (model = specification for every message) are being added; until they are
    here nothing below claims them.

    Full statements still to come (kept here so that they cannot be forgotten):
      C07_groestl256_eq_spec : forall msg, Forall is_byte msg ->
         m_groestl256 msg = Spec.Groestl.groestl256 msg      (same for 224/384/512) *)
From Coq Require Import NArith List.
From CC Require Import Lib.Words Lib.Bytes Spec.AES.
From CC Require Spec.Groestl Spec.KAT_Groestl.
Import ListNotations.
Local Open Scope N_scope.

(** the S-box table (and the tree the executable model uses) is the definition
    "multiplicative inverse in GF(2^8), then the affine map" *)
Theorem C07_sbox_table_is_definition :
  forall x, x < 256 -> nth (N.to_nat x) sbox_table 0 = sbox x.
Proof. exact sbox_table_correct. Qed.

Theorem C07_sbox_fast_is_definition : forall x, sbox_fast x = sbox x.
Proof. exact sbox_fast_correct. Qed.

Theorem C07_gf_inv_is_inverse : forall x, 0 < x -> x < 256 -> gf_mul x (gf_inv x) = 1.
Proof. exact gf_inv_correct. Qed.

(** the specification reproduces the published vectors *)
Definition C07_kats :=
  (Spec.KAT_Groestl.kat224_empty, Spec.KAT_Groestl.kat224_len55, Spec.KAT_Groestl.kat224_len56,
   Spec.KAT_Groestl.kat224_len255,
   Spec.KAT_Groestl.kat256_empty, Spec.KAT_Groestl.kat256_len55, Spec.KAT_Groestl.kat256_len56,
   Spec.KAT_Groestl.kat256_len255,
   Spec.KAT_Groestl.kat384_empty, Spec.KAT_Groestl.kat384_len119, Spec.KAT_Groestl.kat384_len120,
   Spec.KAT_Groestl.kat384_len255,
   Spec.KAT_Groestl.kat512_empty, Spec.KAT_Groestl.kat512_len119, Spec.KAT_Groestl.kat512_len120,
   Spec.KAT_Groestl.kat512_len255).

Print Assumptions C07_sbox_table_is_definition.
Print Assumptions C07_sbox_fast_is_definition.
Print Assumptions C07_gf_inv_is_inverse.
Print Assumptions C07_kats.
