(** C19 — ppv-null emulated vectors (u32x4, u64x4, u128x1, u128x2, u32x4x4) equal
    scalar lane-wise arithmetic and never panic.

    Conventions (Spec/NullLanes.v, Model/PpvNull.v): [run_op prof t o a b i] is the
    model of method [o] of type [t] compiled under build profile [prof] (Debug =
    overflow checks and debug assertions on, Release = both off); [a] = lanes of
    [self] (lane 0 first; u32x4x4: 16 lanes, part 0 first), [b] = lanes of the second
    vector operand / contents of the slice argument / (replace) the new value,
    [i] = scalar argument (rotation amount, lane index, splat value).  The
    result is [None] (no such method), [Some Panic], or [Some (Ok lanes)].
    [ok_vec t v]: [v] has exactly the lanes of [t], each below [2^width t].
    [lane_rotr w r x = x / 2^r + (x mod 2^r) * 2^(w-r)] (C19_rotr_meaning).

    Domain of the property ([in_domain], spelled out per theorem below): the
    method exists for the type; vectors and slices have exactly the type's lanes;
    lane indices < lane count; [rotate_words_right] amounts 0..3;
    [splat_rotate_right] amounts 1..bits-1; per-word [rotate_right] amounts are
    unrestricted (any value of the word type; reduced modulo bits).  What the code
    does outside (rotation by 0 or >= bits, index out of range, wrong slice
    length) is stated in the C19_outside_* theorems. *)
From Coq Require Import NArith List Bool Arith.
From CC Require Import Lib.Words Lib.ListX Spec.NullLanes Model.PpvNull.
From CC Require Import Proofs.PpvNullLanes Proofs.PpvNull.
Import ListNotations.
Local Open Scope N_scope.

(** master statement: on the whole domain, in both profiles, model = lane-wise spec *)
Theorem C19_model_eq_spec : forall p t o a b i,
  in_domain t o a b i = true -> run_op p t o a b i = Some (Ok (spec_op t o a b i)).
Proof. exact run_op_eq_spec. Qed.

Theorem C19_add_lanewise : forall p t o a b i,
  (o = OAdd \/ o = OAddAssign) -> has_op t o = true -> ok_vec t a -> ok_vec t b ->
  run_op p t o a b i = Some (Ok (map2 (fun x y => (x + y) mod 2 ^ width t) a b)).
Proof. exact add_lanewise. Qed.

Theorem C19_bitops_lanewise : forall p t a b i,
  ok_vec t a ->
  (forall o, o = OXor \/ o = OXorAssign -> has_op t o = true -> ok_vec t b ->
             run_op p t o a b i = Some (Ok (map2 N.lxor a b))) /\
  (has_op t OAnd = true -> ok_vec t b -> run_op p t OAnd a b i = Some (Ok (map2 N.land a b))) /\
  (has_op t OOr = true -> ok_vec t b -> run_op p t OOr a b i = Some (Ok (map2 N.lor a b))) /\
  (has_op t ONot = true ->
     run_op p t ONot a b i = Some (Ok (map (fun x => 2 ^ width t - 1 - x) a))) /\
  (has_op t OAndNot = true -> ok_vec t b ->
     run_op p t OAndNot a b i = Some (Ok (map2 (fun x y => N.land (2 ^ width t - 1 - x) y) a b))).
Proof. exact bitops_lanewise. Qed.

(** per-word rotation: u32x4/u64x4 take one amount per lane ([b]), u128x1/u128x2 one
    amount [i] of the word type; any amount, reduced modulo the width *)
Theorem C19_rotate_right_lanewise : forall p t a b i,
  ok_vec t a ->
  ((t = U32x4 \/ t = U64x4) -> ok_vec t b ->
     run_op p t ORotr a b i
     = Some (Ok (map2 (fun x r => lane_rotr (width t) (r mod width t) x) a b))) /\
  ((t = U128x1 \/ t = U128x2) -> i < 2 ^ 128 ->
     run_op p t ORotr a b i = Some (Ok (map (lane_rotr 128 (i mod 128)) a))).
Proof. exact rotate_right_lanewise. Qed.

Theorem C19_rotr_meaning : forall w r x,
  lane_rotr w r x = x / 2 ^ r + (x mod 2 ^ r) * 2 ^ (w - r).
Proof. exact lane_rotr_meaning. Qed.
(** ... and bit [i] of the rotated word is bit [(i + r) mod w] of the operand *)
Theorem C19_rotr_bits : forall w r x i, x < 2 ^ w -> r <= w ->
  N.testbit (lane_rotr w r x) i =
  (i <? w) && (if i + r <? w then N.testbit x (i + r) else N.testbit x (i + r - w)).
Proof. exact testbit_lane_rotr. Qed.

Theorem C19_splat_rotate_right : forall p t a b i,
  has_op t OSplatRotr = true -> ok_vec t a -> 1 <= i -> i < width t ->
  run_op p t OSplatRotr a b i = Some (Ok (map (lane_rotr (width t) i) a)).
Proof. exact splat_rotate_right_lanewise. Qed.

(** result lane [k] is the operand lane of the same group of four at position
    [(k - i) mod 4] (for u32x4/u64x4 there is one group) *)
Theorem C19_rotate_words_right : forall p t a b i,
  has_op t ORotWords = true -> ok_vec t a -> i < 4 ->
  exists r, run_op p t ORotWords a b i = Some (Ok r) /\ length r = nlanes t /\
    forall k, (k < nlanes t)%nat ->
      nth k r 0 = nth (4 * (k / 4) + (k mod 4 + 4 - N.to_nat i) mod 4)%nat a 0.
Proof. exact rotate_words_right_lanes. Qed.

(** [swapN] (u128x1): bit [j] of the result is bit [j xor N] of the operand *)
Theorem C19_swapN_is_bitgroup_swap : forall p o n x b i,
  In (o, n) [(OSwap1, 1); (OSwap2, 2); (OSwap4, 4); (OSwap8, 8); (OSwap16, 16); (OSwap32, 32);
             (OSwap64, 64)] ->
  x < 2 ^ 128 ->
  exists y, run_op p U128x1 o [x] b i = Some (Ok [y]) /\ y < 2 ^ 128 /\
            forall j, j < 128 -> N.testbit y j = N.testbit x (N.lxor j n).
Proof. exact swapN_bits. Qed.

(** constructors, loads, stores, splat, extract preserve values and order *)
Theorem C19_load_store_extract : forall p t a b i,
  (has_op t ONew = true -> ok_vec t a -> run_op p t ONew a b i = Some (Ok a)) /\
  (has_op t OIntoInner = true -> ok_vec t a -> run_op p t OIntoInner a b i = Some (Ok a)) /\
  (has_op t OIntoParts = true -> ok_vec t a -> run_op p t OIntoParts a b i = Some (Ok a)) /\
  (has_op t OLoad = true -> ok_vec t b -> run_op p t OLoad a b i = Some (Ok b)) /\
  (has_op t OStore = true -> ok_vec t a -> ok_vec t b -> run_op p t OStore a b i = Some (Ok a)) /\
  (has_op t OXorStore = true -> ok_vec t a -> ok_vec t b ->
     run_op p t OXorStore a b i = Some (Ok (map2 N.lxor b a))) /\
  (has_op t OSplat = true -> t <> U32x4x4 -> i < 2 ^ width t ->
     run_op p t OSplat a b i = Some (Ok (repeat i (nlanes t)))) /\
  (lanes_ok 32 4 a = true -> run_op p U32x4x4 OSplat a b i = Some (Ok (a ++ a ++ a ++ a))) /\
  (has_op t OExtract = true -> ok_vec t a -> i < N.of_nat (nlanes t) ->
     run_op p t OExtract a b i = Some (Ok [nth (N.to_nat i) a 0])).
Proof. exact moves_preserve. Qed.

(** [replace] changes exactly the selected lane, and [extract] reads it back *)
Theorem C19_replace_exactly_one_lane : forall p t a v b i,
  has_op t OReplace = true -> ok_vec t a -> v < 2 ^ width t -> i < N.of_nat (nlanes t) ->
  exists r, run_op p t OReplace a [v] i = Some (Ok r) /\ length r = nlanes t /\
            nth (N.to_nat i) r 0 = v /\
            (forall k, k <> N.to_nat i -> nth k r 0 = nth k a 0) /\
            run_op p t OExtract r b i = Some (Ok [v]).
Proof. exact replace_exactly_one. Qed.

(** u32x4x4: every operator / trait method is the u32x4 one applied to the four parts in
    order (for all operands, no domain restriction; a panic in any part is a panic) *)
Theorem C19_u32x4x4_forwards : forall p o a b i,
  In o [OXor; OOr; OAnd; OAdd; OXorAssign; OAddAssign; ORotWords; OSplatRotr] ->
  run_op p U32x4x4 o a b i =
  seq4 (run_op p U32x4 o (part 0 a) (part 0 b) i) (run_op p U32x4 o (part 1 a) (part 1 b) i)
       (run_op p U32x4 o (part 2 a) (part 2 b) i) (run_op p U32x4 o (part 3 a) (part 3 b) i).
Proof. exact u32x4x4_forwards. Qed.

(** no operation panics on the domain, in either profile *)
Theorem C19_total : forall p t o a b i,
  in_domain t o a b i = true ->
  run_op p t o a b i <> Some Panic /\ run_op p t o a b i <> None /\
  exists r, run_op p t o a b i = Some (Ok r).
Proof. exact total. Qed.

(** ** Outside the domain *)
Theorem C19_outside_splat_rotr_debug : forall t a b i,
  has_op t OSplatRotr = true -> i = 0 \/ width t <= i ->
  run_op Debug t OSplatRotr a b i = Some Panic.
Proof. exact outside_splat_rotr_debug. Qed.

Theorem C19_outside_splat_rotr_release_0 : forall t a b,
  has_op t OSplatRotr = true -> ok_vec t a -> run_op Release t OSplatRotr a b 0 = Some (Ok a).
Proof. exact outside_splat_rotr_release_0. Qed.

(** in unchecked builds every u32 amount (0, >= bits included) rotates by [i mod bits] *)
Theorem C19_outside_splat_rotr_release : forall t a b i,
  has_op t OSplatRotr = true -> ok_vec t a -> i < 2 ^ 32 ->
  run_op Release t OSplatRotr a b i = Some (Ok (map (lane_rotr (width t) (i mod width t)) a)).
Proof. exact outside_splat_rotr_release_any. Qed.

Theorem C19_outside_index_panics : forall p t a b i,
  (t = U32x4 \/ t = U64x4 \/ t = U128x2) -> N.of_nat (nlanes t) <= i ->
  run_op p t OExtract a b i = Some Panic /\
  ((t = U32x4 \/ t = U64x4) -> run_op p t OReplace a b i = Some Panic).
Proof. exact outside_index_panics. Qed.

Theorem C19_outside_u128x1_extract : forall p x b i, i <> 0 ->
  run_op p U128x1 OExtract [x] b i = match p with Debug => Some Panic | Release => Some (Ok [x]) end.
Proof. exact outside_u128x1_extract. Qed.

Theorem C19_outside_rot_words : forall t a b i,
  has_op t ORotWords = true ->
  run_op Release t ORotWords a b i = run_op Release t ORotWords a b (i mod 4) /\
  (4 <= i -> i < 2 ^ 32 -> run_op Debug t ORotWords a b i = Some Panic).
Proof. exact outside_rot_words_both. Qed.

(** further outside-domain behaviour on examples (rotate_words_right >= 4,
    splat_rotate_right >= bits in Release, slices of the wrong length), and the
    refutation of the property for the code as shipped before repair N1 *)
Definition C19_outside_examples :=
  (outside_rot_words, outside_splat_rotr_release, outside_load_lengths, n1_before_fix_refuted).

(** the modelled public surface: 71 (type, method) pairs; [run_op] is [Some _] exactly there *)
Definition C19_surface := (all_ops_complete, surface_count).

(** ** Non-vacuity: the domain is inhabited for every kind of method, and the
    theorems give the familiar values
    (Examples [nonvacuous_domain], [nonvacuous_values] in Proofs/PpvNull.v) *)
Definition C19_nonvacuous := (nonvacuous_domain, nonvacuous_values).

Print Assumptions C19_model_eq_spec.
Print Assumptions C19_add_lanewise.
Print Assumptions C19_bitops_lanewise.
Print Assumptions C19_rotate_right_lanewise.
Print Assumptions C19_rotr_meaning.
Print Assumptions C19_rotr_bits.
Print Assumptions C19_splat_rotate_right.
Print Assumptions C19_rotate_words_right.
Print Assumptions C19_swapN_is_bitgroup_swap.
Print Assumptions C19_load_store_extract.
Print Assumptions C19_replace_exactly_one_lane.
Print Assumptions C19_u32x4x4_forwards.
Print Assumptions C19_total.
Print Assumptions C19_outside_splat_rotr_debug.
Print Assumptions C19_outside_splat_rotr_release_0.
Print Assumptions C19_outside_splat_rotr_release.
Print Assumptions C19_outside_index_panics.
Print Assumptions C19_outside_u128x1_extract.
Print Assumptions C19_outside_rot_words.
Print Assumptions C19_outside_examples.
Print Assumptions C19_surface.
Print Assumptions C19_nonvacuous.

(** audit C19-F1 (work package audit-followups): the build profile as TWO independent switches
    ([-C overflow-checks], [-C debug-assertions]). [run_op2 q] (Proofs/FollowupsNull.v) = the dispatch
    tables of Model/PpvNull.v with each method applied to the switch it consults (no method consults
    both). The four combinations reduce to the two modelled profiles method by method, so every
    theorem above that is quantified over [p] holds for every [q] ([C19_two_switch_transfer]). *)
From CC Require Import Proofs.FollowupsNull.

Theorem C19_two_switch_reduction :
  forall oc da t o a b i,
    run_op2 (P2 oc da) t o a b i = run_op (prof (if uses_overflow o then oc else da)) t o a b i.
Proof. exact run_op2_mixed. Qed.

Theorem C19_two_switch_diagonal :
  forall t o a b i,
    run_op2 (P2 true true) t o a b i = run_op Debug t o a b i /\
    run_op2 (P2 false false) t o a b i = run_op Release t o a b i.
Proof. exact run_op2_diagonal. Qed.

Theorem C19_two_switch_transfer :
  forall t o a b i (P : option (res (list N)) -> Prop),
    (forall p, P (run_op p t o a b i)) -> forall q, P (run_op2 q t o a b i).
Proof. exact transfer. Qed.

Theorem C19_model_eq_spec_any_switches :
  forall q t o a b i, in_domain t o a b i = true -> run_op2 q t o a b i = Some (Ok (spec_op t o a b i)).
Proof. exact model2_eq_spec. Qed.

Theorem C19_total_any_switches :
  forall q t o a b i, in_domain t o a b i = true ->
    run_op2 q t o a b i <> Some Panic /\ run_op2 q t o a b i <> None /\ exists r, run_op2 q t o a b i = Some (Ok r).
Proof. exact total2. Qed.

(** outside the domain, by the switch that decides *)
Theorem C19_outside_splat_rotr_by_overflow_checks :
  forall q t a b i, has_op t OSplatRotr = true ->
    (overflow_checks q = true -> i = 0 \/ width t <= i -> run_op2 q t OSplatRotr a b i = Some Panic) /\
    (overflow_checks q = false -> ok_vec t a -> i < 2 ^ 32 ->
       run_op2 q t OSplatRotr a b i = Some (Ok (map (lane_rotr (width t) (i mod width t)) a))).
Proof. exact outside2_splat_rotr. Qed.

Theorem C19_outside_u128x1_extract_by_debug_assertions :
  forall q x b i, i <> 0 ->
    run_op2 q U128x1 OExtract [x] b i = if debug_assertions q then Some Panic else Some (Ok [x]).
Proof. exact outside2_u128x1_extract. Qed.

Theorem C19_outside_rot_words_by_debug_assertions :
  forall q t a b i, has_op t ORotWords = true ->
    (debug_assertions q = false -> run_op2 q t ORotWords a b i = run_op2 q t ORotWords a b (i mod 4)) /\
    (debug_assertions q = true -> 4 <= i -> i < 2 ^ 32 -> run_op2 q t ORotWords a b i = Some Panic).
Proof. exact outside2_rot_words. Qed.

Theorem C19_outside_index_panics_any_switches :
  forall q t a b i, (t = U32x4 \/ t = U64x4 \/ t = U128x2) -> N.of_nat (nlanes t) <= i ->
    run_op2 q t OExtract a b i = Some Panic /\
    ((t = U32x4 \/ t = U64x4) -> run_op2 q t OReplace a b i = Some Panic).
Proof. exact outside2_index_panics. Qed.

Definition C19_two_switch_examples := mixed_profiles_differ.

Print Assumptions C19_two_switch_reduction.
Print Assumptions C19_two_switch_diagonal.
Print Assumptions C19_two_switch_transfer.
Print Assumptions C19_model_eq_spec_any_switches.
Print Assumptions C19_total_any_switches.
Print Assumptions C19_outside_splat_rotr_by_overflow_checks.
Print Assumptions C19_outside_u128x1_extract_by_debug_assertions.
Print Assumptions C19_outside_rot_words_by_debug_assertions.
Print Assumptions C19_outside_index_panics_any_switches.
Print Assumptions C19_two_switch_examples.
