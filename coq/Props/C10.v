(** C10 — Threefish decryption is the exact inverse of encryption.
    Statements pinned with [Check]; proofs live in Proofs/. *)
From Coq Require Import NArith List.
From CC Require Import Lib.Words Lib.Bytes Model.Threefish Proofs.Threefish64.
Import ListNotations.

Theorem C10_decrypt_encrypt :
  forall c nu key t0 t1 block,
    is_tf_cfg c -> length block = (8 * n_w c)%nat -> Forall is_byte block ->
    m_decrypt c nu key t0 t1 (m_encrypt c nu key t0 t1 block) = block.
Proof. exact threefish_decrypt_encrypt. Qed.

Theorem C10_encrypt_decrypt :
  forall c nu key t0 t1 block,
    is_tf_cfg c -> length block = (8 * n_w c)%nat -> Forall is_byte block ->
    m_encrypt c nu key t0 t1 (m_decrypt c nu key t0 t1 block) = block.
Proof. exact threefish_encrypt_decrypt. Qed.

Theorem C10_encrypt_injective :
  forall c nu key t0 t1 b1 b2,
    is_tf_cfg c -> length b1 = (8 * n_w c)%nat -> length b2 = (8 * n_w c)%nat ->
    Forall is_byte b1 -> Forall is_byte b2 ->
    m_encrypt c nu key t0 t1 b1 = m_encrypt c nu key t0 t1 b2 -> b1 = b2.
Proof. exact threefish_encrypt_injective. Qed.

(** the hypotheses are satisfiable by the three shipped configurations *)
Example C10_nonvacuous :
  is_tf_cfg threefish256 /\ is_tf_cfg threefish512 /\ is_tf_cfg threefish1024.
Proof. exact (conj std_cfg_256 (conj std_cfg_512 std_cfg_1024)). Qed.

Print Assumptions C10_decrypt_encrypt.
Print Assumptions C10_encrypt_decrypt.
Print Assumptions C10_encrypt_injective.
Print Assumptions C10_nonvacuous.

(** audit C10-F1 (work package audit-followups): "bijection" stated literally - E and D map blocks to
    blocks, are onto the blocks, and are mutually inverse on them *)
From CC Require Proofs.FollowupsSmall.

Theorem C10_encrypt_wellformed :
  forall c nu key t0 t1 block,
    is_tf_cfg c -> length block = (8 * n_w c)%nat ->
    length (m_encrypt c nu key t0 t1 block) = (8 * n_w c)%nat /\ Forall is_byte (m_encrypt c nu key t0 t1 block).
Proof. exact FollowupsSmall.F_C10.encrypt_wellformed. Qed.

Theorem C10_decrypt_wellformed :
  forall c nu key t0 t1 block,
    is_tf_cfg c -> length block = (8 * n_w c)%nat ->
    length (m_decrypt c nu key t0 t1 block) = (8 * n_w c)%nat /\ Forall is_byte (m_decrypt c nu key t0 t1 block).
Proof. exact FollowupsSmall.F_C10.decrypt_wellformed. Qed.

Theorem C10_encrypt_surjective :
  forall c nu key t0 t1 b,
    is_tf_cfg c -> length b = (8 * n_w c)%nat -> Forall is_byte b ->
    exists a, length a = (8 * n_w c)%nat /\ Forall is_byte a /\ m_encrypt c nu key t0 t1 a = b.
Proof. exact FollowupsSmall.F_C10.encrypt_surjective. Qed.

Theorem C10_decrypt_surjective :
  forall c nu key t0 t1 b,
    is_tf_cfg c -> length b = (8 * n_w c)%nat -> Forall is_byte b ->
    exists a, length a = (8 * n_w c)%nat /\ Forall is_byte a /\ m_decrypt c nu key t0 t1 a = b.
Proof. exact FollowupsSmall.F_C10.decrypt_surjective. Qed.

Theorem C10_bijection :
  forall c nu key t0 t1, is_tf_cfg c ->
    let blk b := length b = (8 * n_w c)%nat /\ Forall is_byte b in
    (forall b, blk b -> blk (m_encrypt c nu key t0 t1 b)) /\
    (forall b, blk b -> blk (m_decrypt c nu key t0 t1 b)) /\
    (forall b, blk b -> m_decrypt c nu key t0 t1 (m_encrypt c nu key t0 t1 b) = b) /\
    (forall b, blk b -> m_encrypt c nu key t0 t1 (m_decrypt c nu key t0 t1 b) = b).
Proof. exact FollowupsSmall.F_C10.encrypt_bijection. Qed.

Print Assumptions C10_encrypt_wellformed.
Print Assumptions C10_decrypt_wellformed.
Print Assumptions C10_encrypt_surjective.
Print Assumptions C10_decrypt_surjective.
Print Assumptions C10_bijection.

(** audit C09-F1 / C10 (work package audit-leftovers): the word-level laws behind the inverse, with the
    textbook arithmetic operations of Proofs/LeftoversThreefish.v ([C09_arith_ops_textbook]):
    [inv_mix] undoes [mix] and conversely, and the model's [mix]/[inv_mix] are the arithmetic ones on words *)
From CC Require Proofs.LeftoversThreefish.

Theorem C10_mix_laws_arith :
  forall r x0 x1, (r < 64)%N -> (x0 < 2 ^ 64)%N -> (x1 < 2 ^ 64)%N ->
  inv_mix LeftoversThreefish.sub64a N.lxor LeftoversThreefish.rotr64a r
    (mix LeftoversThreefish.add64a N.lxor LeftoversThreefish.rotl64a r (x0, x1)) = (x0, x1)
  /\ mix LeftoversThreefish.add64a N.lxor LeftoversThreefish.rotl64a r
       (inv_mix LeftoversThreefish.sub64a N.lxor LeftoversThreefish.rotr64a r (x0, x1)) = (x0, x1)
  /\ mix add64 N.lxor rotl64 r (x0, x1)
     = mix LeftoversThreefish.add64a N.lxor LeftoversThreefish.rotl64a r (x0, x1)
  /\ inv_mix sub64 N.lxor rotr64 r (x0, x1)
     = inv_mix LeftoversThreefish.sub64a N.lxor LeftoversThreefish.rotr64a r (x0, x1).
Proof. exact LeftoversThreefish.mix_laws_arith. Qed.

Print Assumptions C10_mix_laws_arith.
