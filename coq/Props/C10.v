(** C10 — Threefish decryption is the exact inverse of encryption.
    Statements pinned with [Check]; proofs live in Proofs/. *)
From Coq Require Import NArith List.
From CC Require Import Lib.Words Lib.Bytes Model.Threefish Proofs.Threefish64.
Import ListNotations.

Theorem C10_decrypt_encrypt :
  forall c nu key t0 t1 block,
    is_tf_cfg c -> length block = (8 * n_w c)%nat -> Forall is_byte block ->
    m_decrypt c nu key t0 t1 (m_encrypt c nu key t0 t1 block) = block.
Proof. exact threefish_decrypt_encrypt. Qed.

Theorem C10_encrypt_decrypt :
  forall c nu key t0 t1 block,
    is_tf_cfg c -> length block = (8 * n_w c)%nat -> Forall is_byte block ->
    m_encrypt c nu key t0 t1 (m_decrypt c nu key t0 t1 block) = block.
Proof. exact threefish_encrypt_decrypt. Qed.

Theorem C10_encrypt_injective :
  forall c nu key t0 t1 b1 b2,
    is_tf_cfg c -> length b1 = (8 * n_w c)%nat -> length b2 = (8 * n_w c)%nat ->
    Forall is_byte b1 -> Forall is_byte b2 ->
    m_encrypt c nu key t0 t1 b1 = m_encrypt c nu key t0 t1 b2 -> b1 = b2.
Proof. exact threefish_encrypt_injective. Qed.

(** the hypotheses are satisfiable by the three shipped configurations *)
Example C10_nonvacuous :
  is_tf_cfg threefish256 /\ is_tf_cfg threefish512 /\ is_tf_cfg threefish1024.
Proof. exact (conj std_cfg_256 (conj std_cfg_512 std_cfg_1024)). Qed.

Print Assumptions C10_decrypt_encrypt.
Print Assumptions C10_encrypt_decrypt.
Print Assumptions C10_encrypt_injective.
Print Assumptions C10_nonvacuous.
