(** C03 — every algorithm gives identical results on every SIMD back end and build
    configuration; no back end panics or faults where another returns. *)
From Coq Require Import NArith List Bool.
From CC Require Import Lib.Words Lib.ListX Spec.Lanes Model.Dispatch Model.Machine.
From CC Require Import Proofs.Dispatch Proofs.Machine Proofs.MachineModels Proofs.MachineExamples Proofs.MachineBytes Proofs.MachineSse Proofs.DispatchMachine.
From CC Require Model.ChaChaGuts Model.Blake.
From CC Require Model.PpvSoft Model.JH.
From CC Require Proofs.MachineInstSse Proofs.MachineInstAvx2 Proofs.MachineInstGeneric.
From CC Require Import Proofs.MachineInstReal.
Import ListNotations.
Local Open Scope N_scope.

(** (a) selection. For every macro, every cargo-feature setting, every set of detected CPU
    features in which SSE2 is present (architectural on x86-64) and every set of compile-time
    target features, the selection runs one of the six Machine instances: the
    [unimplemented!()] arm of the std arms is never taken. *)
Theorem C03_dispatch_total :
  forall m no_simd std cpu tf,
    f_sse2 cpu = true -> exists b, dispatch m no_simd std cpu tf = Run b.
Proof. exact dispatch_total. Qed.

(** the selected instance uses only instructions the executing CPU has (no SIGILL), for a
    monotone CPU and monotone promised target features that the CPU really has *)
Theorem C03_dispatch_supported :
  forall m no_simd std cpu tf b,
    monotone cpu = true -> monotone tf = true -> subset tf cpu = true ->
    dispatch m no_simd std cpu tf = Run b -> needs b cpu = true.
Proof. exact dispatch_supported. Qed.

(** hook H1 (verification builds only): forcing level [l] is the unmodified selection on a CPU
    that lacks the features above [l]; level 0 is the unmodified selection. So the run-time
    configurations exercised by the check are configurations of the real macros. *)
Theorem C03_hook_is_cap :
  forall m no_simd std l cpu tf,
    monotone cpu = true -> 1 <= l <= 5 ->
    dispatch_hooked m no_simd std l cpu tf = dispatch m no_simd std (cap l cpu) tf.
Proof. exact dispatch_hooked_is_cap. Qed.

Theorem C03_hook_level0 :
  forall m no_simd std cpu tf,
    dispatch_hooked m no_simd std 0 cpu tf = dispatch m no_simd std cpu tf.
Proof. exact dispatch_hooked_level0. Qed.

(** selection is irrelevant for any body whose six instantiations compute the same function on
    the well-formed inputs [dom]: two arbitrary configurations return the same value and neither
    panics *)
Theorem C03_dispatch_irrelevant :
  forall (X Y : Type) (algo : backend -> X -> Y) (ref : X -> Y) (dom : X -> Prop),
    (forall b x, dom x -> algo b x = ref x) ->
    forall m1 n1 s1 cpu1 tf1 m2 n2 s2 cpu2 tf2 x,
      f_sse2 cpu1 = true -> f_sse2 cpu2 = true -> dom x ->
      dispatched algo m1 n1 s1 cpu1 tf1 x = dispatched algo m2 n2 s2 cpu2 tf2 x /\
      dispatched algo m1 n1 s1 cpu1 tf1 x <> None.
Proof. intros X Y algo ref dom H. exact (dispatched_config_indep algo ref dom H). Qed.

(** (b) machine independence. [machine_refines m]: every vector operation of [m], seen through
    the view onto lane-order word lists, is its lane-wise meaning of Spec/Lanes.v and preserves
    [m]'s well-formedness. Then the algorithms written over the record compute the same word
    lists as on the lane-wise machine [lane_m], for all well-formed inputs and any number of
    iterations. *)

(** ChaCha: [k] double rounds ([round; undiagonalize . round . diagonalize]) on the narrow
    ([u32x4], one block) and on the wide ([u32x4x4], four blocks) state *)
Theorem C03_chacha_round_machine_indep :
  forall m, machine_refines m ->
  forall k a b c d,
    (words_ok 32 4 a -> words_ok 32 4 b -> words_ok 32 4 c -> words_ok 32 4 d ->
     chacha_rounds_on (m_u32x4 m) k a b c d = chacha_rounds_on (m_u32x4 lane_m) k a b c d) /\
    (words_ok 32 16 a -> words_ok 32 16 b -> words_ok 32 16 c -> words_ok 32 16 d ->
     chacha_rounds_on (m_u32x4x4 m) k a b c d = chacha_rounds_on (m_u32x4x4 lane_m) k a b c d).
Proof. exact chacha_round_machine_indep. Qed.

(** the same for states that are not freshly loaded: the view commutes with the rounds and
    well-formedness is kept *)
Theorem C03_chacha_rounds_commute :
  forall o w n ks, vops_refines w n ks o -> incl chacha_ks ks ->
  forall k x y, c_sim o w x y ->
    c_rep o (c_rounds o k x) = c_rep (lane_vops w) (c_rounds (lane_vops w) k y) /\
    v_wf o (sa (c_rounds o k x)) /\ v_wf o (sb (c_rounds o k x)) /\
    v_wf o (sc (c_rounds o k x)) /\ v_wf o (sd (c_rounds o k x)).
Proof. exact chacha_rounds_commute. Qed.

(** and the lane-wise instance is the executable model the correspondence runs *)
Theorem C03_chacha_lane_is_model :
  forall k a b c d,
    chacha_rounds_on (lane_vops 32) k a b c d =
    let r := Model.ChaChaGuts.m_rounds k (Model.ChaChaGuts.VS a b c d) in
    (Model.ChaChaGuts.va r, Model.ChaChaGuts.vb r, Model.ChaChaGuts.vc r, Model.ChaChaGuts.vd r).
Proof. exact lane_chacha_rounds_on_is_model. Qed.

(** BLAKE: any sequence of (column step, diagonal step) iterations with message vectors [mss],
    32-bit (rotations 16,12,8,7 on [u32x4]) and 64-bit (32,25,16,11 on [u64x4]) *)
Theorem C03_blake_round_machine_indep :
  forall m, machine_refines m ->
  forall xs mss,
    ((let '(a, b, c, d) := xs in words_ok 32 4 a /\ words_ok 32 4 b /\ words_ok 32 4 c /\ words_ok 32 4 d) ->
     msgs_ok 32 mss ->
     blake32_rounds_on (m_u32x4 m) xs mss = blake32_rounds_on (m_u32x4 lane_m) xs mss) /\
    ((let '(a, b, c, d) := xs in words_ok 64 4 a /\ words_ok 64 4 b /\ words_ok 64 4 c /\ words_ok 64 4 d) ->
     msgs_ok 64 mss ->
     blake64_rounds_on (m_u64x4 m) xs mss = blake64_rounds_on (m_u64x4 lane_m) xs mss).
Proof. exact blake_round_machine_indep. Qed.

(** and one loop iteration at the lane instance is [round_body] of the executable BLAKE model
    (Model/Blake.v; [put_block32] uses w = 32, rotations 16,12,8,7; [put_block64] w = 64,
    32,25,16,11), for all 4-word rows *)
Theorem C03_blake_lane_is_model :
  forall (w k1 k2 k3 k4 : N) (U m : list N) (sigma : list nat)
         (a0 a1 a2 a3 b0 b1 b2 b3 c0 c1 c2 c3 d0 d1 d2 d3 : N),
    b_step (lane_vops w) k1 k2 k3 k4
           ([a0; a1; a2; a3], [b0; b1; b2; b3], [c0; c1; c2; c3], [d0; d1; d2; d3])
           (blake_msgs U m sigma) =
    Model.Blake.round_body (addw w) N.lxor (rotrw w k1) (rotrw w k2) (rotrw w k3) (rotrw w k4) U m
           ([a0; a1; a2; a3], [b0; b1; b2; b3], [c0; c1; c2; c3], [d0; d1; d2; d3]) sigma.
Proof. exact lane_b_step_is_model. Qed.

(** JH: any sequence of round bodies [l . ss] + [swap_(2^j)] with constants [sched] on the
    eight [u128x1] registers *)
Theorem C03_jh_layer_machine_indep :
  forall m, machine_refines m ->
  forall l sched,
    length l = 8%nat -> Forall w128 l -> sched_ok sched ->
    jh_rounds_on (m_u128 m) l sched = jh_rounds_on (m_u128 lane_m) l sched.
Proof. exact jh_layer_machine_indep. Qed.

(** (c) composed, general form (the hypothesis is discharged for the real back ends in (e):
    [C03_backends_agree]). Historical note on the partial state this file once had: The full statement of C03 for the modelled algorithms is
    [C03_backends_agree_partial] WITHOUT its hypothesis [forall b, machine_refines (inst b)],
    at the six concrete instances [inst Generic = generic_m, inst SSE2 = sse2_m, ...] built from
    the intrinsic-level models of the back ends (Model/PpvGeneric.v, PpvSse.v, PpvAvx2.v). Those
    six refinement proofs are the conjunction of C12/C13 restricted to the fields of [machine];
    they are only partly used so far: the C12 lane theorems of ppv-x86 arrived at the end of this
    work package and are instantiated for the [u32x4] component in (d) below; the u32x4x4 (soft x4 /
    AVX2), u64x4 (soft x2 + sse2.rs shuffles) and u128x1/u128x2 components and the portable back
    end (outcome-typed model of ppv-portable) are not instantiated; the JH lane meaning
    [notw 128] / [swapw (2^j) 128] is likewise not yet proved equal to the executable forms
    [not128] / [swapk] of Model/JH.v. So the hypothesis stays
    explicit and the six instantiations are carried by the correspondence (every configuration
    reproduces the lane-level model on the battery). What is proved: for ANY assignment of
    machines to the six names that refine the lane meaning, any two configurations of any of
    the three macros (std / no-std / no_simd, any detected or promised feature sets with SSE2
    detected) give the same result on all well-formed inputs, and neither panics. *)
Theorem C03_backends_agree_partial :
  forall inst : backend -> machine, (forall b, machine_refines (inst b)) ->
  forall c1 c2 : config,
    f_sse2 (cpu_of c1) = true -> f_sse2 (cpu_of c2) = true ->
    (forall k x, rows_ok 32 4 x ->
       on (chacha_narrow inst k) c1 x = on (chacha_narrow inst k) c2 x /\ on (chacha_narrow inst k) c1 x <> None) /\
    (forall k x, rows_ok 32 16 x ->
       on (chacha_wide inst k) c1 x = on (chacha_wide inst k) c2 x /\ on (chacha_wide inst k) c1 x <> None) /\
    (forall mss x, msgs_ok 32 mss -> rows_ok 32 4 x ->
       on (blake32 inst mss) c1 x = on (blake32 inst mss) c2 x /\ on (blake32 inst mss) c1 x <> None) /\
    (forall mss x, msgs_ok 64 mss -> rows_ok 64 4 x ->
       on (blake64 inst mss) c1 x = on (blake64 inst mss) c2 x /\ on (blake64 inst mss) c1 x <> None) /\
    (forall sched l, sched_ok sched -> length l = 8%nat -> Forall w128 l ->
       on (jh inst sched) c1 l = on (jh inst sched) c2 l /\ on (jh inst sched) c1 l <> None).
Proof. exact backends_agree. Qed.

(** non-vacuity: the refinement hypothesis is satisfiable, and it matters (a back end with the
    pre-repair SSE2 [rotate_each_word_right16] of defect P2 is rejected, and BLAKE-512's round
    computed on it differs); every instance is selected by some configuration; without the SSE2
    hypothesis the model does reach the panic arm; the compared functions are not trivial *)
Theorem C03_lane_m_refines : machine_refines lane_m.
Proof. exact lane_m_refines. Qed.

(** (d) instantiation with the real x86 back ends, [u32x4] component. [sse_u32x4_vops s3] is
    the intrinsic-level model of [u32x4_sse2<S3, S4, NI>] (Model/PpvSse.v: [_mm_add_epi32],
    shift-or / [pshufb] / [pshuflw] rotates, [_mm_shuffle_epi32]) with carrier = the 16-byte
    register and view = [words_le 4]; by the C12 theorems it refines the lane meaning for both
    [s3] variants: NoS3 = the type of SSE2, YesS3 = the type of SSSE3, SSE4.1, AVX and of the AVX2
    machine's [u32x4]. Hence ChaCha's narrow rounds and BLAKE-224/256's rounds on every x86
    back end equal the lane result, without hypothesis. (u32x4x4 / u64x4 / u128 components and
    the portable back end: not instantiated, see the comment at (c).) *)
Theorem C03_sse_u32x4_refines : forall s3, vops_refines 32 4 ks32 (sse_u32x4_vops s3).
Proof. exact sse_u32x4_refines. Qed.

Theorem C03_sse_chacha_narrow_indep :
  forall s3 k a b c d,
    words_ok 32 4 a -> words_ok 32 4 b -> words_ok 32 4 c -> words_ok 32 4 d ->
    chacha_rounds_on (sse_u32x4_vops s3) k a b c d = chacha_rounds_on (lane_vops 32) k a b c d.
Proof. exact sse_chacha_narrow_indep. Qed.

Theorem C03_sse_blake32_indep :
  forall s3 xs mss,
    (let '(a, b, c, d) := xs in words_ok 32 4 a /\ words_ok 32 4 b /\ words_ok 32 4 c /\ words_ok 32 4 d) ->
    msgs_ok 32 mss ->
    blake32_rounds_on (sse_u32x4_vops s3) xs mss = blake32_rounds_on (lane_vops 32) xs mss.
Proof. exact sse_blake32_indep. Qed.

(** a second instance with another representation (vectors are byte strings in memory order,
    the view is the little-endian word view; a transport of the lane meaning, not the intrinsic
    model of a real back end), and a non-uniform assignment of refining machines to the six
    names: [C03_backends_agree_partial] applies to it unconditionally *)
Theorem C03_byte_m_refines : machine_refines byte_m.
Proof. exact byte_m_refines. Qed.

Theorem C03_demo_inst_refines : forall b, machine_refines (demo_inst b).
Proof. exact demo_inst_refines. Qed.

Theorem C03_p2_machine_rejected :
  ~ vops_refines 64 4 ks64 p2_vops /\
  blake64_rounds_on p2_vops ex_rows ex_msgs <> blake64_rounds_on (lane_vops 64) ex_rows ex_msgs.
Proof. exact (conj p2_machine_not_a_refinement p2_machine_differs). Qed.

Definition C03_examples := (every_backend_reachable, unimplemented_arm_exists, p2_value,
                            chacha_lane_rounds_nontrivial, jh_lane_round_nontrivial, byte_m_is_not_lane_m).

(** (e) the six REAL machines, built from the intrinsic-level models of the x86 back ends
    (Model/PpvSse.v, PpvAvx2.v; SSE2 = [sse_m false]; SSSE3, SSE4.1, AVX = [sse_m true]; AVX2 = [avx2_m])
    and from the portable back end (Model/PpvGeneric.v + the soft.rs wrappers; [generic_m p] for
    either build profile), refine the lane meaning in all four components (u32x4, u32x4x4, u64x4,
    u128x1/x2) — so [C03_backends_agree_partial] holds with NO hypothesis: [C03_backends_agree].
    The JH lane meaning is the executable form of Model/JH.v ([C03_jh_lane_is_model]). *)
Theorem C03_sse_m_refines : forall s3, machine_refines (MachineInstSse.sse_m s3).
Proof. exact MachineInstSse.sse_m_refines. Qed.

Theorem C03_avx2_m_refines : machine_refines MachineInstAvx2.avx2_m.
Proof. exact MachineInstAvx2.avx2_m_refines. Qed.

Theorem C03_generic_m_refines : forall p, machine_refines (MachineInstGeneric.generic_m p).
Proof. exact MachineInstGeneric.generic_m_refines. Qed.

Theorem C03_real_inst_is :
  forall p,
    real_inst p Generic = MachineInstGeneric.generic_m p /\
    real_inst p SSE2 = MachineInstSse.sse_m false /\
    real_inst p SSSE3 = MachineInstSse.sse_m true /\
    real_inst p SSE41 = MachineInstSse.sse_m true /\
    real_inst p AVX = MachineInstSse.sse_m true /\
    real_inst p AVX2 = MachineInstAvx2.avx2_m.
Proof. exact real_inst_cases. Qed.

Theorem C03_real_inst_refines : forall p b, machine_refines (real_inst p b).
Proof. exact real_inst_refines. Qed.

(** the full statement: C03_backends_agree_partial without its hypothesis, at the real machines *)
Theorem C03_backends_agree :
  forall (p : PpvSoft.profile) (c1 c2 : config),
    f_sse2 (cpu_of c1) = true -> f_sse2 (cpu_of c2) = true ->
    (forall k x, rows_ok 32 4 x ->
       on (chacha_narrow (real_inst p) k) c1 x = on (chacha_narrow (real_inst p) k) c2 x /\
       on (chacha_narrow (real_inst p) k) c1 x <> None) /\
    (forall k x, rows_ok 32 16 x ->
       on (chacha_wide (real_inst p) k) c1 x = on (chacha_wide (real_inst p) k) c2 x /\
       on (chacha_wide (real_inst p) k) c1 x <> None) /\
    (forall mss x, msgs_ok 32 mss -> rows_ok 32 4 x ->
       on (blake32 (real_inst p) mss) c1 x = on (blake32 (real_inst p) mss) c2 x /\
       on (blake32 (real_inst p) mss) c1 x <> None) /\
    (forall mss x, msgs_ok 64 mss -> rows_ok 64 4 x ->
       on (blake64 (real_inst p) mss) c1 x = on (blake64 (real_inst p) mss) c2 x /\
       on (blake64 (real_inst p) mss) c1 x <> None) /\
    (forall sched l, sched_ok sched -> length l = 8%nat -> Forall w128 l ->
       on (jh (real_inst p) sched) c1 l = on (jh (real_inst p) sched) c2 l /\
       on (jh (real_inst p) sched) c1 l <> None).
Proof. exact backends_agree_real. Qed.

Theorem C03_real_backends_are_lane :
  forall p b,
    (forall k a bb c d,
       words_ok 32 4 a -> words_ok 32 4 bb -> words_ok 32 4 c -> words_ok 32 4 d ->
       chacha_rounds_on (m_u32x4 (real_inst p b)) k a bb c d = chacha_rounds_on (lane_vops 32) k a bb c d) /\
    (forall k a bb c d,
       words_ok 32 16 a -> words_ok 32 16 bb -> words_ok 32 16 c -> words_ok 32 16 d ->
       chacha_rounds_on (m_u32x4x4 (real_inst p b)) k a bb c d = chacha_rounds_on (lane_vops 32) k a bb c d) /\
    (forall xs mss, rows_ok 32 4 xs -> msgs_ok 32 mss ->
       blake32_rounds_on (m_u32x4 (real_inst p b)) xs mss = blake32_rounds_on (lane_vops 32) xs mss) /\
    (forall xs mss, rows_ok 64 4 xs -> msgs_ok 64 mss ->
       blake64_rounds_on (m_u64x4 (real_inst p b)) xs mss = blake64_rounds_on (lane_vops 64) xs mss) /\
    (forall l sched, length l = 8%nat -> Forall w128 l -> sched_ok sched ->
       jh_rounds_on (m_u128 (real_inst p b)) l sched = jh_rounds_on lane_jops l sched).
Proof. exact real_backends_are_lane. Qed.

Theorem C03_jh_swapk_is_lane_swap : forall k x, (k < 7)%nat -> JH.swapk k x = l_swap k x.
Proof. exact swapk_is_swapw. Qed.

Theorem C03_jh_lane_is_model :
  forall l sched,
    length l = 8%nat -> Forall w128 l -> sched_ok sched ->
    jh_rounds_on lane_jops l sched =
    x8_list (fold_left (fun y jr => JH.round (fst jr) (snd jr) y) sched (x8_of_list l)).
Proof. exact jh_lane_is_model. Qed.

Theorem C03_real_backends_e8_is_model :
  forall p b l,
    length l = 8%nat -> Forall w128 l ->
    jh_rounds_on (m_u128 (real_inst p b)) l e8_sched = x8_list (JH.e8 (x8_of_list l)).
Proof. exact real_backends_e8_is_model. Qed.


Print Assumptions C03_dispatch_total.
Print Assumptions C03_dispatch_supported.
Print Assumptions C03_hook_is_cap.
Print Assumptions C03_hook_level0.
Print Assumptions C03_dispatch_irrelevant.
Print Assumptions C03_chacha_round_machine_indep.
Print Assumptions C03_chacha_rounds_commute.
Print Assumptions C03_chacha_lane_is_model.
Print Assumptions C03_blake_round_machine_indep.
Print Assumptions C03_blake_lane_is_model.
Print Assumptions C03_jh_layer_machine_indep.
Print Assumptions C03_backends_agree_partial.
Print Assumptions C03_lane_m_refines.
Print Assumptions C03_sse_u32x4_refines.
Print Assumptions C03_sse_chacha_narrow_indep.
Print Assumptions C03_sse_blake32_indep.
Print Assumptions C03_byte_m_refines.
Print Assumptions C03_demo_inst_refines.
Print Assumptions C03_p2_machine_rejected.
Print Assumptions C03_examples.
Print Assumptions C03_sse_m_refines.
Print Assumptions C03_avx2_m_refines.
Print Assumptions C03_generic_m_refines.
Print Assumptions C03_real_inst_is.
Print Assumptions C03_real_inst_refines.
Print Assumptions C03_backends_agree.
Print Assumptions C03_real_backends_are_lane.
Print Assumptions C03_jh_swapk_is_lane_swap.
Print Assumptions C03_jh_lane_is_model.
Print Assumptions C03_real_backends_e8_is_model.

(** (f) the WHOLE block functions over the extended machine record (work package machine-framing):
    framing code included — storage conversions, byte output, lane access, the u64 counter views,
    transpose4. [xmachine_refines m]: [machine_refines] of the base plus the lane meaning of every
    extra operation (Model/MachineFull.v). *)
From CC Require Import Lib.Bytes Model.MachineFull.
From CC Require Proofs.MachineFullSse Proofs.MachineFullAvx2 Proofs.MachineFullGeneric.
From CC Require Import Proofs.MachineFullLib Proofs.MachineFullChaCha Proofs.MachineFullJH Proofs.MachineFullBlake
  Proofs.MachineFullReal.

Theorem C03_lane_xm_refines : xmachine_refines lane_xm.
Proof. exact lane_xm_refines. Qed.

(** ChaCha: [refill_narrow] (rounds on [m1] under dispatch!, output and counter on [m2] under
    dispatch_light128!) and [refill_wide] on refining back ends = on the lane instance, for every
    number of double rounds and every well-formed store *)
Theorem C03_chacha_refill_narrow_machine_indep :
  forall m1 m2, xmachine_refines m1 -> xmachine_refines m2 ->
  forall k s, cstore_ok s -> x_refill_narrow m1 m2 k s = x_refill_narrow lane_xm lane_xm k s.
Proof. exact refill_narrow_machine_indep. Qed.

Theorem C03_chacha_refill_wide_machine_indep :
  forall m, xmachine_refines m ->
  forall k s, cstore_ok s -> xm_refill_wide m k s = xm_refill_wide lane_xm k s.
Proof. exact refill_wide_machine_indep. Qed.

(** and the lane instance is the executable model of Model/ChaChaGuts.v (output bytes and next state) *)
Theorem C03_chacha_refill_lane_is_model :
  forall k c, chacha_ok c ->
    x_refill_narrow lane_xm lane_xm k (store_of c) =
      (fst (ChaChaGuts.refill c k), store_of (snd (ChaChaGuts.refill c k))) /\
    xm_refill_wide lane_xm k (store_of c) =
      (fst (ChaChaGuts.refill_wide c k), store_of (snd (ChaChaGuts.refill_wide c k))).
Proof. intros k c H. exact (conj (lane_refill_narrow_is_model k c H) (lane_refill_wide_is_model k c H)). Qed.

(** XChaCha set-up [init_chacha_x] (HChaCha through [refill_narrow_rounds]; [read_le]) and
    [pos64] / [seek64] / [seek32] ([extract] / [insert]) on refining back ends are the model's *)
Theorem C03_chacha_init_x_seek_is_model :
  (forall m1 m2, xmachine_refines m1 -> xmachine_refines m2 ->
   forall key nonce k, bytes_ok 32 key -> bytes_ok 24 nonce ->
     x_init_chacha_x m1 m2 key nonce k = store_of (ChaChaGuts.init_chacha_x key nonce k)) /\
  (forall m, xmachine_refines m -> forall s, cstore_ok s ->
     x_pos64 _ (xm_n m) s = ChaChaGuts.pos64 (cc_of s) /\
     (forall c, x_seek64 _ (xm_n m) s c = store_of (ChaChaGuts.seek64 (cc_of s) c)) /\
     (forall c, c < 2 ^ 32 -> x_seek32 _ (xm_n m) s c = store_of (ChaChaGuts.seek32 (cc_of s) c))).
Proof. exact (conj init_chacha_x_is_model seek_is_model). Qed.

(** JH: F8 (load/xor framing + E8 + store) *)
Theorem C03_jh_f8_machine_indep :
  forall m, xmachine_refines m ->
  forall state data, bytes_ok 128 state -> bytes_ok 64 data ->
    xm_f8 m e8_sched state data = xm_f8 lane_xm e8_sched state data.
Proof. exact f8_machine_indep. Qed.

Theorem C03_jh_f8_is_model :
  forall m, xmachine_refines m ->
  forall state data, bytes_ok 128 state -> bytes_ok 64 data ->
    xm_f8 m e8_sched state data = JH.m_f8 state data.
Proof. exact f8_is_model. Qed.

(** BLAKE: [put_block] of both word sizes and [finalize] *)
Theorem C03_blake_put_block_machine_indep :
  forall m, xmachine_refines m ->
  (forall h block t0 t1, bytes_ok 16 (fst h) -> bytes_ok 16 (snd h) -> Forall is_byte block ->
     t0 < 2 ^ 32 -> t1 < 2 ^ 32 ->
     xm_put_block32 m h block (t0, t1) = xm_put_block32 lane_xm h block (t0, t1)) /\
  (forall h block t0 t1, bytes_ok 32 (fst h) -> bytes_ok 32 (snd h) -> Forall is_byte block ->
     t0 < 2 ^ 64 -> t1 < 2 ^ 64 ->
     xm_put_block64 m h block (t0, t1) = xm_put_block64 lane_xm h block (t0, t1)).
Proof. intros m X. exact (conj (put_block32_machine_indep m X) (put_block64_machine_indep m X)). Qed.

Theorem C03_blake_put_block_is_model :
  forall m, xmachine_refines m ->
  (forall h block t0 t1, bytes_ok 16 (fst h) -> bytes_ok 16 (snd h) -> Forall is_byte block ->
     t0 < 2 ^ 32 -> t1 < 2 ^ 32 ->
     xm_put_block32 m h block (t0, t1) = h_bytes 4 (Blake.put_block32 (h_words 4 h) block (t0, t1))) /\
  (forall h block t0 t1, bytes_ok 32 (fst h) -> bytes_ok 32 (snd h) -> Forall is_byte block ->
     t0 < 2 ^ 64 -> t1 < 2 ^ 64 ->
     xm_put_block64 m h block (t0, t1) = h_bytes 8 (Blake.put_block64 (h_words 8 h) block (t0, t1))) /\
  (forall h, bytes_ok 16 (fst h) -> bytes_ok 16 (snd h) ->
     xm_finalize32 m h = Blake.compressor_finalize 4 (h_words 4 h)) /\
  (forall h, bytes_ok 32 (fst h) -> bytes_ok 32 (snd h) ->
     xm_finalize64 m h = Blake.compressor_finalize 8 (h_words 8 h)).
Proof.
  intros m X. exact (conj (put_block32_is_model m X) (conj (put_block64_is_model m X)
                    (conj (finalize32_is_model m X) (finalize64_is_model m X)))).
Qed.

(** the six real back ends (intrinsic-level / portable models), per build profile *)
Theorem C03_real_xinst_is :
  forall p,
    real_xinst p Generic = MachineFullGeneric.generic_xm p /\
    real_xinst p SSE2 = MachineFullSse.sse_xm false false /\
    real_xinst p SSSE3 = MachineFullSse.sse_xm true false /\
    real_xinst p SSE41 = MachineFullSse.sse_xm true true /\
    real_xinst p AVX = MachineFullSse.sse_xm true true /\
    real_xinst p AVX2 = MachineFullAvx2.avx2_xm.
Proof. exact real_xinst_cases. Qed.

Theorem C03_real_xinst_extends : forall p b, xm_base (real_xinst p b) = real_inst p b.
Proof. exact real_xinst_base. Qed.

Theorem C03_real_xinst_refines : forall p b, xmachine_refines (real_xinst p b).
Proof. exact real_xinst_refines. Qed.

(** hence, without hypothesis: the whole block functions on every real back end are the
    executable models (= the specifications by C01 / C06 / C04) *)
Theorem C03_real_blocks_are_model :
  forall p,
  (forall b1 b2 k s, cstore_ok s ->
     x_refill_narrow (real_xinst p b1) (real_xinst p b2) k s =
     (fst (ChaChaGuts.refill (cc_of s) k), store_of (snd (ChaChaGuts.refill (cc_of s) k)))) /\
  (forall b k s, cstore_ok s ->
     xm_refill_wide (real_xinst p b) k s =
     (fst (ChaChaGuts.refill_wide (cc_of s) k), store_of (snd (ChaChaGuts.refill_wide (cc_of s) k)))) /\
  (forall b state data, bytes_ok 128 state -> bytes_ok 64 data ->
     xm_f8 (real_xinst p b) e8_sched state data = JH.m_f8 state data) /\
  (forall b h block t0 t1, bytes_ok 16 (fst h) -> bytes_ok 16 (snd h) -> Forall is_byte block ->
     t0 < 2 ^ 32 -> t1 < 2 ^ 32 ->
     xm_put_block32 (real_xinst p b) h block (t0, t1) = h_bytes 4 (Blake.put_block32 (h_words 4 h) block (t0, t1))) /\
  (forall b h block t0 t1, bytes_ok 32 (fst h) -> bytes_ok 32 (snd h) -> Forall is_byte block ->
     t0 < 2 ^ 64 -> t1 < 2 ^ 64 ->
     xm_put_block64 (real_xinst p b) h block (t0, t1) = h_bytes 8 (Blake.put_block64 (h_words 8 h) block (t0, t1))) /\
  (forall b h, bytes_ok 16 (fst h) -> bytes_ok 16 (snd h) ->
     xm_finalize32 (real_xinst p b) h = Blake.compressor_finalize 4 (h_words 4 h)) /\
  (forall b h, bytes_ok 32 (fst h) -> bytes_ok 32 (snd h) ->
     xm_finalize64 (real_xinst p b) h = Blake.compressor_finalize 8 (h_words 8 h)).
Proof.
  intros p.
  exact (conj (real_refill_narrow_is_model p) (conj (real_refill_wide_is_model p) (conj (real_f8_is_model p)
        (conj (real_put_block32_is_model p) (conj (real_put_block64_is_model p)
        (conj (real_finalize32_is_model p) (real_finalize64_is_model p))))))).
Qed.

(** and composed with the selection: in every configuration (profile, no_simd, std, detected CPU
    features with SSE2, target features) each dispatched block function returns ([Some], not the
    [unimplemented!()] arm) the model's value — so any two configurations agree *)
Theorem C03_real_blocks_agree :
  forall c, f_sse2 (xcpu c) = true ->
  (forall k s, cstore_ok s ->
     refill_narrow_on k c s =
     Some (fst (ChaChaGuts.refill (cc_of s) k), store_of (snd (ChaChaGuts.refill (cc_of s) k)))) /\
  (forall k s, cstore_ok s ->
     on_x MDispatch (fun m => xm_refill_wide m k) c s =
     Some (fst (ChaChaGuts.refill_wide (cc_of s) k), store_of (snd (ChaChaGuts.refill_wide (cc_of s) k)))) /\
  (forall state data, bytes_ok 128 state -> bytes_ok 64 data ->
     on_x MDispatch (fun m => xm_f8 m e8_sched state) c data = Some (JH.m_f8 state data)) /\
  (forall h block t0 t1,
     bytes_ok 16 (fst h) -> bytes_ok 16 (snd h) -> Forall is_byte block -> t0 < 2 ^ 32 -> t1 < 2 ^ 32 ->
     on_x MDispatch (fun m h => xm_put_block32 m h block (t0, t1)) c h =
     Some (h_bytes 4 (Blake.put_block32 (h_words 4 h) block (t0, t1)))) /\
  (forall h block t0 t1,
     bytes_ok 32 (fst h) -> bytes_ok 32 (snd h) -> Forall is_byte block -> t0 < 2 ^ 64 -> t1 < 2 ^ 64 ->
     on_x MDispatch (fun m h => xm_put_block64 m h block (t0, t1)) c h =
     Some (h_bytes 8 (Blake.put_block64 (h_words 8 h) block (t0, t1)))) /\
  (forall h, bytes_ok 16 (fst h) -> bytes_ok 16 (snd h) ->
     on_x MLight256 xm_finalize32 c h = Some (Blake.compressor_finalize 4 (h_words 4 h))) /\
  (forall h, bytes_ok 32 (fst h) -> bytes_ok 32 (snd h) ->
     on_x MLight256 xm_finalize64 c h = Some (Blake.compressor_finalize 8 (h_words 8 h))).
Proof. exact real_blocks_agree. Qed.

(** non-vacuity: a u32x4 whose [extract] numbers the lanes from the other end is not a refinement
    and changes the counter update *)
Theorem C03_bad_extract_rejected :
  ~ xmachine_refines bad_xm /\
  snd (x_refill_narrow lane_xm bad_xm 0 sample_store) <> snd (x_refill_narrow lane_xm lane_xm 0 sample_store).
Proof. exact bad_xm_rejected. Qed.

Print Assumptions C03_lane_xm_refines.
Print Assumptions C03_chacha_refill_narrow_machine_indep.
Print Assumptions C03_chacha_refill_wide_machine_indep.
Print Assumptions C03_chacha_refill_lane_is_model.
Print Assumptions C03_chacha_init_x_seek_is_model.
Print Assumptions C03_jh_f8_machine_indep.
Print Assumptions C03_jh_f8_is_model.
Print Assumptions C03_blake_put_block_machine_indep.
Print Assumptions C03_blake_put_block_is_model.
Print Assumptions C03_real_xinst_is.
Print Assumptions C03_real_xinst_extends.
Print Assumptions C03_real_xinst_refines.
Print Assumptions C03_real_blocks_are_model.
Print Assumptions C03_real_blocks_agree.
Print Assumptions C03_bad_extract_rejected.

(** (g) capstones (work package capstones): (d) composed with the conformance theorems C01 / C14
    (ChaCha), C06 (JH), C04 (BLAKE) — the whole block functions computed on every real back end,
    and in every configuration, return the values of the SPECIFICATIONS Spec/ChaCha.v, Spec/JH.v,
    Spec/Blake.v. [stream_store v drounds key nonce k] = the three [vec128_storage]s (byte images)
    of the stream positioned at block counter [k] (C01's [block_state]); [ctr_plus v k i] =
    [(k + i) mod blocks_of (layout_of v)]; [wide_in_range v k] = [k < blocks_of (layout_of v)] and,
    for the IETF layout, [k + 3 < 2^32]; [h_split l = (firstn 4 l, skipn 4 l)]. *)
From CC Require Spec.ChaCha Spec.JH Spec.Blake Proofs.BlakeRounds.
From CC Require Import Model.ChaChaStream Proofs.ChaChaCompose Proofs.Capstones.

Theorem C03_real_chacha_block_eq_spec :
  forall p v drounds key nonce,
    Forall is_byte key -> length key = 32%nat -> Forall is_byte nonce ->
    length nonce = (match v with VDjb => 8 | VIetf => 12 | VX => 24 end)%nat ->
    (forall b1 b2 k, k < Spec.ChaCha.blocks_of (layout_of v) ->
       x_refill_narrow (real_xinst p b1) (real_xinst p b2) drounds (stream_store v drounds key nonce k) =
       (Spec.ChaCha.spec_block (layout_of v) drounds key nonce k, stream_store v drounds key nonce (k + 1))) /\
    (forall b k, wide_in_range v k ->
       xm_refill_wide (real_xinst p b) drounds (stream_store v drounds key nonce k) =
       (Spec.ChaCha.spec_block (layout_of v) drounds key nonce (ctr_plus v k 0) ++
        Spec.ChaCha.spec_block (layout_of v) drounds key nonce (ctr_plus v k 1) ++
        Spec.ChaCha.spec_block (layout_of v) drounds key nonce (ctr_plus v k 2) ++
        Spec.ChaCha.spec_block (layout_of v) drounds key nonce (ctr_plus v k 3),
        stream_store v drounds key nonce (k + 4))).
Proof. exact real_chacha_block_eq_spec. Qed.

Theorem C03_config_chacha_block_eq_spec :
  forall c, f_sse2 (xcpu c) = true ->
  forall v drounds key nonce,
    Forall is_byte key -> length key = 32%nat -> Forall is_byte nonce ->
    length nonce = (match v with VDjb => 8 | VIetf => 12 | VX => 24 end)%nat ->
    (forall k, k < Spec.ChaCha.blocks_of (layout_of v) ->
       refill_narrow_on drounds c (stream_store v drounds key nonce k) =
       Some (Spec.ChaCha.spec_block (layout_of v) drounds key nonce k, stream_store v drounds key nonce (k + 1))) /\
    (forall k, wide_in_range v k ->
       on_x MDispatch (fun m => xm_refill_wide m drounds) c (stream_store v drounds key nonce k) =
       Some (Spec.ChaCha.spec_block (layout_of v) drounds key nonce (ctr_plus v k 0) ++
             Spec.ChaCha.spec_block (layout_of v) drounds key nonce (ctr_plus v k 1) ++
             Spec.ChaCha.spec_block (layout_of v) drounds key nonce (ctr_plus v k 2) ++
             Spec.ChaCha.spec_block (layout_of v) drounds key nonce (ctr_plus v k 3),
             stream_store v drounds key nonce (k + 4))).
Proof. exact config_chacha_block_eq_spec. Qed.

(** the store is what the back ends compute: [seek32] (IETF) / [seek64] (djb, X) of the constructor's
    state, run on any real back end; the XChaCha constructor run on any real back ends *)
Theorem C03_real_chacha_seek_is_stream_store :
  forall p b v drounds key nonce k,
    Forall is_byte key -> length key = 32%nat -> Forall is_byte nonce ->
    length nonce = (match v with VDjb => 8 | VIetf => 12 | VX => 24 end)%nat ->
    k < Spec.ChaCha.blocks_of (layout_of v) ->
    (if is12_of v
     then x_seek32 _ (xm_n (real_xinst p b)) (store_of (init_of v drounds key nonce)) k
     else x_seek64 _ (xm_n (real_xinst p b)) (store_of (init_of v drounds key nonce)) k)
    = stream_store v drounds key nonce k.
Proof. exact real_chacha_seek_is_stream_store. Qed.

Theorem C03_real_xchacha_init_is_model :
  forall p b1 b2 drounds key nonce,
    Forall is_byte key -> length key = 32%nat -> Forall is_byte nonce -> length nonce = 24%nat ->
    x_init_chacha_x (real_xinst p b1) (real_xinst p b2) key nonce drounds = store_of (init_of VX drounds key nonce).
Proof. exact real_xchacha_init_is_model. Qed.

Theorem C03_real_jh_f8_eq_spec :
  forall p b state data, bytes_ok 128 state -> bytes_ok 64 data ->
    xm_f8 (real_xinst p b) e8_sched state data = Spec.JH.F8 state data.
Proof. exact real_jh_f8_eq_spec. Qed.

Theorem C03_config_jh_f8_eq_spec :
  forall c, f_sse2 (xcpu c) = true ->
  forall state data, bytes_ok 128 state -> bytes_ok 64 data ->
    on_x MDispatch (fun m => xm_f8 m e8_sched state) c data = Some (Spec.JH.F8 state data).
Proof. exact config_jh_f8_eq_spec. Qed.

Theorem C03_real_blake_compress_eq_spec :
  forall p b,
    (forall v h block t0 t1, v = Spec.Blake.blake224 \/ v = Spec.Blake.blake256 ->
       bytes_ok 16 (fst h) -> bytes_ok 16 (snd h) -> bytes_ok 64 block -> t0 < 2 ^ 32 -> t1 < 2 ^ 32 ->
       xm_put_block32 (real_xinst p b) h block (t0, t1) =
       h_bytes 4 (h_split (Spec.Blake.compress_v v (BlakeRounds.to_list (h_words 4 h))
                             (Spec.Blake.block_words v block) t0 t1))) /\
    (forall v h block t0 t1, v = Spec.Blake.blake384 \/ v = Spec.Blake.blake512 ->
       bytes_ok 32 (fst h) -> bytes_ok 32 (snd h) -> bytes_ok 128 block -> t0 < 2 ^ 64 -> t1 < 2 ^ 64 ->
       xm_put_block64 (real_xinst p b) h block (t0, t1) =
       h_bytes 8 (h_split (Spec.Blake.compress_v v (BlakeRounds.to_list (h_words 8 h))
                             (Spec.Blake.block_words v block) t0 t1))).
Proof. exact real_blake_compress_eq_spec. Qed.

Theorem C03_config_blake_compress_eq_spec :
  forall c, f_sse2 (xcpu c) = true ->
    (forall v h block t0 t1, v = Spec.Blake.blake224 \/ v = Spec.Blake.blake256 ->
       bytes_ok 16 (fst h) -> bytes_ok 16 (snd h) -> bytes_ok 64 block -> t0 < 2 ^ 32 -> t1 < 2 ^ 32 ->
       on_x MDispatch (fun m h => xm_put_block32 m h block (t0, t1)) c h =
       Some (h_bytes 4 (h_split (Spec.Blake.compress_v v (BlakeRounds.to_list (h_words 4 h))
                                   (Spec.Blake.block_words v block) t0 t1)))) /\
    (forall v h block t0 t1, v = Spec.Blake.blake384 \/ v = Spec.Blake.blake512 ->
       bytes_ok 32 (fst h) -> bytes_ok 32 (snd h) -> bytes_ok 128 block -> t0 < 2 ^ 64 -> t1 < 2 ^ 64 ->
       on_x MDispatch (fun m h => xm_put_block64 m h block (t0, t1)) c h =
       Some (h_bytes 8 (h_split (Spec.Blake.compress_v v (BlakeRounds.to_list (h_words 8 h))
                                   (Spec.Blake.block_words v block) t0 t1)))).
Proof. exact config_blake_compress_eq_spec. Qed.

(** on the bytes alone: new [state.h] = little-endian storage of the specified compression function's words *)
Theorem C03_real_blake_compress_bytes :
  forall p b,
    (forall v h block t0 t1, v = Spec.Blake.blake224 \/ v = Spec.Blake.blake256 ->
       bytes_ok 16 (fst h) -> bytes_ok 16 (snd h) -> bytes_ok 64 block -> t0 < 2 ^ 32 -> t1 < 2 ^ 32 ->
       let out := xm_put_block32 (real_xinst p b) h block (t0, t1) in
       fst out ++ snd out =
       bytes_le 4 (Spec.Blake.compress_v v (words_le 4 (fst h) ++ words_le 4 (snd h))
                     (Spec.Blake.block_words v block) t0 t1)) /\
    (forall v h block t0 t1, v = Spec.Blake.blake384 \/ v = Spec.Blake.blake512 ->
       bytes_ok 32 (fst h) -> bytes_ok 32 (snd h) -> bytes_ok 128 block -> t0 < 2 ^ 64 -> t1 < 2 ^ 64 ->
       let out := xm_put_block64 (real_xinst p b) h block (t0, t1) in
       fst out ++ snd out =
       bytes_le 8 (Spec.Blake.compress_v v (words_le 8 (fst h) ++ words_le 8 (snd h))
                     (Spec.Blake.block_words v block) t0 t1)).
Proof. exact real_blake_compress_bytes. Qed.

(** non-vacuity: the real back ends run ([vm_compute]) and return the RFC 7539 2.3.2 block, the
    published JH-256 initial value, the published BLAKE-256 digest of the one-byte message *)
Definition C03_capstone_examples := (real_chacha_rfc7539_block, real_jh_iv256, real_blake_one_byte).

Print Assumptions C03_real_chacha_block_eq_spec.
Print Assumptions C03_config_chacha_block_eq_spec.
Print Assumptions C03_real_chacha_seek_is_stream_store.
Print Assumptions C03_real_xchacha_init_is_model.
Print Assumptions C03_real_jh_f8_eq_spec.
Print Assumptions C03_config_jh_f8_eq_spec.
Print Assumptions C03_real_blake_compress_eq_spec.
Print Assumptions C03_config_blake_compress_eq_spec.
Print Assumptions C03_real_blake_compress_bytes.
Print Assumptions C03_capstone_examples.

(** (h) audit C03-F1 / F2 (work package audit-followups): OUTCOME-level statements.
    The portable machine's fields are [gunwrap filler (portable-model call)]. [generic_oxm p] is the
    record of the RAW calls (result type [outcome]); [oxm_agree m om] = for every one of the 57
    operation fields, on well-formed operands, the outcome call returns [Ok] of the pure field's
    value (records [ovops_agree] x3, [ojops_agree], [onops_agree], [odops_agree], [owops_agree],
    [ohops_agree], [ouops_agree] of Proofs/FollowupsPortable.v). [oxm_*] = the block functions
    transcribed in the outcome monad (a [Panic] of any call is the result). [real_oxm p b] = the
    portable raw calls for [Generic], the total intrinsic-level models wrapped in [Ok] for the x86
    names. So: on every back end, in every profile, every block function RETURNS, with the model's
    value - "no back end panics where another returns" is a theorem. *)
From CC Require Import Proofs.FollowupsPortable Proofs.FollowupsInit.

Theorem C03_portable_fields_return :
  forall p, oxm_agree (MachineFullGeneric.generic_xm p) (generic_oxm p).
Proof. exact generic_fields_return. Qed.

Theorem C03_block_functions_return :
  (forall m1 m2 (om1 : oxmachine m1) (om2 : oxmachine m2),
     xmachine_refines m1 -> xmachine_refines m2 -> oxm_agree m1 om1 -> oxm_agree m2 om2 ->
     forall k s, cstore_ok s -> oxm_refill_narrow om1 om2 k s = PpvSoft.Ok (x_refill_narrow m1 m2 k s)) /\
  (forall m (om : oxmachine m), xmachine_refines m -> oxm_agree m om ->
     (forall k s, cstore_ok s -> oxm_refill_wide om k s = PpvSoft.Ok (xm_refill_wide m k s)) /\
     (forall state data, bytes_ok 128 state -> bytes_ok 64 data ->
        oxm_f8 om e8_sched state data = PpvSoft.Ok (xm_f8 m e8_sched state data)) /\
     (forall h block t0 t1, bytes_ok 16 (fst h) -> bytes_ok 16 (snd h) -> Forall is_byte block ->
        t0 < 2 ^ 32 -> t1 < 2 ^ 32 ->
        oxm_put_block32 om h block (t0, t1) = PpvSoft.Ok (xm_put_block32 m h block (t0, t1))) /\
     (forall h block t0 t1, bytes_ok 32 (fst h) -> bytes_ok 32 (snd h) -> Forall is_byte block ->
        t0 < 2 ^ 64 -> t1 < 2 ^ 64 ->
        oxm_put_block64 om h block (t0, t1) = PpvSoft.Ok (xm_put_block64 m h block (t0, t1))) /\
     (forall h, bytes_ok 16 (fst h) -> bytes_ok 16 (snd h) -> oxm_finalize32 om h = PpvSoft.Ok (xm_finalize32 m h)) /\
     (forall h, bytes_ok 32 (fst h) -> bytes_ok 32 (snd h) -> oxm_finalize64 om h = PpvSoft.Ok (xm_finalize64 m h))).
Proof.
  split; [exact refill_narrow_returns|].
  intros m om X A.
  exact (conj (refill_wide_returns m om X A) (conj (f8_returns m om X A) (conj (put_block32_returns m om X A)
        (conj (put_block64_returns m om X A) (finalize_returns m om X A))))).
Qed.

Theorem C03_real_blocks_return :
  forall p,
  (forall b1 b2 k s, cstore_ok s ->
     oxm_refill_narrow (real_oxm p b1) (real_oxm p b2) k s =
     PpvSoft.Ok (fst (ChaChaGuts.refill (cc_of s) k), store_of (snd (ChaChaGuts.refill (cc_of s) k)))) /\
  (forall b k s, cstore_ok s ->
     oxm_refill_wide (real_oxm p b) k s =
     PpvSoft.Ok (fst (ChaChaGuts.refill_wide (cc_of s) k), store_of (snd (ChaChaGuts.refill_wide (cc_of s) k)))) /\
  (forall b state data, bytes_ok 128 state -> bytes_ok 64 data ->
     oxm_f8 (real_oxm p b) e8_sched state data = PpvSoft.Ok (JH.m_f8 state data)) /\
  (forall b h block t0 t1, bytes_ok 16 (fst h) -> bytes_ok 16 (snd h) -> Forall is_byte block ->
     t0 < 2 ^ 32 -> t1 < 2 ^ 32 ->
     oxm_put_block32 (real_oxm p b) h block (t0, t1) = PpvSoft.Ok (h_bytes 4 (Blake.put_block32 (h_words 4 h) block (t0, t1)))) /\
  (forall b h block t0 t1, bytes_ok 32 (fst h) -> bytes_ok 32 (snd h) -> Forall is_byte block ->
     t0 < 2 ^ 64 -> t1 < 2 ^ 64 ->
     oxm_put_block64 (real_oxm p b) h block (t0, t1) = PpvSoft.Ok (h_bytes 8 (Blake.put_block64 (h_words 8 h) block (t0, t1)))) /\
  (forall b h, bytes_ok 16 (fst h) -> bytes_ok 16 (snd h) ->
     oxm_finalize32 (real_oxm p b) h = PpvSoft.Ok (Blake.compressor_finalize 4 (h_words 4 h))) /\
  (forall b h, bytes_ok 32 (fst h) -> bytes_ok 32 (snd h) ->
     oxm_finalize64 (real_oxm p b) h = PpvSoft.Ok (Blake.compressor_finalize 8 (h_words 8 h))).
Proof. exact real_blocks_return. Qed.

Theorem C03_real_oxm_is :
  forall p, real_oxm p Generic = generic_oxm p /\ (forall b, oxm_agree _ (real_oxm p b)).
Proof. intros p. exact (conj (real_oxm_generic p) (real_oxm_agree p)). Qed.

(** C03-F2: the remaining dispatch site, [init_chacha] (rustcrypto_impl.rs:273, dispatch_light128!;
    [m.read_le] + [into]): on every refining machine, on the six real ones, under the selection, and
    in outcome form *)
Theorem C03_chacha_init_is_model :
  (forall m, xmachine_refines m -> forall key nonce, bytes_ok 32 key ->
     x_init_chacha m key nonce = store_of (ChaChaGuts.init_chacha key nonce)) /\
  (forall p b key nonce, bytes_ok 32 key ->
     x_init_chacha (real_xinst p b) key nonce = store_of (ChaChaGuts.init_chacha key nonce)) /\
  (forall c, f_sse2 (xcpu c) = true -> forall key nonce, bytes_ok 32 key ->
     on_x MLight128 (fun m => x_init_chacha m key) c nonce = Some (store_of (ChaChaGuts.init_chacha key nonce))) /\
  (forall p b key nonce, bytes_ok 32 key ->
     oxm_init_chacha (real_oxm p b) key nonce = PpvSoft.Ok (store_of (ChaChaGuts.init_chacha key nonce))).
Proof.
  exact (conj init_chacha_is_model (conj real_init_chacha_is_model (conj config_init_chacha_is_model real_init_chacha_returns))).
Qed.

Theorem C03_real_chacha_init_is_stream_init :
  forall p b v drounds key nonce, v = VDjb \/ v = VIetf -> bytes_ok 32 key ->
    x_init_chacha (real_xinst p b) key nonce = store_of (init_of v drounds key nonce).
Proof. exact real_init_chacha_is_stream_init. Qed.

(** non-vacuity: raw portable calls do panic outside the domain (and then so does the block function,
    while the projected pure field returns its filler); the outcome form runs *)
Definition C03_outcome_examples := (portable_calls_can_panic, portable_outcome_runs, init_chacha_runs).

Print Assumptions C03_portable_fields_return.
Print Assumptions C03_block_functions_return.
Print Assumptions C03_real_blocks_return.
Print Assumptions C03_real_oxm_is.
Print Assumptions C03_chacha_init_is_model.
Print Assumptions C03_real_chacha_init_is_stream_init.
Print Assumptions C03_outcome_examples.
