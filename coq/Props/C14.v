(** C14 — ChaCha block API: the 4-block refill equals four 1-block refills; 64-bit counter.

    Model: Model/ChaChaGuts.v ([refill] = refill_narrow + inc_block_ct, [refill_wide] =
    refill_wide_impl with d0123 / transpose4 / add_pos, little-endian arms). A state is
    well-formed ([wf]) when b, c, d are four words below 2^32 each, which every
    [vec128_storage] is. *)
From Coq Require Import NArith List.
From CC Require Import Lib.Words Lib.Bytes Lib.ListX Spec.Lanes Model.ChaChaGuts.
From CC Require Import Proofs.ChaChaRounds Proofs.ChaChaGutsWords Proofs.ChaChaGuts Proofs.ChaChaGutsWide.
From CC Require Spec.ChaCha.
Import ListNotations.
Local Open Scope N_scope.

(** [d0123]: lane i (i = 0..3) carries the 64-bit counter (words 0,1 of d) plus i modulo
    2^64 in words 0,1 — so a carry out of the low word goes into the high word in whichever
    lane it occurs, and the wrap at 2^64 loses the carry — and words 2,3 untouched *)
Theorem C14_d0123_counters :
  forall a b c e i,
    a < 2^32 -> b < 2^32 -> c < 2^32 -> e < 2^32 -> In i [0; 1; 2; 3]%nat ->
    lane i (d0123 [a; b; c; e])
      = (let p := (a + 2^32 * b + N.of_nat i) mod 2^64 in [p mod 2^32; p / 2^32; c; e]).
Proof. exact d0123_counters. Qed.

(** [add_pos d k]: counter + k modulo 2^64, never into words 2,3 *)
Theorem C14_add_pos :
  forall a b c e k,
    a < 2^32 -> b < 2^32 -> c < 2^32 -> e < 2^32 ->
    add_pos [a; b; c; e] k
      = (let p := (a + 2^32 * b + k) mod 2^64 in [p mod 2^32; p / 2^32; c; e]).
Proof. exact add_pos_counter. Qed.

(** [inc_block_ct]: counter + 1 modulo 2^64 (wrapping: no panic in any profile), key and
    words 2,3 untouched *)
Theorem C14_inc_block_ct :
  forall kb kc a b c e,
    a < 2^32 -> b < 2^32 -> c < 2^32 -> e < 2^32 ->
    inc_block_ct (CC kb kc [a; b; c; e])
      = CC kb kc (let p := (a + 2^32 * b + 1) mod 2^64 in [p mod 2^32; p / 2^32; c; e]).
Proof. exact inc_block_ct_counter. Qed.

(** [at_ctr s k] (the state with the counter advanced by k) changes exactly the counter *)
Theorem C14_at_ctr_spec :
  forall s k, wf s ->
    cb (at_ctr s k) = cb s /\ cc (at_ctr s k) = cc s /\
    pos64 (at_ctr s k) = (pos64 s + k) mod 2^64 /\
    nth 2 (cd (at_ctr s k)) 0 = nth 2 (cd s) 0 /\ nth 3 (cd (at_ctr s k)) 0 = nth 3 (cd s) 0 /\
    wf (at_ctr s k).
Proof. exact at_ctr_spec. Qed.

(** the main statement: for every well-formed state and EVERY number of double rounds
    (0 included), [refill_wide] returns the bytes of four consecutive [refill]s and the
    same final state *)
Theorem C14_refill4_eq_4_refills :
  forall s drounds, wf s ->
    refill_wide s drounds =
    (let '(o0, s1) := refill s drounds in let '(o1, s2) := refill s1 drounds in
     let '(o2, s3) := refill s2 drounds in let '(o3, s4) := refill s3 drounds in
     (o0 ++ o1 ++ o2 ++ o3, s4)).
Proof. exact refill_wide_eq_four_refills. Qed.

(** the same, written with [inc_block_ct] chains (the form Props/C02.v asks of the real block
    producers), and the length of a block *)
Theorem C14_refill4_eq_inc_chain :
  forall s drounds, wf s ->
    refill_wide s drounds =
    (fst (refill s drounds) ++ fst (refill (inc_block_ct s) drounds) ++
     fst (refill (inc_block_ct (inc_block_ct s)) drounds) ++
     fst (refill (inc_block_ct (inc_block_ct (inc_block_ct s))) drounds),
     inc_block_ct (inc_block_ct (inc_block_ct (inc_block_ct s)))).
Proof. exact refill_wide_eq_inc_chain. Qed.

Theorem C14_refill_length :
  forall s drounds,
    length (cb s) = 4%nat /\ length (cc s) = 4%nat /\ length (cd s) = 4%nat ->
    length (fst (refill s drounds)) = 64%nat.
Proof. exact refill_length. Qed.

(** each refill emits the block for the CURRENT counter (the specified block function on
    sigma ++ b ++ c ++ d) and then advances the counter by one … *)
Theorem C14_refill_emits_then_advances :
  forall s drounds, wf s ->
    refill s drounds =
    (bytes_le 4 (Spec.ChaCha.spec_block_words drounds (Spec.ChaCha.sigma ++ cb s ++ cc s ++ cd s)),
     at_ctr s 1).
Proof. exact refill_emits_then_advances. Qed.

(** … and the 4-block refill emits the blocks for counter, +1, +2, +3 and advances by four *)
Theorem C14_refill4_emits_then_advances :
  forall s drounds, wf s ->
    refill_wide s drounds =
    (let blk k := bytes_le 4 (Spec.ChaCha.spec_block_words drounds
                     (Spec.ChaCha.sigma ++ cb (at_ctr s k) ++ cc (at_ctr s k) ++ cd (at_ctr s k))) in
     (blk 0 ++ blk 1 ++ blk 2 ++ blk 3, at_ctr s 4)).
Proof. exact refill_wide_emits_then_advances. Qed.

(** non-vacuity of [wf]: a state whose low counter word carries in lane 1 and whose
    counter wraps at 2^64 in that lane *)
Definition C14_wf_example := wf_example.

Print Assumptions C14_d0123_counters.
Print Assumptions C14_add_pos.
Print Assumptions C14_inc_block_ct.
Print Assumptions C14_at_ctr_spec.
Print Assumptions C14_refill4_eq_4_refills.
Print Assumptions C14_refill4_eq_inc_chain.
Print Assumptions C14_refill_length.
Print Assumptions C14_refill_emits_then_advances.
Print Assumptions C14_refill4_emits_then_advances.
Print Assumptions C14_wf_example.

(** audit C14-F1 (work package audit-followups): "x every backend" - C14 composed with C03. On each
    of the six back-end names [b], in each build profile [p], [refill_wide] returns the bytes of four
    [refill_narrow] calls (each of which may run its rounds on [b1] (dispatch!) and the rest on [b2]
    (dispatch_light128!)) and the same final store; and the same under the selection, in every
    configuration with SSE2 detected. *)
From CC Require Model.PpvSoft Model.Dispatch Model.MachineFull Proofs.MachineFullReal Proofs.FollowupsSmall.

Theorem C14_refill4_eq_4_refills_every_backend :
  forall (p : PpvSoft.profile) (b b1 b2 : Dispatch.backend) (k : nat) (s : MachineFull.cstore),
    MachineFull.cstore_ok s ->
    MachineFull.xm_refill_wide (MachineFullReal.real_xinst p b) k s =
    (let '(o0, s1) := MachineFull.x_refill_narrow (MachineFullReal.real_xinst p b1) (MachineFullReal.real_xinst p b2) k s in
     let '(o1, s2) := MachineFull.x_refill_narrow (MachineFullReal.real_xinst p b1) (MachineFullReal.real_xinst p b2) k s1 in
     let '(o2, s3) := MachineFull.x_refill_narrow (MachineFullReal.real_xinst p b1) (MachineFullReal.real_xinst p b2) k s2 in
     let '(o3, s4) := MachineFull.x_refill_narrow (MachineFullReal.real_xinst p b1) (MachineFullReal.real_xinst p b2) k s3 in
     (o0 ++ o1 ++ o2 ++ o3, s4)).
Proof. exact FollowupsSmall.F_C14.refill_wide_eq_four_narrow_every_backend. Qed.

Theorem C14_refill4_eq_4_refills_every_config :
  forall (c : MachineFullReal.xconfig) (k : nat) (s : MachineFull.cstore),
    Dispatch.f_sse2 (MachineFullReal.xcpu c) = true -> MachineFull.cstore_ok s ->
    MachineFullReal.on_x Dispatch.MDispatch (fun m => MachineFull.xm_refill_wide m k) c s =
    match MachineFullReal.refill_narrow_on k c s with
    | Some (o0, s1) =>
      match MachineFullReal.refill_narrow_on k c s1 with
      | Some (o1, s2) =>
        match MachineFullReal.refill_narrow_on k c s2 with
        | Some (o2, s3) =>
          match MachineFullReal.refill_narrow_on k c s3 with
          | Some (o3, s4) => Some (o0 ++ o1 ++ o2 ++ o3, s4)
          | None => None
          end
        | None => None
        end
      | None => None
      end
    | None => None
    end.
Proof. exact FollowupsSmall.F_C14.refill_wide_eq_four_narrow_every_config. Qed.

Print Assumptions C14_refill4_eq_4_refills_every_backend.
Print Assumptions C14_refill4_eq_4_refills_every_config.
