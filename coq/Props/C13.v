(** C13 — data movement of ppv-lite86 is lossless and consistently ordered: x86-64 back ends.
    Portable back end and the generic x2/x4 wrappers of soft.rs: Props/C13g.v.

    Reading the statements: a 128-bit vector is its register image ([wf 16 x]: 16 bytes in memory
    order), a u64x4_sse2 value the pair of its two registers ([img2] = their concatenation), a
    u32x4x2_avx2 value one 32-byte image, a u32x4x4_avx2 value the list of its two 32-byte images
    ([wfv]). [words_le k]/[bytes_le k] are the little-endian word views; [lanes16] cuts an image
    into 128-bit lanes in memory order. [s4] = SSE4.1 available (pinsr/pextr forms) or not
    (shuffle/shift/or sequences). Outcomes: [Ok r] = returns [r], [Panic] = Rust panic. *)
From Coq Require Import NArith List Arith.
From CC Require Import Lib.Words Lib.Bytes Lib.ListX Model.Intrinsics Model.PpvSse Model.PpvAvx2 Spec.Lanes
  Proofs.IntrinsicsLemmas Proofs.PpvSseMove Proofs.PpvAvx2Move Proofs.PpvStore.
Import ListNotations.
Local Open Scope N_scope.

Theorem C13_sse_u32x4_from_lanes_order :
  forall s4 a b c d,
  a < 2 ^ 32 -> c < 2 ^ 32 ->
  u32x4_from_lanes s4 [a; b; c; d] = bytes_le 4 [a; b; c; d].
Proof. exact sse_u32x4_from_lanes_order. Qed.

Theorem C13_sse_u64x2_from_lanes_order :
  forall s4 a b,
  a < 2 ^ 64 -> b < 2 ^ 64 ->
  u64x2_from_lanes s4 [a; b] = bytes_le 8 [a; b].
Proof. exact sse_u64x2_from_lanes_order. Qed.

Theorem C13_sse_u128x1_from_lanes_order :
  forall a,
  u128x1_from_lanes [a] = bytes_le 16 [a].
Proof. exact sse_u128x1_from_lanes_order. Qed.

Theorem C13_sse_u32x4_to_lanes_order :
  forall s4 x,
  wf 16 x -> u32x4_to_lanes s4 x = words_le 4 x.
Proof. exact sse_u32x4_to_lanes_order. Qed.

Theorem C13_sse_u64x2_to_lanes_order :
  forall s4 x,
  wf 16 x -> u64x2_to_lanes s4 x = words_le 8 x.
Proof. exact sse_u64x2_to_lanes_order. Qed.

Theorem C13_sse_u128x1_to_lanes_order :
  forall x,
  wf 16 x -> u128x1_to_lanes x = words_le 16 x.
Proof. exact sse_u128x1_to_lanes_order. Qed.

Theorem C13_sse_u32x4_extract :
  forall s4 x i,
  wf 16 x ->
  u32x4_extract s4 x i = if i <? 4 then Ok (v_extract (words_le 4 x) (N.to_nat i)) else Panic.
Proof. exact sse_u32x4_extract. Qed.

Theorem C13_sse_u32x4_insert :
  forall s4 x v i,
  wf 16 x ->
  u32x4_insert s4 x v i =
  if i <? 4 then Ok (bytes_le 4 (v_insert (words_le 4 x) v (N.to_nat i))) else Panic.
Proof. exact sse_u32x4_insert. Qed.

Theorem C13_sse_u64x2_extract :
  forall s4 x i,
  wf 16 x ->
  u64x2_extract s4 x i = if i <? 2 then Ok (v_extract (words_le 8 x) (N.to_nat i)) else Panic.
Proof. exact sse_u64x2_extract. Qed.

Theorem C13_sse_u64x2_insert :
  forall s4 x v i,
  wf 16 x ->
  u64x2_insert s4 x v i =
  if i <? 2 then Ok (bytes_le 8 (v_insert (words_le 8 x) v (N.to_nat i))) else Panic.
Proof. exact sse_u64x2_insert. Qed.

Theorem C13_sse_u64x4_to_lanes_order :
  forall s4 v,
  wf2 v -> u64x4_to_lanes s4 v = words_le 8 (img2 v).
Proof. exact sse_u64x4_to_lanes_order. Qed.

Theorem C13_sse_u64x4_from_lanes_order :
  forall s4 a b c d,
  a < 2 ^ 64 -> b < 2 ^ 64 -> c < 2 ^ 64 -> d < 2 ^ 64 ->
  img2 (u64x4_from_lanes s4 [a; b; c; d]) = bytes_le 8 [a; b; c; d].
Proof. exact sse_u64x4_from_lanes_order. Qed.

Theorem C13_sse_u64x4_extract :
  forall s4 v i,
  wf2 v ->
  u64x4_extract s4 v i = if i <? 4 then Ok (v_extract (words_le 8 (img2 v)) (N.to_nat i)) else Panic.
Proof. exact sse_u64x4_extract. Qed.

Theorem C13_sse_u64x4_insert :
  forall s4 v w i,
  wf2 v ->
  oimg2 (u64x4_insert s4 v w i) =
  if i <? 4 then Ok (bytes_le 8 (v_insert (words_le 8 (img2 v)) w (N.to_nat i))) else Panic.
Proof. exact sse_u64x4_insert. Qed.

Theorem C13_avx2_lanes_order :
  forall x,
  wf 32 x ->
  avx2_to_lanes x = lanes16 x /\ avx2_from_lanes (lanes16 x) = x /\
  words_le 4 x = concat (map (words_le 4) (avx2_to_lanes x)).
Proof. exact avx2_lanes_order. Qed.

Theorem C13_avx2_from_lanes_order :
  forall a b,
  wf 16 a -> wf 16 b ->
  avx2_from_lanes [a; b] = a ++ b /\ avx2_to_lanes (avx2_from_lanes [a; b]) = [a; b].
Proof. exact avx2_from_lanes_order. Qed.

Theorem C13_avx2_extract_insert :
  forall x w i,
  wf 32 x -> wf 16 w ->
  avx2_extract x i = (if i <? 2 then Ok (nth (N.to_nat i) (lanes16 x) []) else Panic) /\
  avx2_insert x w i = (if i <? 2 then Ok (concat (upd (N.to_nat i) w (lanes16 x))) else Panic).
Proof. exact avx2_extract_insert. Qed.

Theorem C13_avx4_lanes_order :
  forall v,
  wfv v ->
  avx4_to_lanes v = lanes16 (concat v) /\ avx4_from_lanes (avx4_to_lanes v) = v /\
  avx4_into_storage v = concat v /\ avx4_unpack (concat v) = v /\
  avx4_to_scalars v = concat (map (words_le 4) (avx4_to_lanes v)).
Proof. exact avx4_lanes_order. Qed.

Theorem C13_avx4_from_lanes_order :
  forall a b c d,
  wf 16 a -> wf 16 b -> wf 16 c -> wf 16 d ->
  concat (avx4_from_lanes [a; b; c; d]) = a ++ b ++ c ++ d /\
  avx4_to_lanes (avx4_from_lanes [a; b; c; d]) = [a; b; c; d].
Proof. exact avx4_from_lanes_order. Qed.

Theorem C13_avx4_extract_insert :
  forall v w i,
  wfv v -> wf 16 w ->
  avx4_extract v i = (if i <? 4 then Ok (nth (N.to_nat i) (lanes16 (concat v)) []) else Panic) /\
  omap (@concat N) (avx4_insert v w i)
  = (if i <? 4 then Ok (concat (upd (N.to_nat i) w (lanes16 (concat v)))) else Panic).
Proof. exact avx4_extract_insert. Qed.

Theorem C13_avx4_transpose4_is_transpose :
  forall a b c d,
  wfv a -> wfv b -> wfv c -> wfv d ->
  let '(p, q, r, s) := avx4_transpose4 a b c d in
  (avx4_to_lanes p, avx4_to_lanes q, avx4_to_lanes r, avx4_to_lanes s)
  = transpose4 [] (avx4_to_lanes a) (avx4_to_lanes b) (avx4_to_lanes c) (avx4_to_lanes d).
Proof. exact avx4_transpose4_is_transpose. Qed.

Theorem C13_sse_read_write_le_be :
  forall k s3,
  In k [4; 8; 16]%nat ->
  (forall bs, length bs <> 16%nat ->
     sse_read_le bs = Panic /\ sse_read_be (bswap_of k s3) bs = Panic) /\
  (forall x n, n <> 16%nat ->
     sse_write_le x n = Panic /\ sse_write_be (bswap_of k s3) x n = Panic) /\
  (forall bs, wf 16 bs ->
     sse_read_le bs = Ok (bytes_le k (read_le k bs)) /\
     sse_read_be (bswap_of k s3) bs = Ok (bytes_le k (read_be k bs))) /\
  (forall x, wf 16 x ->
     sse_write_le x 16 = Ok (write_le k (words_le k x)) /\
     sse_write_be (bswap_of k s3) x 16 = Ok (write_be k (words_le k x))).
Proof. exact sse_read_write_le_be. Qed.

Theorem C13_read_write_roundtrip :
  forall k n bs,
  (0 < k)%nat -> (n mod k = 0)%nat -> wf n bs ->
  write_le k (read_le k bs) = bs /\ write_be k (read_be k bs) = bs.
Proof. exact read_write_roundtrip. Qed.

Theorem C13_avx2_read_write_le_be :
  (forall bs, length bs <> 32%nat -> avx2_read_le bs = Panic /\ avx2_read_be bs = Panic) /\
  (forall x n, n <> 32%nat -> avx2_write_le x n = Panic /\ avx2_write_be x n = Panic) /\
  (forall bs, wf 32 bs ->
     avx2_read_le bs = Ok (bytes_le 4 (read_le 4 bs)) /\
     avx2_read_be bs = Ok (bytes_le 4 (read_be 4 bs))) /\
  (forall x, wf 32 x ->
     avx2_write_le x 32 = Ok (write_le 4 (words_le 4 x)) /\
     avx2_write_be x 32 = Ok (write_be 4 (words_le 4 x))).
Proof. exact avx2_read_write_le_be. Qed.

Theorem C13_storage_views_little_endian :
  (forall a b, a < 2 ^ 32 -> b < 2 ^ 32 -> reinterpret 4 8 [a; b] = [a + b * 2 ^ 32]) /\
  (forall a b, a < 2 ^ 64 -> b < 2 ^ 64 -> reinterpret 8 16 [a; b] = [a + b * 2 ^ 64]) /\
  (forall a b c d, a < 2 ^ 32 -> b < 2 ^ 32 -> c < 2 ^ 32 -> d < 2 ^ 32 ->
     reinterpret 4 16 [a; b; c; d] = [a + b * 2 ^ 32 + (c + d * 2 ^ 32) * 2 ^ 64]) /\
  (forall f t ws, (0 < f)%nat -> (0 < t)%nat -> ((f * length ws) mod t = 0)%nat ->
     Forall (is_wordk f) ws -> reinterpret t f (reinterpret f t ws) = ws) /\
  (forall x, sse_into_storage (sse_unpack x) = x) /\
  (forall x, avx2_into_storage (avx2_unpack x) = x).
Proof. exact storage_views_little_endian. Qed.

Theorem C13_sse_x4_transpose4_is_transpose :
  forall (a b c d : list reg),
  x4_transpose4 [] a b c d = transpose4 [] a b c d.
Proof. exact sse_x4_transpose4_is_transpose. Qed.

Theorem C13_sse_x4_to_scalars_lane_order :
  forall a b c d,
  wf 16 a -> wf 16 b -> wf 16 c -> wf 16 d ->
  sse_x4_to_scalars [a; b; c; d] = words_le 4 a ++ words_le 4 b ++ words_le 4 c ++ words_le 4 d.
Proof. exact sse_x4_to_scalars_lane_order. Qed.

Print Assumptions C13_sse_u32x4_from_lanes_order.
Print Assumptions C13_sse_u64x2_from_lanes_order.
Print Assumptions C13_sse_u128x1_from_lanes_order.
Print Assumptions C13_sse_u32x4_to_lanes_order.
Print Assumptions C13_sse_u64x2_to_lanes_order.
Print Assumptions C13_sse_u128x1_to_lanes_order.
Print Assumptions C13_sse_u32x4_extract.
Print Assumptions C13_sse_u32x4_insert.
Print Assumptions C13_sse_u64x2_extract.
Print Assumptions C13_sse_u64x2_insert.
Print Assumptions C13_sse_u64x4_to_lanes_order.
Print Assumptions C13_sse_u64x4_from_lanes_order.
Print Assumptions C13_sse_u64x4_extract.
Print Assumptions C13_sse_u64x4_insert.
Print Assumptions C13_avx2_lanes_order.
Print Assumptions C13_avx2_from_lanes_order.
Print Assumptions C13_avx2_extract_insert.
Print Assumptions C13_avx4_lanes_order.
Print Assumptions C13_avx4_from_lanes_order.
Print Assumptions C13_avx4_extract_insert.
Print Assumptions C13_avx4_transpose4_is_transpose.
Print Assumptions C13_sse_read_write_le_be.
Print Assumptions C13_read_write_roundtrip.
Print Assumptions C13_avx2_read_write_le_be.
Print Assumptions C13_storage_views_little_endian.
Print Assumptions C13_sse_x4_transpose4_is_transpose.
Print Assumptions C13_sse_x4_to_scalars_lane_order.

(* ---- added by work package ppv-wide: data movement of the x86 wide types ---- *)
From CC Require Model.PpvSoft Model.PpvSoftAssign.
From CC Require Import Proofs.PpvWideLift Proofs.PpvWideMove Proofs.PpvWideBytes Proofs.PpvWideTie.

(** x86 wide types (soft.rs x2<W,G> / x4<W> over registers): [wide16 n v] = the list of [n]
    well-formed 16-byte registers (SSE-family types), [wide32 2 v] = two 32-byte registers
    (u32x4x4_avx2); image = [concat v]; [lanes16] cuts an image into 128-bit lanes. *)
Theorem C13_sse_wide_lanes_order : forall n v, wide16 n v ->
  xn_to_lanes v = lanes16 (concat v) /\ concat (xn_from_lanes v) = concat v /\
  xn_from_lanes (xn_to_lanes v) = v /\ xn_to_lanes (xn_from_lanes v) = v /\
  (forall k, In k [4; 8; 16]%nat -> words_le k (concat v) = concat (map (words_le k) (xn_to_lanes v))).
Proof. exact sse_wide_lanes_order. Qed.

Theorem C13_sse_wide_from_lanes_order : forall l : list reg, Forall (wf 16) l ->
  concat (xn_from_lanes l) = concat l /\ xn_to_lanes (xn_from_lanes l) = l /\
  wide16 (length l) (xn_from_lanes l).
Proof. exact sse_wide_from_lanes_order. Qed.

(** Vec2<W> (n = 2) / Vec4<W> (n = 4): every index *)
Theorem C13_sse_wide_extract_insert : forall n v w i, wide16 n v -> wf 16 w ->
  xn_extract v i = (if i <? N.of_nat n then Ok (nth (N.to_nat i) (lanes16 (concat v)) []) else Panic) /\
  omap (@concat N) (xn_insert v w i)
  = (if i <? N.of_nat n then Ok (concat (upd (N.to_nat i) w (lanes16 (concat v)))) else Panic) /\
  (forall r, xn_insert v w i = Ok r -> wide16 n r).
Proof. exact sse_wide_extract_insert. Qed.

(** Store<vec256_storage> / Store<vec512_storage> and From<x2>/From<x4> for the storage *)
Theorem C13_sse_wide_storage :
  (forall st, wf 32 st ->
     map sse_unpack (x2_unpack st) = lanes16 st /\ wide16 2 (map sse_unpack (x2_unpack st)) /\
     xn_into_storage (map sse_into_storage (map sse_unpack (x2_unpack st))) = st) /\
  (forall st, wf 64 st ->
     map sse_unpack (x4_unpack st) = lanes16 st /\ wide16 4 (map sse_unpack (x4_unpack st)) /\
     xn_into_storage (map sse_into_storage (map sse_unpack (x4_unpack st))) = st) /\
  (forall n v, wide16 n v -> xn_into_storage (map sse_into_storage v) = concat v) /\
  (forall v, wide16 2 v -> map sse_unpack (x2_unpack (xn_into_storage (map sse_into_storage v))) = v) /\
  (forall v, wide16 4 v -> map sse_unpack (x4_unpack (xn_into_storage (map sse_into_storage v))) = v).
Proof. exact sse_wide_storage. Qed.

(** StoreBytes of x2<W,G> over u32x4_sse2 (k = 4), u64x2_sse2 (8), u128x1_sse2 (16): 32 bytes *)
Theorem C13_sse_x2_read_write_le_be : forall k s3, In k [4; 8; 16]%nat ->
  (forall bs, length bs <> 32%nat ->
     x2_read sse_read_le bs = Panic /\ x2_read (sse_read_be (bswap_of k s3)) bs = Panic) /\
  (forall v n, n <> 32%nat ->
     x2_write sse_write_le [] v n = Panic /\ x2_write (sse_write_be (bswap_of k s3)) [] v n = Panic) /\
  (forall bs, wf 32 bs ->
     (exists v, x2_read sse_read_le bs = Ok v /\ wide16 2 v /\ concat v = bytes_le k (read_le k bs)) /\
     (exists v, x2_read (sse_read_be (bswap_of k s3)) bs = Ok v /\ wide16 2 v /\
                concat v = bytes_le k (read_be k bs))) /\
  (forall v, wide16 2 v ->
     x2_write sse_write_le [] v 32 = Ok (write_le k (words_le k (concat v))) /\
     x2_write (sse_write_be (bswap_of k s3)) [] v 32 = Ok (write_be k (words_le k (concat v)))) /\
  (forall bs, wf 32 bs ->
     obind (x2_read sse_read_le bs) (fun v => x2_write sse_write_le [] v 32) = Ok bs /\
     obind (x2_read (sse_read_be (bswap_of k s3)) bs)
           (fun v => x2_write (sse_write_be (bswap_of k s3)) [] v 32) = Ok bs).
Proof. exact sse_x2_read_write_le_be. Qed.
(** StoreBytes of x4<W>: 64 bytes *)
Theorem C13_sse_x4_read_write_le_be : forall k s3, In k [4; 8; 16]%nat ->
  (forall bs, length bs <> 64%nat ->
     x4_read sse_read_le bs = Panic /\ x4_read (sse_read_be (bswap_of k s3)) bs = Panic) /\
  (forall v n, n <> 64%nat ->
     x4_write sse_write_le [] v n = Panic /\ x4_write (sse_write_be (bswap_of k s3)) [] v n = Panic) /\
  (forall bs, wf 64 bs ->
     (exists v, x4_read sse_read_le bs = Ok v /\ wide16 4 v /\ concat v = bytes_le k (read_le k bs)) /\
     (exists v, x4_read (sse_read_be (bswap_of k s3)) bs = Ok v /\ wide16 4 v /\
                concat v = bytes_le k (read_be k bs))) /\
  (forall v, wide16 4 v ->
     x4_write sse_write_le [] v 64 = Ok (write_le k (words_le k (concat v))) /\
     x4_write (sse_write_be (bswap_of k s3)) [] v 64 = Ok (write_be k (words_le k (concat v)))) /\
  (forall bs, wf 64 bs ->
     obind (x4_read sse_read_le bs) (fun v => x4_write sse_write_le [] v 64) = Ok bs /\
     obind (x4_read (sse_read_be (bswap_of k s3)) bs)
           (fun v => x4_write (sse_write_be (bswap_of k s3)) [] v 64) = Ok bs).
Proof. exact sse_x4_read_write_le_be. Qed.
(** StoreBytes of u32x4x4_avx2 = x2<u32x4x2_avx2, G0>: 64 bytes *)
Theorem C13_avx2_x2_read_write_le_be :
  (forall bs, length bs <> 64%nat -> x2_read avx2_read_le bs = Panic /\ x2_read avx2_read_be bs = Panic) /\
  (forall v n, n <> 64%nat -> x2_write avx2_write_le [] v n = Panic /\ x2_write avx2_write_be [] v n = Panic) /\
  (forall bs, wf 64 bs ->
     (exists v, x2_read avx2_read_le bs = Ok v /\ wide32 2 v /\ concat v = bytes_le 4 (read_le 4 bs)) /\
     (exists v, x2_read avx2_read_be bs = Ok v /\ wide32 2 v /\ concat v = bytes_le 4 (read_be 4 bs))) /\
  (forall v, wide32 2 v ->
     x2_write avx2_write_le [] v 64 = Ok (write_le 4 (words_le 4 (concat v))) /\
     x2_write avx2_write_be [] v 64 = Ok (write_be 4 (words_le 4 (concat v)))) /\
  (forall bs, wf 64 bs ->
     obind (x2_read avx2_read_le bs) (fun v => x2_write avx2_write_le [] v 64) = Ok bs /\
     obind (x2_read avx2_read_be bs) (fun v => x2_write avx2_write_be [] v 64) = Ok bs).
Proof. exact avx2_x2_read_write_le_be. Qed.

(** the x86 copy of the soft.rs data-movement wrappers = the soft.rs model (Model/PpvSoft.v), for every
    element type and element reader / writer; [o2s] converts between the two copies of [outcome] *)
Theorem C13_x86_soft_wrappers_agree : forall (W : Type) (d : W),
  (forall (v : list W) i, o2s (xn_extract v i) = PpvSoft.xn_extract v i) /\
  (forall (v : list W) w i, o2s (xn_insert v w i) = PpvSoft.xn_insert v w i) /\
  (forall (v : list W), xn_to_lanes v = PpvSoft.xn_to_lanes v /\ xn_from_lanes v = PpvSoft.xn_from_lanes v) /\
  (forall (a b c e : list W), x4_transpose4 d a b c e = PpvSoft.x4_transpose4 d a b c e) /\
  (forall (rd : list N -> outcome W) bs,
     o2s (x2_read rd bs) = PpvSoft.x2_read (fun b => o2s (rd b)) bs /\
     o2s (x4_read rd bs) = PpvSoft.x4_read (fun b => o2s (rd b)) bs) /\
  (forall (wr : W -> nat -> outcome (list N)) v outlen,
     o2s (x2_write wr d v outlen) = PpvSoft.x2_write d (fun w n => o2s (wr w n)) v outlen /\
     o2s (x4_write wr d v outlen) = PpvSoft.x4_write d (fun w n => o2s (wr w n)) v outlen).
Proof. exact x86_soft_moves_agree. Qed.
Theorem C13_x86_soft_storage_agree :
  (forall st : list N,
     PpvSoft.x2_unpack [] (PpvSoftAssign.ok1 sse_unpack) (split_regs 2 16 st)
       = PpvSoft.Ok (map sse_unpack (x2_unpack st)) /\
     PpvSoft.x4_unpack [] (PpvSoftAssign.ok1 sse_unpack) (split_regs 4 16 st)
       = PpvSoft.Ok (map sse_unpack (x4_unpack st))) /\
  (forall v : list reg,
     (length v = 2%nat ->
      PpvSoft.omapo (@concat N) (PpvSoft.x2_into [] (PpvSoftAssign.ok1 sse_into_storage) v)
      = PpvSoft.Ok (xn_into_storage (map sse_into_storage v))) /\
     (length v = 4%nat ->
      PpvSoft.omapo (@concat N) (PpvSoft.x4_into [] (PpvSoftAssign.ok1 sse_into_storage) v)
      = PpvSoft.Ok (xn_into_storage (map sse_into_storage v)))).
Proof. exact x86_soft_storage_agree. Qed.

Print Assumptions C13_sse_wide_lanes_order.
Print Assumptions C13_sse_wide_from_lanes_order.
Print Assumptions C13_sse_wide_extract_insert.
Print Assumptions C13_sse_wide_storage.
Print Assumptions C13_sse_x2_read_write_le_be.
Print Assumptions C13_sse_x4_read_write_le_be.
Print Assumptions C13_avx2_x2_read_write_le_be.
Print Assumptions C13_x86_soft_wrappers_agree.
Print Assumptions C13_x86_soft_storage_agree.

(** audit C13-F3 (work package audit-leftovers, Proofs/LeftoversPpv.v): the operations that were modelled
    without a theorem.  [UnsafeFrom<[u32;4]>] / [UnsafeFrom<[u64;2]>] ([_mm_set_epi32] / [_mm_set_epi64x]
    with the arguments reversed): the vector whose lanes are the array elements IN ORDER, equal to
    [from_lanes] and read back by [to_lanes] under both SSE4.1 variants; [From<x2<u128x1_sse2,G0>>] /
    [From<x4<u128x1_sse2>>] for the AVX2 types: the 128-bit lanes in order; [Default]: all lanes zero *)
From CC Require Proofs.LeftoversPpv.

Theorem C13_sse_u32x4_unsafe_from_order :
  forall a b c d, u32x4_unsafe_from [a; b; c; d] = bytes_le 4 [a; b; c; d].
Proof. exact LeftoversPpv.sse_u32x4_unsafe_from_order. Qed.

Theorem C13_sse_u32x4_unsafe_from_lanes :
  forall s4 a b c d,
  a < 2 ^ 32 -> b < 2 ^ 32 -> c < 2 ^ 32 -> d < 2 ^ 32 ->
  u32x4_to_lanes s4 (u32x4_unsafe_from [a; b; c; d]) = [a; b; c; d]
  /\ words_le 4 (u32x4_unsafe_from [a; b; c; d]) = [a; b; c; d].
Proof. exact LeftoversPpv.sse_u32x4_unsafe_from_lanes. Qed.

Theorem C13_sse_u32x4_unsafe_from_eq_from_lanes :
  forall s4 a b c d,
  a < 2 ^ 32 -> c < 2 ^ 32 ->
  u32x4_unsafe_from [a; b; c; d] = u32x4_from_lanes s4 [a; b; c; d].
Proof. exact LeftoversPpv.sse_u32x4_unsafe_from_eq_from_lanes. Qed.

Theorem C13_sse_u64x2_unsafe_from_order :
  forall a b, u64x2_unsafe_from [a; b] = bytes_le 8 [a; b].
Proof. exact LeftoversPpv.sse_u64x2_unsafe_from_order. Qed.

Theorem C13_sse_u64x2_unsafe_from_lanes :
  forall s4 a b,
  a < 2 ^ 64 -> b < 2 ^ 64 ->
  wf 16 (u64x2_unsafe_from [a; b])
  /\ u64x2_to_lanes s4 (u64x2_unsafe_from [a; b]) = [a; b]
  /\ u64x2_unsafe_from [a; b] = u64x2_from_lanes s4 [a; b].
Proof. exact LeftoversPpv.sse_u64x2_unsafe_from_lanes. Qed.

Theorem C13_avx2_from_u128x2_order :
  forall a b,
  wf 16 a -> wf 16 b ->
  avx2_from_u128x2 [a; b] = a ++ b
  /\ avx2_to_lanes (avx2_from_u128x2 [a; b]) = [a; b]
  /\ avx2_from_u128x2 [a; b] = avx2_from_lanes [a; b]
  /\ wf 32 (avx2_from_u128x2 [a; b]).
Proof. exact LeftoversPpv.avx2_from_u128x2_order. Qed.

Theorem C13_avx4_from_u128x4_order :
  forall a b c d,
  wf 16 a -> wf 16 b -> wf 16 c -> wf 16 d ->
  concat (avx4_from_u128x4 [a; b; c; d]) = a ++ b ++ c ++ d
  /\ avx4_to_lanes (avx4_from_u128x4 [a; b; c; d]) = [a; b; c; d]
  /\ avx4_from_u128x4 [a; b; c; d] = avx4_from_lanes [a; b; c; d].
Proof. exact LeftoversPpv.avx4_from_u128x4_order. Qed.

Theorem C13_sse_default_zero :
  sse_default = repeat 0 16%nat
  /\ wf 16 sse_default
  /\ sse_default = bytes_le 4 [0; 0; 0; 0]
  /\ sse_default = bytes_le 8 [0; 0]
  /\ sse_default = bytes_le 16 [0]
  /\ (forall s4, u32x4_to_lanes s4 sse_default = [0; 0; 0; 0])
  /\ (forall s4, u64x2_to_lanes s4 sse_default = [0; 0])
  /\ u128x1_to_lanes sse_default = [0].
Proof. exact LeftoversPpv.sse_default_zero. Qed.

Print Assumptions C13_sse_u32x4_unsafe_from_order.
Print Assumptions C13_sse_u32x4_unsafe_from_lanes.
Print Assumptions C13_sse_u32x4_unsafe_from_eq_from_lanes.
Print Assumptions C13_sse_u64x2_unsafe_from_order.
Print Assumptions C13_sse_u64x2_unsafe_from_lanes.
Print Assumptions C13_avx2_from_u128x2_order.
Print Assumptions C13_avx4_from_u128x4_order.
Print Assumptions C13_sse_default_zero.
