(** C16 — byte-slice APIs are alignment-independent and stay inside their buffers.

    PROVED here (about Model/SliceApi.v, a model that keeps ADDRESSES: memory is a byte list, a
    slice an (offset, length) window, every access goes through a partial accessor that returns
    None outside the slice or outside mapped memory): for the generic shapes the crates use —
    key-stream application (buffered prefix / chunks_exact(256) / 64-byte tail), block-buffer
    absorption (hash update), StoreBytes read/write with its length assertion (and the x2/x4
    compositions), in-place block operation on a fixed-size view — and for ALL memories, offsets
    (= alignments) and lengths:
      (a) ..._reads_in_bounds : no access ever leaves the slice (the accessors never fail);
      (b) ..._writes_exactly  : memory outside the slice, and the size of memory, are unchanged
                                ([same_outside]), also when the call panics;
      (c) address independence: the result (and the successor state) is a function of the
          slice's content and length only; chunk splitting covers the data exactly once.

    NOT provable in any functional model, and therefore only OBSERVED (harness h_mem: guard
    pages, canaries, 64 alignments x 2 placements abutting unmapped pages, child processes):
    a load or store of the compiled code that touches bytes outside the slice — or requires an
    aligned address — without changing the computed value (e.g. [_mm_load_si128] where
    [_mm_loadu_si128] is needed, a 16-byte load at [ptr.add(len - 8)]). In the model such an
    access is a [None]; whether the machine code performs it is a fact about rustc's output and
    the intrinsics, not about the byte-level contract. The tie between this model and the code
    is the differential run (window of memory before/after each call re-computed by
    Run/SliceApi.v). Level: proof, PARTIAL. *)
From Coq Require Import NArith List Arith Bool.
From CC Require Import Lib.Bytes Model.BlockBuffer Model.SliceApi Proofs.SliceApi Proofs.SliceApiBuf Proofs.SliceApiXor.
Import ListNotations.

(** key-stream application *)
Theorem C16_apply_keystream_reads_in_bounds :
  forall (refill refill4 : N -> list N),
    (forall c, length (refill c) = 64) -> (forall c, length (refill4 c) = 256) ->
    forall m s st, slice_ok m s -> kstate_ok st -> m_apply refill refill4 m s st <> None.
Proof. exact apply_reads_in_bounds. Qed.

Theorem C16_apply_keystream_writes_exactly :
  forall (refill refill4 : N -> list N),
    (forall c, length (refill c) = 64) -> (forall c, length (refill4 c) = 256) ->
    forall m s st m' st', slice_ok m s -> kstate_ok st ->
      m_apply refill refill4 m s st = Some (m', st') ->
      length m' = length m
      /\ firstn (s_off s) m' = firstn (s_off s) m
      /\ skipn (s_off s + s_len s) m' = skipn (s_off s + s_len s) m.
Proof. exact apply_writes_exactly. Qed.

Theorem C16_apply_keystream_address_independent :
  forall (refill refill4 : N -> list N),
    (forall c, length (refill c) = 64) -> (forall c, length (refill4 c) = 256) ->
    forall m1 s1 m2 s2 st, slice_ok m1 s1 -> slice_ok m2 s2 -> kstate_ok st ->
      sbytes m1 s1 = sbytes m2 s2 ->
      exists m1' m2' st',
        m_apply refill refill4 m1 s1 st = Some (m1', st')
        /\ m_apply refill refill4 m2 s2 st = Some (m2', st')
        /\ sbytes m1' s1 = sbytes m2' s2.
Proof. exact apply_address_independent. Qed.

(** the value: content afterwards = content before xor the key stream, which is a function of the
    state and the length of the slice only (buffered bytes, then 256-byte wide blocks, then 64-byte
    blocks) *)
Theorem C16_apply_keystream_value :
  forall (refill refill4 : N -> list N),
    (forall c, length (refill c) = 64) -> (forall c, length (refill4 c) = 256) ->
    forall m s st, slice_ok m s -> kstate_ok st ->
    exists m' st', m_apply refill refill4 m s st = Some (m', st')
                   /\ sbytes m' s = xor_bytes (sbytes m s) (key_stream refill refill4 st (s_len s)).
Proof. exact apply_value. Qed.

(** hash update: in bounds, read-only, and equal to the address-free block-buffer model on the
    slice's bytes (hence independent of the address) *)
Theorem C16_hash_update_reads_in_bounds :
  forall m s b, slice_ok m s -> bb_ok b -> m_input_block b m s <> None.
Proof. exact input_block_reads_in_bounds. Qed.

Theorem C16_hash_update_address_independent :
  forall m s b, slice_ok m s -> bb_ok b -> m_input_block b m s = Some (input_block b (sbytes m s)).
Proof. exact input_block_spec. Qed.

(** StoreBytes *)
Theorem C16_storebytes_read :
  forall size m s, slice_ok m s ->
    sb_read size m s = if s_len s =? size then Ok (sbytes m s) else Panic m.
Proof. exact sb_read_spec. Qed.

Theorem C16_storebytes_write_exactly :
  forall v m s, slice_ok m s ->
    sb_write v m s = if s_len s =? length v
                     then Ok (firstn (s_off s) m ++ v ++ skipn (s_off s + s_len s) m)
                     else Panic m.
Proof. exact sb_write_spec. Qed.

Theorem C16_storebytes_x2_read :
  forall size m s, slice_ok m s ->
    sb_read2 size m s = if (s_len s / 2 =? size) && (s_len s - s_len s / 2 =? size)
                        then Ok (sbytes m s) else Panic m.
Proof. exact sb_read2_spec. Qed.

Theorem C16_storebytes_x2_x4_write_safe :
  forall m s, slice_ok m s ->
    (forall v0 v1, res_safe m s (sb_write2 v0 v1 m s) (fun m' => m'))
    /\ (forall v0 v1 v2 v3, res_safe m s (sb_write4 v0 v1 v2 v3 m s) (fun m' => m')).
Proof. intros m s H. split; intros; [now apply sb_write2_safe|now apply sb_write4_safe]. Qed.

(** in-place block operation on a fixed-size view *)
Theorem C16_block_apply_exactly :
  forall n f m s, slice_ok m s -> (forall d, length d = n -> length (f d) = n) ->
    blk_apply n f m s = if s_len s =? n
                        then Ok (firstn (s_off s) m ++ f (sbytes m s) ++ skipn (s_off s + s_len s) m)
                        else Panic m.
Proof. exact blk_apply_spec. Qed.

(** chunk splitting covers the data exactly once *)
Theorem C16_chunks_cover :
  forall k, 0 < k -> forall l : list N,
    concat (chunks k (length l) l) = l
    /\ Forall (fun c => 0 < length c <= k) (chunks k (length l) l)
    /\ length (chunks k (length l) l) = (length l + k - 1) / k
    /\ concat (chunks_exact k (length l) l) ++ skipn (k * (length l / k)) l = l.
Proof.
  intros k Hk l. repeat split.
  - now apply chunks_concat.
  - now apply chunks_sizes.
  - now apply chunks_count.
  - now apply chunks_exact_concat_rem.
Qed.

Theorem C16_apply_segments_partition :
  forall (l : list N) hr, hr <= length l ->
    let rest := skipn hr l in
    let w := 256 * (length rest / 256) in
    l = firstn hr l ++ firstn w rest ++ skipn w rest
    /\ length (firstn w rest) mod 256 = 0 /\ length (skipn w rest) < 256.
Proof. exact apply_segments. Qed.

Print Assumptions C16_apply_keystream_reads_in_bounds.
Print Assumptions C16_apply_keystream_writes_exactly.
Print Assumptions C16_apply_keystream_address_independent.
Print Assumptions C16_apply_keystream_value.
Print Assumptions C16_hash_update_reads_in_bounds.
Print Assumptions C16_hash_update_address_independent.
Print Assumptions C16_storebytes_read.
Print Assumptions C16_storebytes_write_exactly.
Print Assumptions C16_storebytes_x2_read.
Print Assumptions C16_storebytes_x2_x4_write_safe.
Print Assumptions C16_block_apply_exactly.
Print Assumptions C16_chunks_cover.
Print Assumptions C16_apply_segments_partition.

(** * c16-tie: the full [try_apply_keystream], lazy absorption, StoreBytes x4 / big-endian / values
    (Model/SliceApiStream.v; Proofs/SliceApiStream.v, SliceApiStreamReal.v, SliceApiMore.v) *)
From CC Require Import Model.ChaChaGuts Model.ChaChaStream Model.SliceApiStream.
From CC Require Import Proofs.ChaChaGutsWords Proofs.ChaChaStreamCtr Proofs.ChaChaStreamSpec Proofs.ChaChaStreamMain.
From CC Require Import Proofs.SliceApiStream Proofs.SliceApiStreamReal Proofs.SliceApiMore.
From Coq Require Import ZArith.

(** the FULL body of try_apply_keystream (lazy fill with negative [have], len/fresh check with the
    Err return, [BLOCK - have] panic, buffered prefix, wide chunks, tail blocks, nonce-word
    restore) written with the failing accessors, run with the REAL block producers (any number of
    double rounds), for every memory, slice base address and length and every buffer whose [out]
    has 64 bytes and whose state has 32-bit words: no access outside the slice; result, successor
    buffer and slice content afterwards are those of Model/ChaChaStream.v [try_apply] (the model
    of C02/C11) on the slice's bytes; nothing outside the slice changes *)
Theorem C16_stream_apply_real_eq_faithful_model :
  forall dr is12 b m s,
    slice_ok m s -> length (b_out b) = 64 /\ wf (b_state b) ->
    exists m',
      a_try_apply (real_refill1 dr) (real_refill4 dr) is12 b m s
        = Some (fst (fst (try_apply (real_refill1 dr) (real_refill4 dr) is12 b (sbytes m s))),
                snd (fst (try_apply (real_refill1 dr) (real_refill4 dr) is12 b (sbytes m s))), m')
      /\ sbytes m' s = snd (try_apply (real_refill1 dr) (real_refill4 dr) is12 b (sbytes m s))
      /\ (length m' = length m
          /\ firstn (s_off s) m' = firstn (s_off s) m
          /\ skipn (s_off s + s_len s) m' = skipn (s_off s + s_len s) m).
Proof. exact real_try_apply_spec. Qed.

(** the same for any pair of producers that emit 64 / 256 bytes and keep their states inside a set
    [okst] (the relative form: the slice contract does not depend on the block function) *)
Theorem C16_stream_apply_eq_faithful_model :
  forall (refill1 refill4 : chacha -> list N * chacha) (okst : chacha -> Prop),
    (forall st, okst st -> length (fst (refill1 st)) = 64 /\ okst (snd (refill1 st))) ->
    (forall st, okst st -> length (fst (refill4 st)) = 256 /\ okst (snd (refill4 st))) ->
    forall is12 b m s,
      slice_ok m s -> length (b_out b) = 64 /\ okst (b_state b) ->
      exists m',
        a_try_apply refill1 refill4 is12 b m s
          = Some (fst (fst (try_apply refill1 refill4 is12 b (sbytes m s))),
                  snd (fst (try_apply refill1 refill4 is12 b (sbytes m s))), m')
        /\ sbytes m' s = snd (try_apply refill1 refill4 is12 b (sbytes m s))
        /\ (length m' = length m
            /\ firstn (s_off s) m' = firstn (s_off s) m
            /\ skipn (s_off s + s_len s) m' = skipn (s_off s + s_len s) m).
Proof. exact a_try_apply_spec. Qed.

(** alignment independence of the full model with the real producers *)
Theorem C16_stream_apply_real_address_independent :
  forall dr is12 b m1 s1 m2 s2,
    slice_ok m1 s1 -> slice_ok m2 s2 -> length (b_out b) = 64 /\ wf (b_state b) ->
    sbytes m1 s1 = sbytes m2 s2 ->
    exists r b' m1' m2',
      a_try_apply (real_refill1 dr) (real_refill4 dr) is12 b m1 s1 = Some (r, b', m1')
      /\ a_try_apply (real_refill1 dr) (real_refill4 dr) is12 b m2 s2 = Some (r, b', m2')
      /\ sbytes m1' s1 = sbytes m2' s2.
Proof. exact real_try_apply_address_independent. Qed.

(** the Err return (stream limit) and the modelled panic perform no access at all *)
Theorem C16_stream_apply_err_untouched :
  forall (refill1 refill4 : chacha -> list N * chacha) is12 b m s r b' m',
    a_try_apply refill1 refill4 is12 b m s = Some (r, b', m') -> r <> ROk -> m' = m.
Proof. exact a_try_apply_not_ok_untouched. Qed.

(** on every buffer a cipher can reach (the invariant of C02/C11 from a [stream_init] state with
    32-bit words, plus |out| = 64): Ok within the limit with the SPECIFIED key stream xor-ed into
    the slice, Err beyond it with memory untouched, never a panic, never an access outside *)
Theorem C16_stream_apply_reachable_value :
  forall dr is12 s0, stream_init is12 s0 -> wf s0 ->
  forall b pos m s,
    reachable (fun st => fst (refill st dr)) is12 s0 b pos -> length (b_out b) = 64 ->
    slice_ok m s -> (N.of_nat (s_len s) < 2 ^ 64)%N ->
    exists r b' m',
      a_try_apply (real_refill1 dr) (real_refill4 dr) is12 b m s = Some (r, b', m')
      /\ (length m' = length m
          /\ firstn (s_off s) m' = firstn (s_off s) m
          /\ skipn (s_off s + s_len s) m' = skipn (s_off s + s_len s) m)
      /\ length (b_out b') = 64
      /\ if (pos + N.of_nat (s_len s) <=? 64 * nblocks is12)%N
         then r = ROk
              /\ sbytes m' s = xor_bytes (sbytes m s) (keystream (fun st => fst (refill st dr)) is12 s0 pos (s_len s))
              /\ reachable (fun st => fst (refill st dr)) is12 s0 b' (pos + N.of_nat (s_len s))%N
         else r = RErr /\ m' = m /\ reachable (fun st => fst (refill st dr)) is12 s0 b' pos.
Proof. exact real_apply_reachable. Qed.

(** [m_apply] (the shape of the first four theorems of this file and of Run/SliceApi.v) is the
    special case 0 <= have <= 64, limit not hit, counter [c] standing for the state [stq c] *)
Theorem C16_m_apply_is_special_case :
  forall (refill1 refill4 : chacha -> list N * chacha) (stq : N -> chacha) (k1 k4 : N -> list N),
    (forall c, refill1 (stq c) = (k1 c, stq (c + 1)%N)) ->
    (forall c, refill4 (stq c) = (k4 c, stq (c + 4)%N)) ->
    forall b c m s,
      (0 <= b_have b <= 64)%Z -> b_state b = stq c ->
      a_apply_body refill1 refill4 true b m s
      = if limit_hit b (s_len s) then Some (RErr, b, m)
        else match m_apply k1 k4 m s (KS (b_out b) (Z.to_nat (b_have b)) c) with
             | Some (m', st') =>
                 Some (ROk, Buf (stq (ks_ctr st')) (ks_out st') (Z.of_nat (ks_have st'))
                                (len_after b (s_len s)) (fresh_after b (s_len s)), m')
             | None => None
             end.
Proof. exact m_apply_is_special_case. Qed.

Theorem C16_m_apply_is_special_case_real :
  forall dr s0, wf s0 ->
  forall b c m s,
    (0 <= b_have b <= 64)%Z -> b_state b = stA s0 c ->
    a_apply_body (real_refill1 dr) (real_refill4 dr) true b m s
    = if limit_hit b (s_len s) then Some (RErr, b, m)
      else match m_apply (fun c => fst (real_refill1 dr (stA s0 c))) (fun c => fst (real_refill4 dr (stA s0 c))) m s
                   (KS (b_out b) (Z.to_nat (b_have b)) c) with
           | Some (m', st') =>
               Some (ROk, Buf (stA s0 (ks_ctr st')) (ks_out st') (Z.of_nat (ks_have st'))
                              (len_after b (s_len s)) (fresh_after b (s_len s)), m')
           | None => None
           end.
Proof. exact real_m_apply_is_special_case. Qed.

(** hash update, lazy form (Skein: block-buffer [input_lazy]) *)
Theorem C16_hash_update_lazy_reads_in_bounds :
  forall m s b, slice_ok m s -> bb_ok b -> a_input_lazy b m s <> None.
Proof. exact input_lazy_reads_in_bounds. Qed.

Theorem C16_hash_update_lazy_address_independent :
  forall m s b, slice_ok m s -> bb_ok b -> a_input_lazy b m s = Some (input_lazy b (sbytes m s)).
Proof. exact input_lazy_spec. Qed.

(** StoreBytes x4 read *)
Theorem C16_storebytes_x4_read :
  forall size m s, slice_ok m s ->
    sb_read4 size m s = if (s_len s / 4 =? size) && (s_len s - 3 * (s_len s / 4) =? size)
                        then Ok (sbytes m s) else Panic m.
Proof. exact sb_read4_spec. Qed.

(** the VALUE written by the x2 / x4 writes (parts in address order); any other length is the
    model's panic with memory outside the slice unchanged, never a fault *)
Theorem C16_storebytes_x2_write_value :
  forall v0 v1 m s, slice_ok m s ->
    if (s_len s / 2 =? length v0) && (s_len s - s_len s / 2 =? length v1)
    then sb_write2 v0 v1 m s = Ok (firstn (s_off s) m ++ (v0 ++ v1) ++ skipn (s_off s + s_len s) m)
    else exists m', sb_write2 v0 v1 m s = Panic m'
                    /\ (length m' = length m
                        /\ firstn (s_off s) m' = firstn (s_off s) m
                        /\ skipn (s_off s + s_len s) m' = skipn (s_off s + s_len s) m).
Proof. exact sb_write2_value. Qed.

Theorem C16_storebytes_x4_write_value :
  forall v0 v1 v2 v3 m s, slice_ok m s ->
    if (s_len s / 4 =? length v0) && (s_len s / 4 =? length v1) && (s_len s / 4 =? length v2)
         && (s_len s - 3 * (s_len s / 4) =? length v3)
    then sb_write4 v0 v1 v2 v3 m s
         = Ok (firstn (s_off s) m ++ (v0 ++ v1 ++ v2 ++ v3) ++ skipn (s_off s + s_len s) m)
    else exists m', sb_write4 v0 v1 v2 v3 m s = Panic m'
                    /\ (length m' = length m
                        /\ firstn (s_off s) m' = firstn (s_off s) m
                        /\ skipn (s_off s + s_len s) m' = skipn (s_off s + s_len s) m).
Proof. exact sb_write4_value. Qed.

(** big-endian forms: [bswap_bytes w] = every [w]-byte word reversed ([rev_words]) *)
Theorem C16_bswap_value :
  forall w ws, 0 < w ->
    bswap_bytes w (bytes_le w ws) = flat_map (be_split w) ws
    /\ bswap_bytes w (flat_map (be_split w) ws) = bytes_le w ws.
Proof. intros w ws H. split; [now apply bswap_le_be | now apply bswap_be_le]. Qed.

Theorem C16_storebytes_read_be :
  forall w size m s, slice_ok m s ->
    sb_read_be w size m s = if s_len s =? size then Ok (bswap_bytes w (sbytes m s)) else Panic m.
Proof. exact sb_read_be_spec. Qed.

Theorem C16_storebytes_write_be :
  forall w v m s, 0 < w -> slice_ok m s ->
    sb_write_be w v m s = if s_len s =? length v
                          then Ok (firstn (s_off s) m ++ bswap_bytes w v ++ skipn (s_off s + s_len s) m)
                          else Panic m.
Proof. exact sb_write_be_spec. Qed.

Theorem C16_storebytes_x2_x4_read_be :
  forall w size m s, 0 < w -> size mod w = 0 -> slice_ok m s ->
    sb_read2_be w size m s = (if (s_len s / 2 =? size) && (s_len s - s_len s / 2 =? size)
                              then Ok (bswap_bytes w (sbytes m s)) else Panic m)
    /\ sb_read4_be w size m s = (if (s_len s / 4 =? size) && (s_len s - 3 * (s_len s / 4) =? size)
                                 then Ok (bswap_bytes w (sbytes m s)) else Panic m).
Proof. intros w size m s Hw Hm Hs. split; [now apply sb_read2_be_spec | now apply sb_read4_be_spec]. Qed.

Theorem C16_storebytes_x4_write_be_value :
  forall w v0 v1 v2 v3 m s, 0 < w -> slice_ok m s ->
    if (s_len s / 4 =? length v0) && (s_len s / 4 =? length v1) && (s_len s / 4 =? length v2)
         && (s_len s - 3 * (s_len s / 4) =? length v3)
    then sb_write4_be w v0 v1 v2 v3 m s
         = Ok (firstn (s_off s) m
               ++ (bswap_bytes w v0 ++ bswap_bytes w v1 ++ bswap_bytes w v2 ++ bswap_bytes w v3)
               ++ skipn (s_off s + s_len s) m)
    else exists m', sb_write4_be w v0 v1 v2 v3 m s = Panic m'
                    /\ (length m' = length m
                        /\ firstn (s_off s) m' = firstn (s_off s) m
                        /\ skipn (s_off s + s_len s) m' = skipn (s_off s + s_len s) m).
Proof. exact sb_write4_be_value. Qed.

Print Assumptions C16_stream_apply_real_eq_faithful_model.
Print Assumptions C16_stream_apply_eq_faithful_model.
Print Assumptions C16_stream_apply_real_address_independent.
Print Assumptions C16_stream_apply_err_untouched.
Print Assumptions C16_stream_apply_reachable_value.
Print Assumptions C16_m_apply_is_special_case.
Print Assumptions C16_m_apply_is_special_case_real.
Print Assumptions C16_hash_update_lazy_reads_in_bounds.
Print Assumptions C16_hash_update_lazy_address_independent.
Print Assumptions C16_storebytes_x4_read.
Print Assumptions C16_storebytes_x2_write_value.
Print Assumptions C16_storebytes_x4_write_value.
Print Assumptions C16_bswap_value.
Print Assumptions C16_storebytes_read_be.
Print Assumptions C16_storebytes_write_be.
Print Assumptions C16_storebytes_x2_x4_read_be.
Print Assumptions C16_storebytes_x4_write_be_value.
