(** C16 — byte-slice APIs are alignment-independent and stay inside their buffers.

    PROVED here (about Model/SliceApi.v, a model that keeps ADDRESSES: memory is a byte list, a
    slice an (offset, length) window, every access goes through a partial accessor that returns
    None outside the slice or outside mapped memory): for the generic shapes the crates use —
    key-stream application (buffered prefix / chunks_exact(256) / 64-byte tail), block-buffer
    absorption (hash update), StoreBytes read/write with its length assertion (and the x2/x4
    compositions), in-place block operation on a fixed-size view — and for ALL memories, offsets
    (= alignments) and lengths:
      (a) ..._reads_in_bounds : no access ever leaves the slice (the accessors never fail);
      (b) ..._writes_exactly  : memory outside the slice, and the size of memory, are unchanged
                                ([same_outside]), also when the call panics;
      (c) address independence: the result (and the successor state) is a function of the
          slice's content and length only; chunk splitting covers the data exactly once.

    NOT provable in any functional model, and therefore only OBSERVED (harness h_mem: guard
    pages, canaries, 64 alignments x 2 placements abutting unmapped pages, child processes):
    a load or store of the compiled code that touches bytes outside the slice — or requires an
    aligned address — without changing the computed value (e.g. [_mm_load_si128] where
    [_mm_loadu_si128] is needed, a 16-byte load at [ptr.add(len - 8)]). In the model such an
    access is a [None]; whether the machine code performs it is a fact about rustc's output and
    the intrinsics, not about the byte-level contract. The tie between this model and the code
    is the differential run (window of memory before/after each call re-computed by
    Run/SliceApi.v). Level: proof, PARTIAL. *)
From Coq Require Import NArith List Arith Bool.
From CC Require Import Lib.Bytes Model.BlockBuffer Model.SliceApi Proofs.SliceApi Proofs.SliceApiBuf Proofs.SliceApiXor.
Import ListNotations.

(** key-stream application *)
Theorem C16_apply_keystream_reads_in_bounds :
  forall (refill refill4 : N -> list N),
    (forall c, length (refill c) = 64) -> (forall c, length (refill4 c) = 256) ->
    forall m s st, slice_ok m s -> kstate_ok st -> m_apply refill refill4 m s st <> None.
Proof. exact apply_reads_in_bounds. Qed.

Theorem C16_apply_keystream_writes_exactly :
  forall (refill refill4 : N -> list N),
    (forall c, length (refill c) = 64) -> (forall c, length (refill4 c) = 256) ->
    forall m s st m' st', slice_ok m s -> kstate_ok st ->
      m_apply refill refill4 m s st = Some (m', st') ->
      length m' = length m
      /\ firstn (s_off s) m' = firstn (s_off s) m
      /\ skipn (s_off s + s_len s) m' = skipn (s_off s + s_len s) m.
Proof. exact apply_writes_exactly. Qed.

Theorem C16_apply_keystream_address_independent :
  forall (refill refill4 : N -> list N),
    (forall c, length (refill c) = 64) -> (forall c, length (refill4 c) = 256) ->
    forall m1 s1 m2 s2 st, slice_ok m1 s1 -> slice_ok m2 s2 -> kstate_ok st ->
      sbytes m1 s1 = sbytes m2 s2 ->
      exists m1' m2' st',
        m_apply refill refill4 m1 s1 st = Some (m1', st')
        /\ m_apply refill refill4 m2 s2 st = Some (m2', st')
        /\ sbytes m1' s1 = sbytes m2' s2.
Proof. exact apply_address_independent. Qed.

(** the value: content afterwards = content before xor the key stream, which is a function of the
    state and the length of the slice only (buffered bytes, then 256-byte wide blocks, then 64-byte
    blocks) *)
Theorem C16_apply_keystream_value :
  forall (refill refill4 : N -> list N),
    (forall c, length (refill c) = 64) -> (forall c, length (refill4 c) = 256) ->
    forall m s st, slice_ok m s -> kstate_ok st ->
    exists m' st', m_apply refill refill4 m s st = Some (m', st')
                   /\ sbytes m' s = xor_bytes (sbytes m s) (key_stream refill refill4 st (s_len s)).
Proof. exact apply_value. Qed.

(** hash update: in bounds, read-only, and equal to the address-free block-buffer model on the
    slice's bytes (hence independent of the address) *)
Theorem C16_hash_update_reads_in_bounds :
  forall m s b, slice_ok m s -> bb_ok b -> m_input_block b m s <> None.
Proof. exact input_block_reads_in_bounds. Qed.

Theorem C16_hash_update_address_independent :
  forall m s b, slice_ok m s -> bb_ok b -> m_input_block b m s = Some (input_block b (sbytes m s)).
Proof. exact input_block_spec. Qed.

(** StoreBytes *)
Theorem C16_storebytes_read :
  forall size m s, slice_ok m s ->
    sb_read size m s = if s_len s =? size then Ok (sbytes m s) else Panic m.
Proof. exact sb_read_spec. Qed.

Theorem C16_storebytes_write_exactly :
  forall v m s, slice_ok m s ->
    sb_write v m s = if s_len s =? length v
                     then Ok (firstn (s_off s) m ++ v ++ skipn (s_off s + s_len s) m)
                     else Panic m.
Proof. exact sb_write_spec. Qed.

Theorem C16_storebytes_x2_read :
  forall size m s, slice_ok m s ->
    sb_read2 size m s = if (s_len s / 2 =? size) && (s_len s - s_len s / 2 =? size)
                        then Ok (sbytes m s) else Panic m.
Proof. exact sb_read2_spec. Qed.

Theorem C16_storebytes_x2_x4_write_safe :
  forall m s, slice_ok m s ->
    (forall v0 v1, res_safe m s (sb_write2 v0 v1 m s) (fun m' => m'))
    /\ (forall v0 v1 v2 v3, res_safe m s (sb_write4 v0 v1 v2 v3 m s) (fun m' => m')).
Proof. intros m s H. split; intros; [now apply sb_write2_safe|now apply sb_write4_safe]. Qed.

(** in-place block operation on a fixed-size view *)
Theorem C16_block_apply_exactly :
  forall n f m s, slice_ok m s -> (forall d, length d = n -> length (f d) = n) ->
    blk_apply n f m s = if s_len s =? n
                        then Ok (firstn (s_off s) m ++ f (sbytes m s) ++ skipn (s_off s + s_len s) m)
                        else Panic m.
Proof. exact blk_apply_spec. Qed.

(** chunk splitting covers the data exactly once *)
Theorem C16_chunks_cover :
  forall k, 0 < k -> forall l : list N,
    concat (chunks k (length l) l) = l
    /\ Forall (fun c => 0 < length c <= k) (chunks k (length l) l)
    /\ length (chunks k (length l) l) = (length l + k - 1) / k
    /\ concat (chunks_exact k (length l) l) ++ skipn (k * (length l / k)) l = l.
Proof.
  intros k Hk l. repeat split.
  - now apply chunks_concat.
  - now apply chunks_sizes.
  - now apply chunks_count.
  - now apply chunks_exact_concat_rem.
Qed.

Theorem C16_apply_segments_partition :
  forall (l : list N) hr, hr <= length l ->
    let rest := skipn hr l in
    let w := 256 * (length rest / 256) in
    l = firstn hr l ++ firstn w rest ++ skipn w rest
    /\ length (firstn w rest) mod 256 = 0 /\ length (skipn w rest) < 256.
Proof. exact apply_segments. Qed.

Print Assumptions C16_apply_keystream_reads_in_bounds.
Print Assumptions C16_apply_keystream_writes_exactly.
Print Assumptions C16_apply_keystream_address_independent.
Print Assumptions C16_apply_keystream_value.
Print Assumptions C16_hash_update_reads_in_bounds.
Print Assumptions C16_hash_update_address_independent.
Print Assumptions C16_storebytes_read.
Print Assumptions C16_storebytes_write_exactly.
Print Assumptions C16_storebytes_x2_read.
Print Assumptions C16_storebytes_x2_x4_write_safe.
Print Assumptions C16_block_apply_exactly.
Print Assumptions C16_chunks_cover.
Print Assumptions C16_apply_segments_partition.
