(** C04 — BLAKE-224/256/384/512 digests conform to the BLAKE specification
    (SHA-3 finalist, unsalted) for every message. Model: Model/Blake.v (mirror of
    hashes/blake/src/{lib,consts}.rs); specification: Spec/Blake.v. *)
From Coq Require Import NArith List Lia Arith.
From CC Require Import Lib.Words Lib.Bytes Lib.ListX Model.BlockBuffer Model.Blake.
From CC Require Spec.Blake Spec.KAT_Blake.
From CC Require Import Proofs.BlakeRounds Proofs.BlakeSchedule Proofs.BlakeMain.
Import ListNotations.
Module SB := Spec.Blake.

(** The vectorised round (column step on four 4-lane rows, diagonalize, diagonal step with
    the message order 14,8,10,12, undiagonalize) is the index-wise G_0..G_7 schedule with
    sigma_r, for every word size: the word operations are arbitrary, only
    (a + x) + b = (a + b) + x is used (the code adds the message word before b). *)
Theorem C04_round_eq_spec :
  forall (add xor : N -> N -> N) (rot1 rot2 rot3 rot4 : N -> N),
    (forall a b x, add (add a x) b = add (add a b) x) ->
    forall U m xs r, length U = 16 -> length m = 16 -> rows_shape xs -> r < 16 ->
      flat (round_body add xor rot1 rot2 rot3 rot4 U m xs (nth r SIGMA [])) =
        SB.round add xor rot1 rot2 rot3 rot4 U m (flat xs) r
      /\ rows_shape (round_body add xor rot1 rot2 rot3 rot4 U m xs (nth r SIGMA [])).
Proof. exact round_eq_spec. Qed.

(** both instances satisfy the side condition *)
Theorem C04_round_side_condition :
  forall w a b x, addw w (addw w a x) b = addw w (addw w a b) x.
Proof. exact addw_swap. Qed.

(** [put_block] (message words read big-endian, constants, counter injection, 14/16 rounds,
    feed-forward) is the specified compression function *)
Theorem C04_compress_eq_spec_32 :
  forall v h blk t0 t1, v = SB.blake224 \/ v = SB.blake256 -> h_shape h -> length blk = 64 ->
    to_list (put_block32 h blk (t0, t1)) = SB.compress_v v (to_list h) (SB.block_words v blk) t0 t1
    /\ h_shape (put_block32 h blk (t0, t1)).
Proof. exact put_block32_eq_spec. Qed.

Theorem C04_compress_eq_spec_64 :
  forall v h blk t0 t1, v = SB.blake384 \/ v = SB.blake512 -> h_shape h -> length blk = 128 ->
    to_list (put_block64 h blk (t0, t1)) = SB.compress_v v (to_list h) (SB.block_words v blk) t0 t1
    /\ h_shape (put_block64 h blk (t0, t1)).
Proof. exact put_block64_eq_spec. Qed.

(** For every compressor [put], every initial value and every sequence of [update] calls,
    [finalize] has fed the compressor exactly the specified sequence of
    (block, counter) pairs of the concatenated message: the message blocks with the running
    bit count, then the padded block(s) with the specified counters (the total bit count
    if the block holds message bits, 0 for a padding-only block), counters given as the
    two words (t mod 2^w, t / 2^w mod 2^w). *)
Theorem C04_schedule_eq_spec :
  forall (v : SB.variant) (w : N) (wb : nat) (isfull : bool),
    (w = 32%N /\ wb = 4) \/ (w = 64%N /\ wb = 8) ->
    SB.wbits v = w -> SB.wbytes v = wb -> SB.marker v = (if isfull then 1 else 0)%N ->
    forall (H : Type) (put : H -> list N -> N * N -> H) (c0 : H) (parts : list (list N)),
      finalize H put w wb isfull (fold_left (update H put w wb) parts (new H wb c0)) =
        Some (fold_left (fun c bt => put c (fst bt) (SB.t_lo v (snd bt), SB.t_hi v (snd bt)))
                        (SB.schedule v (concat parts)) c0).
Proof.
  intros v w wb isfull Hcase Hw Hwb Hmk H put c0 parts.
  rewrite (hasher_schedule v w wb isfull Hcase Hw Hwb Hmk).
  f_equal. apply (fold_left_ext_inv (fun _ => True)); auto.
  intros c bt _ _. unfold putf. now rewrite (tpair_spec v w Hw).
Qed.

Theorem C04_blake256_eq_spec :
  forall msg, (8 * N.of_nat (length msg) < 2 ^ 64)%N -> blake256 msg = Some (SB.hash SB.blake256 msg).
Proof. exact blake256_eq_spec. Qed.
Theorem C04_blake224_eq_spec :
  forall msg, (8 * N.of_nat (length msg) < 2 ^ 64)%N -> blake224 msg = Some (SB.hash SB.blake224 msg).
Proof. exact blake224_eq_spec. Qed.
Theorem C04_blake512_eq_spec :
  forall msg, (8 * N.of_nat (length msg) < 2 ^ 128)%N -> blake512 msg = Some (SB.hash SB.blake512 msg).
Proof. exact blake512_eq_spec. Qed.
Theorem C04_blake384_eq_spec :
  forall msg, (8 * N.of_nat (length msg) < 2 ^ 128)%N -> blake384 msg = Some (SB.hash SB.blake384 msg).
Proof. exact blake384_eq_spec. Qed.

(** the same for any split of the message over several [update] calls *)
Theorem C04_updates_eq_spec :
  forall parts,
    digest_parts put_block32 32 4 false BLAKE224_IV 28 parts = Some (SB.hash SB.blake224 (concat parts))
    /\ digest_parts put_block32 32 4 true BLAKE256_IV 32 parts = Some (SB.hash SB.blake256 (concat parts))
    /\ digest_parts put_block64 64 8 false BLAKE384_IV 48 parts = Some (SB.hash SB.blake384 (concat parts))
    /\ digest_parts put_block64 64 8 true BLAKE512_IV 64 parts = Some (SB.hash SB.blake512 (concat parts)).
Proof.
  intros parts. repeat split.
  - apply blake224_parts_eq_spec.
  - apply blake256_parts_eq_spec.
  - apply blake384_parts_eq_spec.
  - apply blake512_parts_eq_spec.
Qed.

(** non-vacuity: the length hypotheses are satisfiable and the theorems compute on real inputs *)
Example C04_hyp_satisfiable : (8 * N.of_nat (length (repeat 0%N 72)) < 2 ^ 64)%N.
Proof. vm_compute. reflexivity. Qed.
Example C04_instance_72 :
  option_map be_join (blake256 (repeat 0%N 72)) =
    Some 0xd419bad32d504fb7d44d460c42c5593fe544fa4c135dec31e21bd9abdcc22d41%N.
Proof. vm_compute. reflexivity. Qed.
Example C04_instance_two_blocks_55_56 :
  map (fun n => blake256 (repeat 0xff%N n)) [55; 56]%nat =
  map (fun n => Some (SB.hash SB.blake256 (repeat 0xff%N n))) [55; 56]%nat
  /\ map (fun n => length (SB.schedule SB.blake256 (repeat 0xff%N n))) [55; 56; 64]%nat = [1; 2; 2]%nat.
Proof. vm_compute. split; reflexivity. Qed.

(** the specification reproduces the published vectors *)
Definition C04_kats :=
  (Spec.KAT_Blake.blake256_empty, Spec.KAT_Blake.blake224_empty, Spec.KAT_Blake.blake512_empty,
   Spec.KAT_Blake.blake384_empty, Spec.KAT_Blake.blake256_1, Spec.KAT_Blake.blake256_72,
   Spec.KAT_Blake.blake224_1, Spec.KAT_Blake.blake224_72, Spec.KAT_Blake.blake512_1,
   Spec.KAT_Blake.blake512_144, Spec.KAT_Blake.blake384_1, Spec.KAT_Blake.blake384_144,
   Spec.KAT_Blake.out_lengths,
   Spec.KAT_Blake.blake256_boundary_cross, Spec.KAT_Blake.blake224_boundary_cross,
   Spec.KAT_Blake.blake512_boundary_cross, Spec.KAT_Blake.blake384_boundary_cross).

Print Assumptions C04_round_eq_spec.
Print Assumptions C04_round_side_condition.
Print Assumptions C04_compress_eq_spec_32.
Print Assumptions C04_compress_eq_spec_64.
Print Assumptions C04_schedule_eq_spec.
Print Assumptions C04_blake256_eq_spec.
Print Assumptions C04_blake224_eq_spec.
Print Assumptions C04_blake512_eq_spec.
Print Assumptions C04_blake384_eq_spec.
Print Assumptions C04_updates_eq_spec.
Print Assumptions C04_kats.
Print Assumptions C04_hyp_satisfiable.
Print Assumptions C04_instance_72.
Print Assumptions C04_instance_two_blocks_55_56.
