(** C09 — Threefish encryption conforms to the Skein 1.3 specification. *)
From Coq Require Import NArith List.
From CC Require Import Lib.Words Lib.Bytes Model.Threefish Proofs.Threefish64.
From CC Require Spec.Threefish Spec.KAT_Threefish.
Import ListNotations.

Theorem C09_encrypt_eq_spec :
  forall c nu key t0 t1 block,
    c = threefish256 \/ c = threefish512 \/ c = threefish1024 ->
    length block = (8 * n_w c)%nat ->
    m_encrypt c nu key t0 t1 block = Spec.Threefish.spec_encrypt (spec_of c) key t0 t1 block.
Proof. exact threefish_encrypt_eq_spec. Qed.

Theorem C09_unroll_irrelevant :
  forall c key t0 t1 block,
    m_encrypt c true key t0 t1 block = m_encrypt c false key t0 t1 block
    /\ m_decrypt c true key t0 t1 block = m_decrypt c false key t0 t1 block.
Proof. exact threefish_unroll_irrelevant. Qed.

(** the specification reproduces the published vectors *)
Definition C09_kats := (Spec.KAT_Threefish.tf256_zero, Spec.KAT_Threefish.tf256_kat,
                        Spec.KAT_Threefish.tf512_zero, Spec.KAT_Threefish.tf512_kat,
                        Spec.KAT_Threefish.tf1024_zero, Spec.KAT_Threefish.tf1024_kat).

Print Assumptions C09_encrypt_eq_spec.
Print Assumptions C09_unroll_irrelevant.
Print Assumptions C09_kats.
