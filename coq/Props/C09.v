(** C09 — Threefish encryption conforms to the Skein 1.3 specification. *)
From Coq Require Import NArith List.
From CC Require Import Lib.Words Lib.Bytes Model.Threefish Proofs.Threefish64.
From CC Require Spec.Threefish Spec.KAT_Threefish.
Import ListNotations.

Theorem C09_encrypt_eq_spec :
  forall c nu key t0 t1 block,
    c = threefish256 \/ c = threefish512 \/ c = threefish1024 ->
    length block = (8 * n_w c)%nat ->
    m_encrypt c nu key t0 t1 block = Spec.Threefish.spec_encrypt (spec_of c) key t0 t1 block.
Proof. exact threefish_encrypt_eq_spec. Qed.

Theorem C09_unroll_irrelevant :
  forall c key t0 t1 block,
    m_encrypt c true key t0 t1 block = m_encrypt c false key t0 t1 block
    /\ m_decrypt c true key t0 t1 block = m_decrypt c false key t0 t1 block.
Proof. exact threefish_unroll_irrelevant. Qed.

(** the specification reproduces the published vectors *)
Definition C09_kats := (Spec.KAT_Threefish.tf256_zero, Spec.KAT_Threefish.tf256_kat,
                        Spec.KAT_Threefish.tf512_zero, Spec.KAT_Threefish.tf512_kat,
                        Spec.KAT_Threefish.tf1024_zero, Spec.KAT_Threefish.tf1024_kat).

Print Assumptions C09_encrypt_eq_spec.
Print Assumptions C09_unroll_irrelevant.
Print Assumptions C09_kats.

(** audit C09-F1 (work package audit-leftovers): arithmetic-form anchoring of the word operations.
    [C09_encrypt_eq_spec] is parametric in the word operations, and model and specification use the
    same Lib/Words.v definitions.  Proofs/LeftoversThreefish.v defines the textbook operations
    independently ([add64a], [rotl64a]: mod / div / multiplication by a power of two), proves that they
    agree with the Lib/Words.v ones on 64-bit words, and that the index-wise specification of
    Spec/Threefish.v instantiated with them ([spec_encrypt_arith]) equals [spec_encrypt] for the three
    sizes on EVERY input; hence the model equals the arithmetic-form specification. *)
From CC Require Proofs.LeftoversThreefish.

Theorem C09_arith_ops_textbook :
  ((forall a b, LeftoversThreefish.add64a a b = (a + b) mod 2 ^ 64) /\
  (forall a b, LeftoversThreefish.sub64a a b = (a + 2 ^ 64 - b) mod 2 ^ 64) /\
  (forall r x, 0 < r -> LeftoversThreefish.rotl64a r x = (x * 2 ^ r) mod 2 ^ 64 + x / 2 ^ (64 - r)) /\
  (forall r x, 0 < r -> LeftoversThreefish.rotr64a r x = x / 2 ^ r + (x * 2 ^ (64 - r)) mod 2 ^ 64) /\
  (forall x, LeftoversThreefish.rotl64a 0 x = x /\ LeftoversThreefish.rotr64a 0 x = x))%N.
Proof. exact LeftoversThreefish.arith_ops_textbook. Qed.

Theorem C09_arith_ops_agree :
  ((forall a b, LeftoversThreefish.add64a a b = Spec.Threefish.add64 a b) /\
  (forall a b, b < 2 ^ 64 -> LeftoversThreefish.sub64a a b = Spec.Threefish.sub64 a b) /\
  (forall r x, r < 64 -> x < 2 ^ 64 -> LeftoversThreefish.rotl64a r x = Spec.Threefish.rotl64 r x) /\
  (forall r x, r < 64 -> x < 2 ^ 64 -> LeftoversThreefish.rotr64a r x = Spec.Threefish.rotr64 r x))%N.
Proof. exact LeftoversThreefish.arith_ops_agree. Qed.

Theorem C09_spec_arith_is_spec_at_arith_ops :
  forall p key t0 t1 block,
    LeftoversThreefish.spec_encrypt_arith p key t0 t1 block
    = bytes_le 8 (Spec.Threefish.encrypt_words LeftoversThreefish.add64a N.lxor LeftoversThreefish.rotl64a
                    Spec.Threefish.C240 p (words_le 8 key) t0 t1 (words_le 8 block)).
Proof. exact LeftoversThreefish.spec_encrypt_arith_unfold. Qed.

Theorem C09_spec_arith_eq_spec :
  forall p key t0 t1 block,
    p = Spec.Threefish.tf256 \/ p = Spec.Threefish.tf512 \/ p = Spec.Threefish.tf1024 ->
    LeftoversThreefish.spec_encrypt_arith p key t0 t1 block = Spec.Threefish.spec_encrypt p key t0 t1 block.
Proof. exact LeftoversThreefish.spec_arith_eq. Qed.

Theorem C09_encrypt_eq_spec_arith :
  forall c nu key t0 t1 block,
    c = threefish256 \/ c = threefish512 \/ c = threefish1024 ->
    length block = (8 * n_w c)%nat ->
    m_encrypt c nu key t0 t1 block = LeftoversThreefish.spec_encrypt_arith (spec_of c) key t0 t1 block.
Proof. exact LeftoversThreefish.model_eq_spec_arith. Qed.

Print Assumptions C09_arith_ops_textbook.
Print Assumptions C09_arith_ops_agree.
Print Assumptions C09_spec_arith_is_spec_at_arith_ops.
Print Assumptions C09_spec_arith_eq_spec.
Print Assumptions C09_encrypt_eq_spec_arith.
