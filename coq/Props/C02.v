(** C02 — ChaCha stream wrapper: output depends only on the absolute position, never on
    call history; seeks of every integer type; current_pos; no panics.

    Statements only; proofs live in Proofs/ChaChaStream*.v.  They are about
    Model/ChaChaStream.v (the wrapper as written, after the fix: commits), for ANY block
    producers [refill1]/[refill4] specified by a block function [blk : state -> 64 bytes]
    ([producers_spec]: refill emits [blk s] and increments the 64-bit counter, refill4
    emits four consecutive blocks — C14 proves that of the real wide producer), for both
    counter layouts ([is12] = 12-byte nonce / 32-bit counter, otherwise 64-bit counter) and
    every initial state a constructor can produce ([stream_init]).

    The abstract machine [spec_run] has a byte position and nothing else:
    seek p -> Ok and pos := p if 0 <= p < 2^64 (and p <= 2^38 for is12), else Err;
    apply data -> if pos + |data| <= 64 * nblocks then Ok, data xor keystream[pos..], pos += |data|
                  else Err, data unchanged;
    current_pos::<T> -> pos if pos <= T::MAX else Err.
    [keystream]/[ks_byte]: byte p = byte (p mod 64) of [blk] applied to the state whose counter
    word(s) hold p / 64 and whose other words are as constructed.
    [op_ok]: slice lengths are below 2^64 (usize). *)
From Coq Require Import NArith ZArith List.
From CC Require Import Lib.Words Lib.Bytes Model.ChaChaGuts Model.ChaChaStream.
From CC Require Import Proofs.ChaChaStreamCtr Proofs.ChaChaStreamSpec Proofs.ChaChaStreamSeek Proofs.ChaChaStreamInv
  Proofs.ChaChaStreamHist Proofs.ChaChaStreamMain Proofs.ChaChaStreamReal.
Import ListNotations.
Local Open Scope N_scope.

(** every finite history from a new buffer: every observation (result and bytes of every
    apply, result of every seek, value or Err of every current_pos) is the abstract one,
    and no step panics *)
Theorem C02_stream_history_correct :
  forall refill1 refill4 blk is12 s0, stream_init is12 s0 -> producers_spec refill1 refill4 blk s0 ->
  forall ops, Forall op_ok ops ->
    run refill1 refill4 is12 (new_buffer is12 s0) ops = spec_run blk is12 s0 0 ops
    /\ existsb obs_panics (run refill1 refill4 is12 (new_buffer is12 s0) ops) = false.
Proof. exact stream_history_correct. Qed.

(** ... and from every reachable state (the invariant [Inv] of DESIGN 6/C02), which the new
    buffer satisfies and every operation preserves *)
Theorem C02_stream_history_correct_from_reachable :
  forall refill1 refill4 blk is12 s0, stream_init is12 s0 -> producers_spec refill1 refill4 blk s0 ->
  forall b pos ops, reachable blk is12 s0 b pos -> Forall op_ok ops ->
    run refill1 refill4 is12 b ops = spec_run blk is12 s0 pos ops.
Proof. exact stream_history_correct_from. Qed.

Theorem C02_reachable_init :
  forall refill1 refill4 blk is12 s0, stream_init is12 s0 -> producers_spec refill1 refill4 blk s0 ->
    reachable blk is12 s0 (new_buffer is12 s0) 0.
Proof. exact new_reachable. Qed.

Theorem C02_reachable_step :
  forall refill1 refill4 blk is12 s0, stream_init is12 s0 -> producers_spec refill1 refill4 blk s0 ->
  forall b pos o, reachable blk is12 s0 b pos -> op_ok o ->
    reachable blk is12 s0 (fst (step refill1 refill4 is12 b o)) (fst (spec_step blk is12 s0 pos o)).
Proof. exact step_reachable. Qed.

(** splitting one apply into two leaves the bytes and everything that follows unchanged *)
Theorem C02_rechunk_invariant :
  forall refill1 refill4 blk is12 s0, stream_init is12 s0 -> producers_spec refill1 refill4 blk s0 ->
  forall pre d1 d2 post,
    Forall op_ok pre -> Forall op_ok post ->
    N.of_nat (length d1 + length d2) < 2 ^ 64 ->
    spec_pos blk is12 s0 0 pre + N.of_nat (length d1 + length d2) <= stream_bytes is12 ->
    let R := run refill1 refill4 is12 (new_buffer is12 s0) in
    exists o1 o2 tl,
      R (pre ++ OApply d1 :: OApply d2 :: post) = R pre ++ ObsApply ROk o1 :: ObsApply ROk o2 :: tl /\
      R (pre ++ OApply (d1 ++ d2) :: post) = R pre ++ ObsApply ROk (o1 ++ o2) :: tl.
Proof. exact rechunk. Qed.

(** what follows an accepted seek does not depend on the history before it *)
Theorem C02_reseek_invariant :
  forall refill1 refill4 blk is12 s0, stream_init is12 s0 -> producers_spec refill1 refill4 blk s0 ->
  forall pre p post,
    Forall op_ok pre -> Forall op_ok post -> seek_in_range is12 p ->
    let R := run refill1 refill4 is12 (new_buffer is12 s0) in
    R (pre ++ OSeek p :: post) = R pre ++ R (OSeek p :: post).
Proof. exact reseek. Qed.

(** apply, seek back, apply again restores the data *)
Theorem C02_apply_twice_restores :
  forall refill1 refill4 blk is12 s0, stream_init is12 s0 -> producers_spec refill1 refill4 blk s0 ->
  forall pre d,
    Forall op_ok pre -> N.of_nat (length d) < 2 ^ 64 ->
    spec_pos blk is12 s0 0 pre + N.of_nat (length d) <= stream_bytes is12 ->
    spec_pos blk is12 s0 0 pre < 2 ^ 64 ->
    let R := run refill1 refill4 is12 (new_buffer is12 s0) in
    exists o,
      R (pre ++ [OApply d; OSeek (Z.of_N (spec_pos blk is12 s0 0 pre)); OApply o])
      = R pre ++ [ObsApply ROk o; ObsSeek ROk; ObsApply ROk d].
Proof. exact apply_twice. Qed.

(** every value of every integer type that is in range is accepted, everything else is
    [Err], and no seek panics — from every buffer whatsoever *)
Theorem C02_seek_accepts_in_range :
  forall is12 b pos,
    (fst (try_seek is12 b pos) = ROk <-> seek_in_range is12 pos)
    /\ fst (try_seek is12 b pos) <> RPanic.
Proof. exact try_seek_ok_iff. Qed.

(** the seven constructors produce a [stream_init] state *)
Theorem C02_constructors_stream_init :
  forall v drounds key nonce,
    Forall is_byte nonce ->
    length nonce = (match v with VDjb => 8 | VIetf => 12 | VX => 24 end)%nat ->
    stream_init (is12_of v) (init_of v drounds key nonce).
Proof. exact stream_init_of. Qed.

(** the real producers meet [producers_spec] given the block length and wide = 4 x narrow (C14)
    on the states of the stream *)
Theorem C02_real_producers_spec :
  forall drounds s0, length (cd s0) = 4%nat ->
  (forall q, length (fst (refill (stA s0 q) drounds)) = 64%nat) ->
  (forall q, let s := stA s0 q in
     refill_wide s drounds =
     (fst (refill s drounds) ++ fst (refill (inc_block_ct s) drounds)
        ++ fst (refill (inc_block_ct (inc_block_ct s)) drounds)
        ++ fst (refill (inc_block_ct (inc_block_ct (inc_block_ct s))) drounds),
      inc_block_ct (inc_block_ct (inc_block_ct (inc_block_ct s))))) ->
  producers_spec (real_refill1 drounds) (real_refill4 drounds) (fun s => fst (refill s drounds)) s0.
Proof. exact real_producers_spec. Qed.

(** ... and therefore, with C14 (Proofs/ChaChaGutsWide.v: block length, wide = 4 x narrow on
    well-formed states), for the model of the seven cipher types run with the REAL block
    producers of Model/ChaChaGuts.v: every history from `new` behaves as the abstract machine
    over the key stream [byte p = byte (p mod 64) of fst (refill (state at counter p / 64))] *)
Theorem C02_real_model_history_correct :
  forall v drounds key nonce ops,
    Forall is_byte key -> length key = 32%nat -> Forall is_byte nonce ->
    length nonce = (match v with VDjb => 8 | VIetf => 12 | VX => 24 end)%nat ->
    Forall op_ok ops ->
    m_run v drounds key nonce ops
      = spec_run (fun s => fst (refill s drounds)) (is12_of v) (init_of v drounds key nonce) 0 ops
    /\ existsb obs_panics (m_run v drounds key nonce ops) = false.
Proof. exact real_history_correct. Qed.

(** the hypotheses are satisfiable: a concrete 6-operation history (mid-block seek into block 0,
    5-byte apply, current_pos, 70-byte apply, seek to 3 bytes before the end of the 2^38-byte
    stream, 4-byte apply that must fail) behaves as the theorem says *)
Example C02_example_history :
  run toy_refill1 toy_refill4 true (new_buffer true toy_s0) toy_ops = spec_run toy_blk true toy_s0 0 toy_ops
  /\ map (fun o => match o with ObsSeek r => (r, 0) | ObsApply r out => (r, N.of_nat (length out))
                             | ObsPos (Some z) => (ROk, Z.to_N z) | ObsPos None => (RErr, 0) end)
       (run toy_refill1 toy_refill4 true (new_buffer true toy_s0) toy_ops)
     = [(ROk, 0); (ROk, 5); (ROk, 15); (ROk, 70); (ROk, 0); (RErr, 4)].
Proof. exact toy_history. Qed.

Print Assumptions C02_stream_history_correct.
Print Assumptions C02_stream_history_correct_from_reachable.
Print Assumptions C02_reachable_init.
Print Assumptions C02_reachable_step.
Print Assumptions C02_rechunk_invariant.
Print Assumptions C02_reseek_invariant.
Print Assumptions C02_apply_twice_restores.
Print Assumptions C02_seek_accepts_in_range.
Print Assumptions C02_constructors_stream_init.
Print Assumptions C02_real_producers_spec.
Print Assumptions C02_real_model_history_correct.
Print Assumptions C02_example_history.

(** ===== build profiles (audit C02-F1): Model/ChaChaStreamChk.v is a second transcription of the
    wrapper in which every `+ - *`, `+=`, `-=`, unary `-` on a fixed-width integer is
    [chk prof ty result]: out of range -> panic when prof = Debug, wrapped when prof = Release
    (`as` casts, wrapping_sub/overflowing_sub, constant shifts wrap in both; assert!, slice start
    and split_at_mut panic in both).  [obsc] = [obs] + a panic of try_current_pos. ===== *)
From CC Require Import Model.ChaChaStreamChk Proofs.ChaChaStreamChk.

(** the seven cipher types, real producers, EITHER build profile: every history from `new` takes
    none of the overflow-check branches - it is observation for observation the history of
    Model/ChaChaStream.v ... *)
Theorem C02_profile_model_eq :
  forall prof v drounds key nonce,
    Forall is_byte key -> length key = 32%nat -> Forall is_byte nonce ->
    length nonce = (match v with VDjb => 8 | VIetf => 12 | VX => 24 end)%nat ->
    forall ops, Forall op_ok ops ->
    m_run_chk prof v drounds key nonce ops = map OC (m_run v drounds key nonce ops).
Proof. exact m_run_chk_eq. Qed.

(** ... hence the abstract one, and no observation (apply, seek, current_pos) is a panic *)
Theorem C02_profile_history_correct :
  forall prof v drounds key nonce,
    Forall is_byte key -> length key = 32%nat -> Forall is_byte nonce ->
    length nonce = (match v with VDjb => 8 | VIetf => 12 | VX => 24 end)%nat ->
    forall ops, Forall op_ok ops ->
    m_run_chk prof v drounds key nonce ops
      = map OC (spec_run (fun s => fst (refill s drounds)) (is12_of v) (init_of v drounds key nonce) 0 ops)
    /\ existsb obsc_panics (m_run_chk prof v drounds key nonce ops) = false.
Proof. exact m_run_chk_correct. Qed.

(** one operation on any reachable state, any producers meeting [producers_spec]: same buffer,
    same observation, in either profile *)
Theorem C02_profile_step_from_reachable :
  forall prof refill1 refill4 blk is12 s0, stream_init is12 s0 -> producers_spec refill1 refill4 blk s0 ->
  forall b pos o, reachable blk is12 s0 b pos -> op_ok o ->
    step_chk prof refill1 refill4 is12 b o
    = (fst (step refill1 refill4 is12 b o), OC (snd (step refill1 refill4 is12 b o))).
Proof. exact step_chk_reachable. Qed.

(** where the invariant is needed and where not (arbitrary producers, arbitrary buffers):
    try_seek never overflows; try_apply_keystream never overflows as long as [have] is an i8 at all
    (and [BLOCK - have] with have > 64 panics in BOTH profiles: overflow check / slice start);
    try_current_pos needs [len <= total] when not fresh *)
Theorem C02_profile_try_seek_any_buffer :
  forall prof is12 b pos, try_seek_chk prof is12 b pos = try_seek is12 b pos.
Proof. exact try_seek_chk_eq. Qed.

Theorem C02_profile_try_apply_any_i8 :
  forall prof refill1 refill4 is12 b data,
    N.of_nat (length data) < 2 ^ 64 -> (-128 <= b_have b <= 127)%Z ->
    try_apply_chk prof refill1 refill4 is12 b data = try_apply refill1 refill4 is12 b data.
Proof. exact try_apply_chk_eq. Qed.

Theorem C02_profile_try_current_pos :
  forall prof is12 b tmax,
    (-128 <= b_have b <= 127)%Z -> (b_fresh b = false -> b_len b <= nblocks is12) ->
    try_current_pos_chk prof is12 b tmax = PosRet (try_current_pos is12 b tmax).
Proof. exact try_current_pos_chk_eq. Qed.

(** the checks are live: an UNreachable buffer (len = 2^32 + 1 in the 12-byte-nonce layout) makes
    `total - left` overflow - debug panics, release returns a wrapped position *)
Example C02_profile_checks_live :
  let b := Buf dummy_state (repeat 0 64) 0 (2 ^ 32 + 1) false in
  try_current_pos_chk Debug true b (2 ^ 128 - 1) = PosPanic
  /\ try_current_pos_chk Release true b (2 ^ 128 - 1) = PosRet (Some (2 ^ 128 - 64)%Z)
  /\ ~ len_le_total true b.
Proof. exact chk_live_current_pos. Qed.

Print Assumptions C02_profile_model_eq.
Print Assumptions C02_profile_history_correct.
Print Assumptions C02_profile_step_from_reachable.
Print Assumptions C02_profile_try_seek_any_buffer.
Print Assumptions C02_profile_try_apply_any_i8.
Print Assumptions C02_profile_try_current_pos.
Print Assumptions C02_profile_checks_live.
