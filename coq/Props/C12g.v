(** C12, portable part: the generic.rs back end of ppv-lite86 (feature no_simd) and the
    soft.rs x2/x4 wrappers. Vocabulary (Proofs/PpvGenericLib.v, PpvGenericWide.v):
    [wfv t v]: [v] is a value of the 128-bit type [t] (u32x4/u64x2/u128x1): [vt_n t] words
    below [2^vt_w t];  [wide t n vs]: a value of [x2]/[x4] of [t] ([n] lanes), whose flat word
    view is [concat vs];  every statement holds for both build profiles [p] and says the call
    returns ([Ok]), so none of these operations panics. *)
From Coq Require Import NArith List Arith.
From CC Require Import Lib.Words Lib.Bytes Lib.ListX Model.PpvSoft Model.PpvGeneric.
From CC Require Spec.Lanes.
From CC Require Import Proofs.PpvGenericLib Proofs.PpvGenericOps Proofs.PpvGenericSwap
  Proofs.PpvSoftFwd Proofs.PpvGenericWide Proofs.PpvGenericMove Proofs.PpvGenericTotal Proofs.PpvGenericSwapWords.
Import ListNotations.
Local Open Scope N_scope.

(** add (wrapping), xor, and, or, andnot (= !a & b) and their *_assign forms (defined as the
    same functions) act word by word, for all operands *)
Theorem C12g_portable_binop_lanewise :
  forall p t o a b, wfv t a -> wfv t b ->
    g_binop p t o a b = Ok (spec_bin (vt_w t) o a b).
Proof. exact g_binop_lanewise. Qed.

(** not, rotate_each_word_right{7,8,11,12,16,20,24,25} (and 32 for u64x2/u128x1), bswap *)
Theorem C12g_portable_unop_lanewise :
  forall p t o v, wun_ok t o -> wfv t v ->
    g_wunop p t o v = Ok (spec_un (vt_w t) o v).
Proof. exact g_wunop_lanewise. Qed.

(** swapN, N in {1,2,4,8,16,32,64}, on each of the three types (bound: all 128 bit positions):
    bit j of the result lane is bit (j xor N) of the operand lane. For u128x1 (the type the
    Machine trait requires Swap64 of) the lane is the word. *)
Theorem C12g_portable_swapN_is_bitgroup_swap :
  forall p t n v, In n [1; 2; 4; 8; 16; 32; 64] -> wfv t v ->
    exists r, g_swap p t n v = Ok r /\ wfv t r /\
              forall j, j < 128 -> N.testbit (lane t r) j = N.testbit (lane t v) (N.lxor j n).
Proof. exact g_swap_groups. Qed.

(** per-word form for N below the word width ([swaps_below w] = the N in {1,..,64} with N < w):
    bit j of word i of the result = bit (j xor N) of word i of the operand *)
Theorem C12g_portable_swapN_per_word :
  forall p t n v, In n (swaps_below (vt_w t)) -> wfv t v ->
    exists r, g_swap p t n v = Ok r /\ wfv t r /\
      forall (i : nat) j, (i < vt_n t)%nat -> j < vt_w t ->
        N.testbit (nth i r 0) j = N.testbit (nth i v 0) (N.lxor j n).
Proof. exact g_swap_words. Qed.

(** Words4 / LaneWords4 of u32x4_generic, Words4 of u64x4_generic (after repair P7) *)
Theorem C12g_portable_u32x4_shuffle_is_perm :
  forall p k v, wfv U32x4 v -> g32_lane_shuffle p k v = Ok (spec_shuffle k v).
Proof. exact g32_lane_shuffle_perm. Qed.
Theorem C12g_portable_u64x4_shuffle_is_perm :
  forall v, wide U64x2 2 v ->
    concat (u64x4_shuffle2301 v) = Lanes.shuffle2301 (concat v) /\
    concat (u64x4_shuffle1230 v) = Lanes.shuffle1230 (concat v) /\
    concat (u64x4_shuffle3012 v) = Lanes.shuffle3012 (concat v).
Proof. exact u64x4_shuffle_is_perm. Qed.

(** soft.rs: every forwarded unary / binary method of x2 and x4 applies the element method
    to each element — for any element type [W], any element method [f] that returns [g x]
    on the elements satisfying [P] *)
Theorem C12g_x2_forwards :
  forall (W : Type) (d : W) (P : W -> Prop),
    (forall f g v, (forall x, P x -> f x = Ok (g x)) -> length v = 2%nat -> Forall P v ->
                   x2_unop d f v = Ok (map g v)) /\
    (forall f g a b, (forall x y, P x -> P y -> f x y = Ok (g x y)) ->
                     length a = 2%nat -> length b = 2%nat -> Forall P a -> Forall P b ->
                     x2_binop d f a b = Ok (map2 g a b)).
Proof. exact (fun W d P => conj (x2_unop_forwards d P) (x2_binop_forwards d P)). Qed.
Theorem C12g_x4_forwards :
  forall (W : Type) (d : W) (P : W -> Prop),
    (forall f g v, (forall x, P x -> f x = Ok (g x)) -> length v = 4%nat -> Forall P v ->
                   x4_unop d f v = Ok (map g v)) /\
    (forall f g a b, (forall x y, P x -> P y -> f x y = Ok (g x y)) ->
                     length a = 4%nat -> length b = 4%nat -> Forall P a -> Forall P b ->
                     x4_binop d f a b = Ok (map2 g a b)).
Proof. exact (fun W d P => conj (x4_unop_forwards d P) (x4_binop_forwards d P)). Qed.

(** the 2- and 4-lane types of the portable back end: the lane-wise meaning lifts to the
    flat word view *)
Theorem C12g_portable_wide_binop_lanewise :
  forall p t n o a b, (n = 2 \/ n = 4)%nat -> wide t n a -> wide t n b ->
    exists r, xn_binop' n (g_binop p t o) a b = Ok r /\
              concat r = spec_bin (vt_w t) o (concat a) (concat b).
Proof. exact wide_binop_lanewise. Qed.
Theorem C12g_portable_wide_unop_lanewise :
  forall p t n o v, (n = 2 \/ n = 4)%nat -> wun_ok t o -> wide t n v ->
    exists r, xn_unop' n (g_wunop p t o) v = Ok r /\ concat r = spec_un (vt_w t) o (concat v).
Proof. exact wide_wunop_lanewise. Qed.
Theorem C12g_portable_wide_lane_shuffle_is_perm :
  forall p n k v, (n = 2 \/ n = 4)%nat -> wide U32x4 n v ->
    exists r, xn_unop' n (g32_lane_shuffle p k) v = Ok r /\
              concat r = Lanes.per_lane4 (spec_shuffle k) (concat v).
Proof. exact wide_lane_shuffle_perm. Qed.
Theorem C12g_portable_wide_swapN_is_bitgroup_swap :
  forall p t m n v, (m = 2 \/ m = 4)%nat -> In n [1; 2; 4; 8; 16; 32; 64] -> wide t m v ->
    exists r, xn_unop' m (g_swap p t n) v = Ok r /\ Forall2 (group_swapped n t) v r.
Proof. exact wide_swap_groups. Qed.

(** no panic in either profile *)
Theorem C12g_portable_total :
  forall p t,
  (forall o a b, wfv t a -> wfv t b -> is_ok (g_binop p t o a b) = true) /\
  (forall o v, wun_ok t o -> wfv t v -> is_ok (g_wunop p t o v) = true) /\
  (forall n v, In n [1; 2; 4; 8; 16; 32; 64] -> wfv t v -> is_ok (g_swap p t n v) = true) /\
  (forall k v, wfv U32x4 v -> is_ok (g32_lane_shuffle p k v) = true) /\
  (forall m o a b, (m = 2 \/ m = 4)%nat -> wide t m a -> wide t m b ->
                   is_ok (xn_binop' m (g_binop p t o) a b) = true) /\
  (forall m o v, (m = 2 \/ m = 4)%nat -> wun_ok t o -> wide t m v ->
                 is_ok (xn_unop' m (g_wunop p t o) v) = true) /\
  (forall m n v, (m = 2 \/ m = 4)%nat -> In n [1; 2; 4; 8; 16; 32; 64] -> wide t m v ->
                 is_ok (xn_unop' m (g_swap p t n) v) = true).
Proof. exact portable_total. Qed.

Print Assumptions C12g_portable_binop_lanewise.
Print Assumptions C12g_portable_unop_lanewise.
Print Assumptions C12g_portable_swapN_is_bitgroup_swap.
Print Assumptions C12g_portable_swapN_per_word.
Print Assumptions C12g_portable_u32x4_shuffle_is_perm.
Print Assumptions C12g_portable_u64x4_shuffle_is_perm.
Print Assumptions C12g_x2_forwards.
Print Assumptions C12g_x4_forwards.
Print Assumptions C12g_portable_wide_binop_lanewise.
Print Assumptions C12g_portable_wide_unop_lanewise.
Print Assumptions C12g_portable_wide_lane_shuffle_is_perm.
Print Assumptions C12g_portable_wide_swapN_is_bitgroup_swap.
Print Assumptions C12g_portable_total.

(* ---- added by work package ppv-wide: assign macros (audit F2), shuffle names (audit F3) ---- *)
From CC Require Import Model.PpvSoftAssign Proofs.PpvWideAssign Proofs.PpvWideShuffle.

(** soft.rs [fwd_binop_assign_x2!] / [fwd_binop_assign_x4!] ([&=], [|=], [^=], [+=] of x2 / x4;
    Model/PpvSoftAssign.v: statement by statement, in the order of the source): for ANY element
    type [W] and ANY element assign method [fa] they leave in [self] the array the by-value macro
    builds and panic exactly when it does; with the crate's element assign [*self = self.f(rhs)]
    ([elem_assign f]) they are the by-value form of [f] *)
Theorem C12g_assign_is_binop : forall (W : Type) (d : W),
  (forall fa self rhs, length self = 2%nat -> x2_binop_assign d fa self rhs = x2_binop d fa self rhs) /\
  (forall fa self rhs, length self = 4%nat -> x4_binop_assign d fa self rhs = x4_binop d fa self rhs) /\
  (forall (f : W -> W -> outcome W) s r, elem_assign f s r = f s r) /\
  (forall f self rhs, length self = 2%nat -> x2_binop_assign d (elem_assign f) self rhs = x2_binop d f self rhs) /\
  (forall f self rhs, length self = 4%nat -> x4_binop_assign d (elem_assign f) self rhs = x4_binop d f self rhs).
Proof.
  exact (fun W d => conj (x2_assign_is_binop d) (conj (x4_assign_is_binop d)
           (conj (@elem_assign_is_binop W) (conj (x2_assign_elem d) (x4_assign_elem d))))).
Qed.
Theorem C12g_assign_forwards : forall (W : Type) (d : W) (P : W -> Prop),
  (forall f g a b, (forall x y, P x -> P y -> f x y = Ok (g x y)) ->
                   length a = 2%nat -> length b = 2%nat -> Forall P a -> Forall P b ->
                   x2_binop_assign d (elem_assign f) a b = Ok (map2 g a b)) /\
  (forall f g a b, (forall x y, P x -> P y -> f x y = Ok (g x y)) ->
                   length a = 4%nat -> length b = 4%nat -> Forall P a -> Forall P b ->
                   x4_binop_assign d (elem_assign f) a b = Ok (map2 g a b)).
Proof. exact (fun W d P => conj (x2_assign_forwards d P) (x4_assign_forwards d P)). Qed.
(** portable back end, both profiles: lane-wise meaning of [+=], [^=], [|=], [&=] on the wide types *)
Theorem C12g_portable_wide_assign_lanewise : forall p t o a b, In o [OAdd; OXor; OOr; OAnd] ->
  (wide t 2 a -> wide t 2 b ->
     exists r, x2_binop_assign [] (elem_assign (g_binop p t o)) a b = Ok r /\
               concat r = spec_bin (vt_w t) o (concat a) (concat b)) /\
  (wide t 4 a -> wide t 4 b ->
     exists r, x4_binop_assign [] (elem_assign (g_binop p t o)) a b = Ok r /\
               concat r = spec_bin (vt_w t) o (concat a) (concat b)).
Proof. exact portable_wide_assign_lanewise. Qed.

(** Words4 / LaneWords4 of u32x4_generic over the three method names only (restates
    C12g_portable_u32x4_shuffle_is_perm, whose [k] is unrestricted because both sides send every
    other [k] to the 3012 form), and directly over the model's methods *)
Theorem C12g_portable_u32x4_shuffle_named : forall p k v, In k [1230; 2301; 3012] -> wfv U32x4 v ->
  g32_lane_shuffle p k v = Ok (spec_shuffle k v) /\
  (k = 1230 -> spec_shuffle k v = Lanes.shuffle1230 v) /\
  (k = 2301 -> spec_shuffle k v = Lanes.shuffle2301 v) /\
  (k = 3012 -> spec_shuffle k v = Lanes.shuffle3012 v).
Proof. exact g32_lane_shuffle_named. Qed.
Theorem C12g_portable_u32x4_shuffles_are_perms : forall p v, wfv U32x4 v ->
  g32_shuffle_lane_words1230 v = Lanes.shuffle1230 v /\
  g32_shuffle_lane_words2301 p v = Ok (Lanes.shuffle2301 v) /\
  g32_shuffle_lane_words3012 v = Lanes.shuffle3012 v /\
  g32_shuffle1230 v = Lanes.shuffle1230 v /\
  g32_shuffle2301 p v = Ok (Lanes.shuffle2301 v) /\
  g32_shuffle3012 v = Lanes.shuffle3012 v.
Proof. exact g32_shuffles_are_perms. Qed.
Theorem C12g_portable_wide_lane_shuffle_named : forall p n k v,
  (n = 2 \/ n = 4)%nat -> In k [1230; 2301; 3012] -> wide U32x4 n v ->
  exists r, xn_unop' n (g32_lane_shuffle p k) v = Ok r /\
            concat r = Lanes.per_lane4 (spec_shuffle k) (concat v) /\
            (k = 1230 -> concat r = Lanes.per_lane4 (@Lanes.shuffle1230 N) (concat v)) /\
            (k = 2301 -> concat r = Lanes.per_lane4 (@Lanes.shuffle2301 N) (concat v)) /\
            (k = 3012 -> concat r = Lanes.per_lane4 (@Lanes.shuffle3012 N) (concat v)).
Proof. exact wide_lane_shuffle_named. Qed.

Print Assumptions C12g_assign_is_binop.
Print Assumptions C12g_assign_forwards.
Print Assumptions C12g_portable_wide_assign_lanewise.
Print Assumptions C12g_portable_u32x4_shuffle_named.
Print Assumptions C12g_portable_u32x4_shuffles_are_perms.
Print Assumptions C12g_portable_wide_lane_shuffle_named.
