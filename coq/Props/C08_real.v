(** C08, second part — the history theorems of Props/C08.v instantiated with the REAL hashers
    (the compression and finalisation functions of Model/{Groestl,Blake,JH,Skein}.v) and composed
    with the conformance theorems C04-C07: every digest returned in any history of
    update / clone / reset / finalize_reset / finalize on any of the 15 hash types is the
    SPECIFICATION's digest of the bytes that instance absorbed, below the length bound of the
    family. Proofs: Proofs/HasherCompose{Lib,Groestl,Blake,JH,Skein}.v. *)
From Coq Require Import NArith List Arith.
From CC Require Import Lib.Words Lib.Bytes Model.BlockBuffer Model.Hasher
  Proofs.BlockBufferLazy Proofs.BlockBufferEager Proofs.Hasher Proofs.HasherFin Proofs.HasherExample.
Import ListNotations.
From CC Require Import Proofs.HasherComposeLib Proofs.HasherComposeGroestl Proofs.HasherComposeBlake
  Proofs.HasherComposeJH Proofs.HasherComposeSkein.
From CC Require Spec.Groestl Spec.Blake Spec.JH Spec.Skein Model.Groestl Model.Blake Model.JH Model.Skein.

(** * C08 for the real hashers, composed with conformance (C04-C07)

    [*_real] is the hasher record of Model/Hasher.v carrying the REAL compression and
    finalisation functions of Model/{Groestl,Blake,JH,Skein}.v.  [ops_bounded P ops]: every
    message the history [ops] hashes (the absorbed bytes of a slot at the moment of a
    finalize / finalize_reset; [Forall (fun p => P (snd p)) (snd (srun (fun m => m) [Some []] ops))])
    satisfies [P] — the length bound of the family's conformance theorem. *)

(** the transfer principle: any [hasher_ok] record whose one-shot function is the specified
    digest on messages satisfying [P] returns the specified digests in every [P]-bounded history *)
Theorem C08_real_compose :
  forall digest st (h : hasher st digest) (spec : list N -> digest) (P : list N -> Prop),
    hasher_ok h -> (forall m, P m -> h_oneshot h m = spec m) ->
    forall ops, ops_bounded P ops ->
      snd (run h [Some (h_new h)] ops) = snd (srun spec [Some []] ops).
Proof. exact @compose_history. Qed.

(** a bound on the bytes passed to [Update] alone suffices *)
Theorem C08_real_bounded_of_update_bytes :
  forall (P : list N -> Prop) (Q : N -> Prop) ops,
    Forall Q (update_bytes ops) ->
    (forall m, length m <= length (update_bytes ops) -> Forall Q m -> P m) ->
    ops_bounded P ops.
Proof. exact ops_bounded_of_update_bytes. Qed.

(** the records meet the hypotheses of all C08 theorems *)
Theorem C08_real_hashers_ok :
  (hasher_ok groestl224_real /\ hasher_ok groestl256_real /\ hasher_ok groestl384_real /\ hasher_ok groestl512_real)
  /\ (hasher_ok blake224_real /\ hasher_ok blake256_real /\ hasher_ok blake384_real /\ hasher_ok blake512_real)
  /\ (forall v, hasher_ok (jh_real v))
  /\ (forall nu v n, 0 < Model.Skein.v_bytes v -> hasher_ok (skein_real nu v n)).
Proof. exact (conj groestl_reals_ok (conj blake_reals_ok (conj jh_real_ok skein_real_ok))). Qed.

(** their one-shot functions ARE the digest functions of the concrete models (the subjects
    of C04-C07), for every message; a panic of the model ([None]/[Panic]) is rendered [[]] *)
Theorem C08_real_oneshot_is_model :
  (forall msg, h_oneshot groestl224_real msg = Model.Groestl.m_groestl224 msg
            /\ h_oneshot groestl256_real msg = Model.Groestl.m_groestl256 msg
            /\ h_oneshot groestl384_real msg = Model.Groestl.m_groestl384 msg
            /\ h_oneshot groestl512_real msg = Model.Groestl.m_groestl512 msg)
  /\ (forall msg, h_oneshot blake224_real msg = blake_or_nil (Model.Blake.blake224 msg)
               /\ h_oneshot blake256_real msg = blake_or_nil (Model.Blake.blake256 msg)
               /\ h_oneshot blake384_real msg = blake_or_nil (Model.Blake.blake384 msg)
               /\ h_oneshot blake512_real msg = blake_or_nil (Model.Blake.blake512 msg))
  /\ (forall v msg, h_oneshot (jh_real v) msg = jh_or_nil (Model.JH.m_digest Model.JH.Release v msg))
  /\ (forall nu v n msg, h_oneshot (skein_real nu v n) msg
                         = skein_or_nil (Model.Skein.digest Model.Skein.Release nu v n msg)).
Proof. exact (conj groestl_reals_oneshot (conj blake_reals_oneshot (conj jh_real_oneshot skein_real_oneshot))). Qed.

(** Groestl: fewer than 2^64 blocks, padding included (C07's bound) *)
Theorem C08_real_groestl224_history : forall ops,
  ops_bounded (fun m => (N.of_nat (Spec.Groestl.pad_blocks 64 (length m)) < 2 ^ 64)%N) ops ->
  snd (run groestl224_real [Some (h_new groestl224_real)] ops) = snd (srun Spec.Groestl.groestl224 [Some []] ops).
Proof. exact groestl224_history. Qed.
Theorem C08_real_groestl256_history : forall ops,
  ops_bounded (fun m => (N.of_nat (Spec.Groestl.pad_blocks 64 (length m)) < 2 ^ 64)%N) ops ->
  snd (run groestl256_real [Some (h_new groestl256_real)] ops) = snd (srun Spec.Groestl.groestl256 [Some []] ops).
Proof. exact groestl256_history. Qed.
Theorem C08_real_groestl384_history : forall ops,
  ops_bounded (fun m => (N.of_nat (Spec.Groestl.pad_blocks 128 (length m)) < 2 ^ 64)%N) ops ->
  snd (run groestl384_real [Some (h_new groestl384_real)] ops) = snd (srun Spec.Groestl.groestl384 [Some []] ops).
Proof. exact groestl384_history. Qed.
Theorem C08_real_groestl512_history : forall ops,
  ops_bounded (fun m => (N.of_nat (Spec.Groestl.pad_blocks 128 (length m)) < 2 ^ 64)%N) ops ->
  snd (run groestl512_real [Some (h_new groestl512_real)] ops) = snd (srun Spec.Groestl.groestl512 [Some []] ops).
Proof. exact groestl512_history. Qed.

(** BLAKE: fewer than 2^64 bits (224/256) resp. 2^128 bits (384/512) (C04's bound) *)
Theorem C08_real_blake224_history : forall ops,
  ops_bounded (fun m => (8 * N.of_nat (length m) < 2 ^ 64)%N) ops ->
  snd (run blake224_real [Some (h_new blake224_real)] ops)
  = snd (srun (Spec.Blake.hash Spec.Blake.blake224) [Some []] ops).
Proof. exact blake224_history. Qed.
Theorem C08_real_blake256_history : forall ops,
  ops_bounded (fun m => (8 * N.of_nat (length m) < 2 ^ 64)%N) ops ->
  snd (run blake256_real [Some (h_new blake256_real)] ops)
  = snd (srun (Spec.Blake.hash Spec.Blake.blake256) [Some []] ops).
Proof. exact blake256_history. Qed.
Theorem C08_real_blake384_history : forall ops,
  ops_bounded (fun m => (8 * N.of_nat (length m) < 2 ^ 128)%N) ops ->
  snd (run blake384_real [Some (h_new blake384_real)] ops)
  = snd (srun (Spec.Blake.hash Spec.Blake.blake384) [Some []] ops).
Proof. exact blake384_history. Qed.
Theorem C08_real_blake512_history : forall ops,
  ops_bounded (fun m => (8 * N.of_nat (length m) < 2 ^ 128)%N) ops ->
  snd (run blake512_real [Some (h_new blake512_real)] ops)
  = snd (srun (Spec.Blake.hash Spec.Blake.blake512) [Some []] ops).
Proof. exact blake512_history. Qed.

(** JH: byte strings of fewer than 2^61 bytes (C06's bound); all four variants *)
Theorem C08_real_jh_history : forall v size ops,
  (v = Model.JH.Jh224 /\ size = 224%N) \/ (v = Model.JH.Jh256 /\ size = 256%N) \/
  (v = Model.JH.Jh384 /\ size = 384%N) \/ (v = Model.JH.Jh512 /\ size = 512%N) ->
  ops_bounded (fun m => Forall is_byte m /\ (N.of_nat (length m) < 2 ^ 61)%N) ops ->
  snd (run (jh_real v) [Some (h_new (jh_real v))] ops) = snd (srun (Spec.JH.jh size) [Some []] ops).
Proof. exact jh_history. Qed.

(** Skein-256/512/1024, every output size 1 <= n, 8 n < 2^64, both unroll settings: byte
    strings of fewer than 2^64 bytes (C05's bound) *)
Theorem C08_real_skein_history : forall nu v p n,
  (v = Model.Skein.skein256 /\ p = Spec.Skein.skein256p) \/ (v = Model.Skein.skein512 /\ p = Spec.Skein.skein512p)
  \/ (v = Model.Skein.skein1024 /\ p = Spec.Skein.skein1024p) ->
  1 <= n -> (8 * N.of_nat n < 2 ^ 64)%N ->
  forall ops,
  ops_bounded (fun m => Forall is_byte m /\ (N.of_nat (length m) < 2 ^ 64)%N) ops ->
  snd (run (skein_real nu v n) [Some (h_new (skein_real nu v n))] ops)
  = snd (srun (Spec.Skein.skein p n) [Some []] ops).
Proof. exact skein_history. Qed.

(** the same with the hypothesis on the [Update] data only *)
Theorem C08_real_groestl_history_update_bytes : forall ops,
  (N.of_nat (length (update_bytes ops)) < 2 ^ 64 - 256)%N ->
  snd (run groestl224_real [Some (h_new groestl224_real)] ops) = snd (srun Spec.Groestl.groestl224 [Some []] ops)
  /\ snd (run groestl256_real [Some (h_new groestl256_real)] ops) = snd (srun Spec.Groestl.groestl256 [Some []] ops)
  /\ snd (run groestl384_real [Some (h_new groestl384_real)] ops) = snd (srun Spec.Groestl.groestl384 [Some []] ops)
  /\ snd (run groestl512_real [Some (h_new groestl512_real)] ops) = snd (srun Spec.Groestl.groestl512 [Some []] ops).
Proof. exact groestl_history_update_bytes. Qed.
Theorem C08_real_blake_history_update_bytes : forall ops,
  (8 * N.of_nat (length (update_bytes ops)) < 2 ^ 64)%N ->
  snd (run blake224_real [Some (h_new blake224_real)] ops) = snd (srun (Spec.Blake.hash Spec.Blake.blake224) [Some []] ops)
  /\ snd (run blake256_real [Some (h_new blake256_real)] ops) = snd (srun (Spec.Blake.hash Spec.Blake.blake256) [Some []] ops)
  /\ snd (run blake384_real [Some (h_new blake384_real)] ops) = snd (srun (Spec.Blake.hash Spec.Blake.blake384) [Some []] ops)
  /\ snd (run blake512_real [Some (h_new blake512_real)] ops) = snd (srun (Spec.Blake.hash Spec.Blake.blake512) [Some []] ops).
Proof. exact blake_history_update_bytes. Qed.
Theorem C08_real_jh_history_update_bytes : forall v size ops,
  (v = Model.JH.Jh224 /\ size = 224%N) \/ (v = Model.JH.Jh256 /\ size = 256%N) \/
  (v = Model.JH.Jh384 /\ size = 384%N) \/ (v = Model.JH.Jh512 /\ size = 512%N) ->
  Forall is_byte (update_bytes ops) -> (N.of_nat (length (update_bytes ops)) < 2 ^ 61)%N ->
  snd (run (jh_real v) [Some (h_new (jh_real v))] ops) = snd (srun (Spec.JH.jh size) [Some []] ops).
Proof. exact jh_history_update_bytes. Qed.
Theorem C08_real_skein_history_update_bytes : forall nu v p n,
  (v = Model.Skein.skein256 /\ p = Spec.Skein.skein256p) \/ (v = Model.Skein.skein512 /\ p = Spec.Skein.skein512p)
  \/ (v = Model.Skein.skein1024 /\ p = Spec.Skein.skein1024p) ->
  1 <= n -> (8 * N.of_nat n < 2 ^ 64)%N ->
  forall ops,
  Forall is_byte (update_bytes ops) -> (N.of_nat (length (update_bytes ops)) < 2 ^ 64)%N ->
  snd (run (skein_real nu v n) [Some (h_new (skein_real nu v n))] ops)
  = snd (srun (Spec.Skein.skein p n) [Some []] ops).
Proof. exact skein_history_update_bytes. Qed.

(** below the bounds the debug profile (overflow checks on) returns the same digests as the
    records (which wrap): JH and Skein models carry the profile *)
Theorem C08_real_any_profile :
  (forall p v size m,
      (v = Model.JH.Jh224 /\ size = 224%N) \/ (v = Model.JH.Jh256 /\ size = 256%N) \/
      (v = Model.JH.Jh384 /\ size = 384%N) \/ (v = Model.JH.Jh512 /\ size = 512%N) ->
      Forall is_byte m /\ (N.of_nat (length m) < 2 ^ 61)%N ->
      Model.JH.m_digest p v m = Some (h_oneshot (jh_real v) m))
  /\ (forall nu v p n,
      (v = Model.Skein.skein256 /\ p = Spec.Skein.skein256p) \/ (v = Model.Skein.skein512 /\ p = Spec.Skein.skein512p)
      \/ (v = Model.Skein.skein1024 /\ p = Spec.Skein.skein1024p) ->
      1 <= n -> (8 * N.of_nat n < 2 ^ 64)%N ->
      forall prof m, Forall is_byte m /\ (N.of_nat (length m) < 2 ^ 64)%N ->
      Model.Skein.digest prof nu v n m = Model.Skein.Ok (h_oneshot (skein_real nu v n) m)).
Proof. exact (conj jh_real_oneshot_any_profile skein_real_oneshot_any_profile). Qed.

(** lock-step: on EVERY state the record's [update] / [finalize] are the concrete model's
    (Groestl shown; [blake_real_*_sim], [jh_real_*_sim], [skein_real_*_sim] are the same for the
    other families, release profile) *)
Theorem C08_real_groestl_lockstep : forall c bits out,
  groestl_to_model (h_new (groestl_real c bits out)) = Model.Groestl.new_truncated c bits
  /\ (forall i d, groestl_to_model (h_update (groestl_real c bits out) i d)
                  = Model.Groestl.update c (groestl_to_model i) d)
  /\ (forall i, h_finalize (groestl_real c bits out) i
                = out (Model.Groestl.finalize_dirty c (groestl_to_model i))).
Proof.
  exact (fun c bits out => conj (groestl_real_new_sim c bits out)
           (conj (groestl_real_update_sim c bits out) (groestl_real_finalize_sim c bits out))).
Qed.

(** non-vacuity: concrete histories (update, clone, finalize_reset, update, finalize)
    evaluated on the real records return the specification's digests, and are bounded *)
Definition C08_real_examples :=
  (groestl256_history_example, groestl512_history_example, groestl_example_bounded,
   blake256_history_example, blake512_history_example, blake_example_bounded,
   jh256_history_example, jh_example_bounded,
   skein256_history_example, skein256_history_example_full_block, skein512_history_example,
   skein_example_bounded).

Print Assumptions C08_real_compose.
Print Assumptions C08_real_bounded_of_update_bytes.
Print Assumptions C08_real_hashers_ok.
Print Assumptions C08_real_oneshot_is_model.
Print Assumptions C08_real_groestl224_history.
Print Assumptions C08_real_groestl256_history.
Print Assumptions C08_real_groestl384_history.
Print Assumptions C08_real_groestl512_history.
Print Assumptions C08_real_blake224_history.
Print Assumptions C08_real_blake256_history.
Print Assumptions C08_real_blake384_history.
Print Assumptions C08_real_blake512_history.
Print Assumptions C08_real_jh_history.
Print Assumptions C08_real_skein_history.
Print Assumptions C08_real_groestl_history_update_bytes.
Print Assumptions C08_real_blake_history_update_bytes.
Print Assumptions C08_real_jh_history_update_bytes.
Print Assumptions C08_real_skein_history_update_bytes.
Print Assumptions C08_real_any_profile.
Print Assumptions C08_real_groestl_lockstep.
Print Assumptions C08_real_examples.

(** audit C08-F2 (work package audit-leftovers, Proofs/LeftoversHasher.v): [blake_hasher] / [skein_hasher]
    of Model/Hasher.v (the records [C08_crate_hashers_ok] is about) are a second transcription of the
    BLAKE / Skein finalisation.  Instantiated with the REAL compression and output functions
    ([blake*_crate], [skein_crate]; panic value [[]]) they are tied to the [*_real] records above:
    - BLAKE: same [update] on EVERY instance; same [finalize] on every instance satisfying the buffer
      invariant [inst_wf] (which [h_new] satisfies and [h_update] preserves).  Outside the invariant they
      can differ: the transcription takes the buffer position after the extra block to be 0 and does not
      re-check the two [debug_assert_eq!(buffer.position(), 0)]; its padding table is [0x80 :: 0^size]
      instead of the 129-byte [PADDING] (no slice taken from it is longer than [size + 1]).
    - Skein: same [new], [update], [finalize] on EVERY instance, through the bijection
      [St t0 t1 x <-> (x, (t0, t1))] between the two state types ([sk_inst], onto).
    Hence the same digests in every history and the same one-shot function. *)
From CC Require Proofs.LeftoversHasher.

Theorem C08_blake_crates_are_blake_hasher :
  LeftoversHasher.blake256_crate
    = blake_hasher [] 32 64 1 Model.Blake.BLAKE256_IV Model.Blake.put_block32 (blake_out_bytes 4 32)
  /\ LeftoversHasher.blake512_crate
    = blake_hasher [] 64 128 1 Model.Blake.BLAKE512_IV Model.Blake.put_block64 (blake_out_bytes 8 64)
  /\ LeftoversHasher.blake224_crate
    = blake_hasher [] 32 64 0 Model.Blake.BLAKE224_IV Model.Blake.put_block32 (blake_out_bytes 4 28)
  /\ LeftoversHasher.blake384_crate
    = blake_hasher [] 64 128 0 Model.Blake.BLAKE384_IV Model.Blake.put_block64 (blake_out_bytes 8 48).
Proof. exact LeftoversHasher.blake_crates_unfold. Qed.

Theorem C08_blake_crate_eq_real_ops :
  (forall i d, h_update LeftoversHasher.blake224_crate i d = h_update blake224_real i d)
  /\ (forall i d, h_update LeftoversHasher.blake256_crate i d = h_update blake256_real i d)
  /\ (forall i d, h_update LeftoversHasher.blake384_crate i d = h_update blake384_real i d)
  /\ (forall i d, h_update LeftoversHasher.blake512_crate i d = h_update blake512_real i d)
  /\ (forall i, inst_wf blake224_real i -> h_finalize LeftoversHasher.blake224_crate i = h_finalize blake224_real i)
  /\ (forall i, inst_wf blake256_real i -> h_finalize LeftoversHasher.blake256_crate i = h_finalize blake256_real i)
  /\ (forall i, inst_wf blake384_real i -> h_finalize LeftoversHasher.blake384_crate i = h_finalize blake384_real i)
  /\ (forall i, inst_wf blake512_real i -> h_finalize LeftoversHasher.blake512_crate i = h_finalize blake512_real i).
Proof. exact LeftoversHasher.blake_crate_eq_real_ops. Qed.

Theorem C08_blake_crate_eq_real_history :
  forall ops,
  snd (run LeftoversHasher.blake224_crate [Some (h_new LeftoversHasher.blake224_crate)] ops)
    = snd (run blake224_real [Some (h_new blake224_real)] ops)
  /\ snd (run LeftoversHasher.blake256_crate [Some (h_new LeftoversHasher.blake256_crate)] ops)
    = snd (run blake256_real [Some (h_new blake256_real)] ops)
  /\ snd (run LeftoversHasher.blake384_crate [Some (h_new LeftoversHasher.blake384_crate)] ops)
    = snd (run blake384_real [Some (h_new blake384_real)] ops)
  /\ snd (run LeftoversHasher.blake512_crate [Some (h_new LeftoversHasher.blake512_crate)] ops)
    = snd (run blake512_real [Some (h_new blake512_real)] ops).
Proof. exact LeftoversHasher.blake_crate_eq_real_history. Qed.

Theorem C08_blake_crate_eq_real_oneshot :
  forall msg,
  h_oneshot LeftoversHasher.blake224_crate msg = h_oneshot blake224_real msg
  /\ h_oneshot LeftoversHasher.blake256_crate msg = h_oneshot blake256_real msg
  /\ h_oneshot LeftoversHasher.blake384_crate msg = h_oneshot blake384_real msg
  /\ h_oneshot LeftoversHasher.blake512_crate msg = h_oneshot blake512_real msg.
Proof. exact LeftoversHasher.blake_crate_eq_real_oneshot. Qed.

(** [skein_crate nu v n] is [skein_hasher [] (v_bytes v) init process_block output] at the real functions *)
Theorem C08_skein_crate_is_skein_hasher :
  forall nu v n,
    LeftoversHasher.skein_crate nu v n
    = skein_hasher [] (Model.Skein.v_bytes v) (LeftoversHasher.sk_pair (skein_init nu v n))
        (LeftoversHasher.skein_pb_pair nu v) (LeftoversHasher.skein_out_real nu v n).
Proof. exact (fun _ _ _ => eq_refl). Qed.

Theorem C08_skein_crate_eq_real :
  forall nu v p n,
  skein_variant_params v p ->
  (h_new (LeftoversHasher.skein_crate nu v n) = LeftoversHasher.sk_inst (h_new (skein_real nu v n)))
  /\ (forall i d, h_update (LeftoversHasher.skein_crate nu v n) (LeftoversHasher.sk_inst i) d
                  = LeftoversHasher.sk_inst (h_update (skein_real nu v n) i d))
  /\ (forall i, h_finalize (LeftoversHasher.skein_crate nu v n) (LeftoversHasher.sk_inst i)
                = h_finalize (skein_real nu v n) i)
  /\ (forall j, exists i, j = LeftoversHasher.sk_inst i)
  /\ (forall msg, h_oneshot (LeftoversHasher.skein_crate nu v n) msg = h_oneshot (skein_real nu v n) msg)
  /\ (forall ops, snd (run (LeftoversHasher.skein_crate nu v n) [Some (h_new (LeftoversHasher.skein_crate nu v n))] ops)
                  = snd (run (skein_real nu v n) [Some (h_new (skein_real nu v n))] ops)).
Proof. exact LeftoversHasher.skein_crate_eq_real. Qed.

(** non-vacuity: a history through the transcription with a finalisation that needs the extra block *)
Definition C08_crate_examples := (LeftoversHasher.blake256_crate_example, LeftoversHasher.blake256_crate_history).

Print Assumptions C08_blake_crates_are_blake_hasher.
Print Assumptions C08_blake_crate_eq_real_ops.
Print Assumptions C08_blake_crate_eq_real_history.
Print Assumptions C08_blake_crate_eq_real_oneshot.
Print Assumptions C08_skein_crate_is_skein_hasher.
Print Assumptions C08_skein_crate_eq_real.
Print Assumptions C08_crate_examples.
