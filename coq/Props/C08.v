(** C08 — incremental hashing is invariant under chunking, cloning and reset, for every
    hasher built like the 15 hasher structs of /repo: a state, a block-buffer 0.9
    [BlockBuffer] fed with [input_block] (BLAKE, Groestl, JH) or [input_lazy] (Skein), a
    per-block closure, a finalisation, reset = replace by [Default].  The statements are
    parametric in state, closure, finalisation and block size ([hasher_ok]: block size
    positive; the length bookkeeping of [update] is additive and commutes with the closure;
    finalisation ignores stale buffer bytes). *)
From Coq Require Import NArith List Arith.
From CC Require Import Lib.Words Lib.Bytes Model.BlockBuffer Model.Hasher
  Proofs.BlockBufferLazy Proofs.BlockBufferEager Proofs.Hasher Proofs.HasherFin Proofs.HasherExample.
Import ListNotations.

(** feeding [a] then [c] to the buffer = feeding [a ++ c]: same blocks handed to the closure
    in the same order, same buffered bytes and position afterwards *)
Theorem C08_input_block_app :
  forall b a c, bb_wf b ->
    snd (input_block b (a ++ c)) = snd (input_block b a) ++ snd (input_block (fst (input_block b a)) c)
    /\ bb_eqv (fst (input_block (fst (input_block b a)) c)) (fst (input_block b (a ++ c))).
Proof. exact input_block_app. Qed.

Theorem C08_input_lazy_app :
  forall b a c, bb_wf b ->
    snd (input_lazy b (a ++ c)) = snd (input_lazy b a) ++ snd (input_lazy (fst (input_lazy b a)) c)
    /\ bb_eqv (fst (input_lazy (fst (input_lazy b a)) c)) (fst (input_lazy b (a ++ c))).
Proof. exact input_lazy_app. Qed.

(** any partition of a message into update calls (empty pieces, pieces spanning many
    blocks, ...) leaves the instance in the state of a single update *)
Theorem C08_update_chunks :
  forall st digest (h : hasher st digest), hasher_ok h ->
  forall pieces : list (list N),
    inst_eqv (fold_left (h_update h) pieces (h_new h)) (h_update h (h_new h) (concat pieces)).
Proof. exact @update_chunks. Qed.

Theorem C08_chunking_invariant :
  forall st digest (h : hasher st digest), hasher_ok h ->
  forall pieces : list (list N),
    h_finalize h (fold_left (h_update h) pieces (h_new h)) = h_oneshot h (concat pieces).
Proof. exact @chunking_invariant. Qed.

(** every digest returned by any history of update / clone / reset / finalize_reset /
    finalize on a table of instances is the one-shot hash of the bytes absorbed by that
    instance since its creation or last reset (a clone inherits the bytes of its origin at
    the moment of cloning and is a slot of its own from then on) *)
Theorem C08_hasher_history_correct :
  forall st digest (h : hasher st digest), hasher_ok h ->
  forall ops : list op,
    snd (run h [Some (h_new h)] ops) = snd (srun (h_oneshot h) [Some []] ops).
Proof. exact @hasher_history_correct. Qed.

(** from the clone on, clone and origin each return what a single instance in the origin's
    state at that moment returns under the operations naming it *)
Theorem C08_clone_independent :
  forall st digest (h : hasher st digest) (T : table st) k i post,
    live T k = Some i ->
    outputs_of (length T) (snd (run h T (Clone k :: post))) = run1 h (Some i) (proj (length T) post)
    /\ outputs_of k (snd (run h T (Clone k :: post))) = run1 h (Some i) (proj k post).
Proof. exact @clone_independent. Qed.

(** after reset / finalize_reset an instance returns what a new instance returns *)
Theorem C08_reset_like_new :
  forall st digest (h : hasher st digest) (T : table st) k i post,
    live T k = Some i ->
    outputs_of k (snd (run h T (Reset k :: post))) = run1 h (Some (h_new h)) (proj k post)
    /\ outputs_of k (snd (run h T (FinalizeReset k :: post)))
       = h_finalize h i :: run1 h (Some (h_new h)) (proj k post).
Proof. exact @reset_like_new. Qed.

Theorem C08_new_table_run1 :
  forall st digest (h : hasher st digest) ops,
    outputs_of 0 (snd (run h [Some (h_new h)] ops)) = run1 h (Some (h_new h)) (proj 0 ops).
Proof. exact @new_table_run1. Qed.

(** the four shapes of hasher struct in /repo meet the hypotheses, for any compression
    function, initial value and (stale-byte-blind) finalisation *)
Theorem C08_shapes_ok :
  forall X digest,
    (forall w size iv put_block (fin : X * (N * N) -> bb -> digest),
        0 < size -> fin_ok fin -> hasher_ok (blake_shape w size iv put_block fin))
    /\ (forall size iv input (fin : X * N -> bb -> digest),
        0 < size -> fin_ok fin -> hasher_ok (groestl_shape size iv input fin))
    /\ (forall size iv input (fin : X * N -> bb -> digest),
        0 < size -> fin_ok fin -> hasher_ok (jh_shape size iv input fin))
    /\ (forall size init process_block (fin : X * (N * N) -> bb -> digest),
        0 < size -> fin_ok fin -> hasher_ok (skein_shape size init process_block fin)).
Proof. exact @shapes_ok. Qed.

(** [fin_ok] holds for every finalisation that reads the buffer only through the
    block-buffer calls the four crates use (each blind to stale bytes), block size and position:
    [input_block] of padding bytes (BLAKE), [len64_padding_be] (Groestl; JH, empty buffer),
    [pad_with::<Iso7816>] (JH), [pad_with::<ZeroPadding>] (Skein), and choices between them *)
Theorem C08_fin_ok_combinators :
  forall st digest,
    (forall (F : st -> nat -> nat -> list (list N) -> digest) (P : st -> nat -> nat -> list (list N)),
        fin_ok (fun s b => F s (bb_size b) (bb_pos b) (snd (feed b (P s (bb_size b) (bb_pos b))))))
    /\ (forall k (F : st -> nat -> nat -> list (list N) -> digest) (L : st -> nat -> nat -> N),
        fin_ok (fun s b => F s (bb_size b) (bb_pos b) (snd (len_padding_be k b (L s (bb_size b) (bb_pos b))))))
    /\ (forall (F : st -> nat -> nat -> list N -> digest),
        fin_ok (fun s b => F s (bb_size b) (bb_pos b)
                             (zero_from (ListX.upd (bb_pos b) 0x80%N (bb_buf b)) (bb_pos b + 1))))
    /\ (forall (F : st -> nat -> nat -> option (bb * list N) -> digest),
        fin_ok (fun s b => F s (bb_size b) (bb_pos b) (pad_with_zero b)))
    /\ (forall (c : st -> nat -> nat -> bool) (f g : st -> bb -> digest),
        fin_ok f -> fin_ok g -> fin_ok (fun s b => if c s (bb_size b) (bb_pos b) then f s b else g s b)).
Proof. exact @fin_ok_combinators. Qed.

(** the complete plumbing of each crate as written ([update], the per-block closure with its
    counter, [finalize_into_dirty] incl. padding and length encoding; Model/Hasher.v
    [blake_hasher], [groestl_hasher], [jh_hasher], [skein_hasher]) meets the hypotheses of all the
    theorems above for EVERY compression function, output function, initial value and block
    size > 0; so C08 holds for the 15 types whatever their compression functions compute *)
Theorem C08_crate_hashers_ok :
  forall X digest (dflt : digest),
  (forall w size isfull (iv : X) put_block (out : X -> digest), 0 < size ->
      hasher_ok (blake_hasher dflt w size isfull iv put_block out))
  /\ (forall size (iv : X) input (out : X -> digest), 0 < size ->
      hasher_ok (groestl_hasher size iv input out))
  /\ (forall (iv : X) input (out : X -> digest), hasher_ok (jh_hasher dflt iv input out))
  /\ (forall size (init : X * (N * N)) process_block (output : X -> digest), 0 < size ->
      hasher_ok (skein_hasher dflt size init process_block output)).
Proof. exact @crate_hashers_ok. Qed.

(** the buffering hands every byte to the closure or keeps it, exactly once and in order
    (the logging hasher reconstructs the message) *)
Theorem C08_log_oneshot_id :
  forall size lazy msg, 0 < size -> h_oneshot (log_hasher size lazy) msg = msg.
Proof. exact log_oneshot_id. Qed.

(** non-vacuity: the hypotheses hold for a concrete hasher and concrete histories evaluate
    as stated; a hasher violating them (counting update calls) violates the conclusion *)
Definition C08_examples := (log_hasher_ok, ex_eager, ex_lazy, ex_eager_state, ex_lazy_state,
                            ex_call_counter_not_chunking_invariant).

Print Assumptions C08_input_block_app.
Print Assumptions C08_input_lazy_app.
Print Assumptions C08_update_chunks.
Print Assumptions C08_chunking_invariant.
Print Assumptions C08_hasher_history_correct.
Print Assumptions C08_clone_independent.
Print Assumptions C08_reset_like_new.
Print Assumptions C08_new_table_run1.
Print Assumptions C08_shapes_ok.
Print Assumptions C08_fin_ok_combinators.
Print Assumptions C08_crate_hashers_ok.
Print Assumptions C08_log_oneshot_id.
Print Assumptions C08_examples.
