(** C13, portable part: the generic.rs back end of ppv-lite86 (feature no_simd) and the
    soft.rs x2/x4 wrappers. Vocabulary as in Props/C12g.v; [wfb s]: 16 bytes;
    [img t v = bytes_le (vt_k t) v]: the little-endian byte image of a 128-bit value. *)
From Coq Require Import NArith List Arith.
From CC Require Import Lib.Words Lib.Bytes Lib.ListX Model.PpvSoft Model.PpvGeneric.
From CC Require Spec.Lanes.
From CC Require Import Proofs.PpvGenericLib Proofs.PpvGenericOps Proofs.PpvSoftFwd
  Proofs.PpvGenericWide Proofs.PpvGenericMove Proofs.PpvGenericBytes.
Import ListNotations.
Local Open Scope N_scope.

(** from_lanes / to_lanes: 128-bit types, x2/x4 (any element type), u64x4 as [[u64;4]];
    the [[u64;4]] lanes of u64x4 are its flat word view *)
Theorem C13g_portable_from_to_lanes :
  (forall v : list N, g_to_lanes (g_from_lanes v) = v /\ g_from_lanes (g_to_lanes v) = v) /\
  (forall (W : Type) (v : list W), xn_to_lanes (xn_from_lanes v) = v /\ xn_from_lanes (xn_to_lanes v) = v) /\
  (forall xs, length xs = 4%nat -> u64x4_to_lanes (u64x4_from_lanes xs) = xs) /\
  (forall v, wide U64x2 2 v -> u64x4_from_lanes (u64x4_to_lanes v) = v /\ u64x4_to_lanes v = concat v).
Proof.
  exact (conj g_from_to_lanes (conj (@xn_from_to_lanes) (conj u64x4_from_to_lanes u64x4_to_from_lanes))).
Qed.

(** vec128_storage holds the little-endian byte image; unpacking it as another type is the
    little-endian reinterpretation, as itself the identity; explicit packing formulas *)
Theorem C13g_portable_storage_views_little_endian :
  (forall p t t' v, wfv t v ->
     into128 p t v = Ok (img t v) /\
     unpack128 p t' (img t v) = Ok (Lanes.reinterpret (vt_k t) (vt_k t') v) /\
     unpack128 p t (img t v) = Ok v) /\
  (forall d q, st_q (st_of_d d) = Lanes.reinterpret 4 8 d /\ st_d (st_of_q q) = Lanes.reinterpret 8 4 q) /\
  (forall a b c d, a < 2 ^ 32 -> b < 2 ^ 32 -> c < 2 ^ 32 -> d < 2 ^ 32 ->
     Lanes.reinterpret 4 8 [a; b; c; d] = [a + N.shiftl b 32; c + N.shiftl d 32]) /\
  (forall a b, a < 2 ^ 64 -> b < 2 ^ 64 -> Lanes.reinterpret 8 16 [a; b] = [a + N.shiftl b 64]).
Proof.
  exact (conj storage128_views (conj storage128_array_views (conj reinterpret_32_to_64 reinterpret_64_to_128))).
Qed.
(** vec256_storage / vec512_storage: into-storage then unpack is the identity on the wide
    types, the storage is the lanes' images in order; the [[u64;4]] view of vec256_storage *)
Theorem C13g_portable_wide_storage :
  (forall p t (n : nat) v, (n = 2 \/ n = 4)%nat -> wide t n v ->
     (if (n =? 2)%nat then x2_into [] (into128 p t) v else x4_into [] (into128 p t) v) = Ok (map (img t) v) /\
     (if (n =? 2)%nat then x2_unpack [] (unpack128 p t) (split128 (new128 (map (img t) v)))
      else x4_unpack [] (unpack128 p t) (split128 (new128 (map (img t) v)))) = Ok v) /\
  (forall q, length q = 4%nat -> Forall (fun x => x < 2 ^ 64) q -> st256_to_q4 (st256_of_q4 q) = q) /\
  (forall s0 s1, wfb s0 -> wfb s1 -> st256_to_q4 [s0; s1] = words_le 8 s0 ++ words_le 8 s1).
Proof. exact (conj wide_storage_roundtrip (conj st256_q4_roundtrip st256_q4_of_lanes)). Qed.

(** insert / extract ([Vec2], [Vec4] of the 128-bit types and of x2/x4 are [store]/[index]):
    insert changes exactly the selected element, extract returns it; out of range panics *)
Theorem C13g_insert_extract :
  (forall (A : Type) (v v' : list A) x i j,
     store v i x = Ok v' -> index v' j = if j =? i then Ok x else index v j) /\
  (forall (A : Type) (v : list A) i x, i < N.of_nat (length v) -> store v i x = Ok (upd (N.to_nat i) x v)) /\
  (forall (v : list N) i, i < N.of_nat (length v) -> index v i = Ok (Lanes.v_extract v (N.to_nat i))) /\
  (forall (A : Type) (v : list A) i x, N.of_nat (length v) <= i -> store v i x = Panic /\ index v i = Panic).
Proof.
  exact (conj (@insert_extract) (conj (@store_ok) (conj index_ok
           (fun A v i x H => conj (store_panics v i x H) (index_panics v i H))))).
Qed.
(** [Vec4<u64> for u64x4_generic] after repair P6, all indices *)
Theorem C13g_portable_u64x4_insert_extract :
  (forall v x i, wide U64x2 2 v -> i < 4 ->
     u64x4_extract v i = Ok (Lanes.v_extract (concat v) (N.to_nat i)) /\
     exists v', u64x4_insert v x i = Ok v' /\ length v' = 2%nat /\
                concat v' = Lanes.v_insert (concat v) x (N.to_nat i) /\
                Forall (fun l => length l = 2%nat) v') /\
  (forall v x i, length v = 2%nat -> 4 <= i -> u64x4_insert v x i = Panic /\ u64x4_extract v i = Panic).
Proof. exact (conj u64x4_insert_extract u64x4_index_panics). Qed.

Theorem C13g_transpose4_is_transpose :
  forall (W : Type) (d : W) a b c e, x4_transpose4 d a b c e = Lanes.transpose4 d a b c e.
Proof. exact (@x4_transpose4_is_transpose). Qed.
Theorem C13g_portable_to_scalars_lane_order :
  forall v, wide U32x4 4 v -> u32x4x4_to_scalars v = concat v.
Proof. exact u32x4x4_to_scalars_lane_order. Qed.

(** StoreBytes of u32x4_generic / u64x2_generic: stated byte order, round trips, wrong length panics *)
Theorem C13g_portable_read_write_le_be :
  forall p t, has_bytes t ->
  (forall bs, wfb bs -> g_read_le p t bs = Ok (Lanes.read_le (vt_k t) bs)) /\
  (forall bs, wfb bs -> g_read_be p t bs = Ok (Lanes.read_be (vt_k t) bs)) /\
  (forall v, wfv t v -> g_write_le p t v 16 = Ok (Lanes.write_le (vt_k t) v)) /\
  (forall v, wfv t v -> g_write_be p t v 16 = Ok (Lanes.write_be (vt_k t) v)) /\
  (forall v, wfv t v -> exists bs, g_write_le p t v 16 = Ok bs /\ wfb bs /\ g_read_le p t bs = Ok v) /\
  (forall v, wfv t v -> exists bs, g_write_be p t v 16 = Ok bs /\ wfb bs /\ g_read_be p t bs = Ok v) /\
  (forall bs v n, length bs <> 16%nat -> n <> 16%nat -> wfv t v ->
     g_read_le p t bs = Panic /\ g_read_be p t bs = Panic /\
     g_write_le p t v n = Panic /\ g_write_be p t v n = Panic).
Proof.
  exact (fun p t Ht => conj (g_read_le_spec p t Ht) (conj (g_read_be_spec p t Ht)
          (conj (g_write_le_spec p t Ht) (conj (g_write_be_spec p t Ht)
          (conj (g_le_roundtrip p t Ht) (conj (g_be_roundtrip p t Ht) (g_storebytes_wrong_len p t Ht))))))).
Qed.
(** StoreBytes of x2 / x4 over them: words in lane order, same byte order per word *)
Theorem C13g_portable_wide_read_write :
  (forall p t (n : nat) v, has_bytes t -> (n = 2 \/ n = 4)%nat -> wide t n v ->
     (if (n =? 2)%nat then x2_write [] (g_write_le p t) v 32 else x4_write [] (g_write_le p t) v 64)
       = Ok (Lanes.write_le (vt_k t) (concat v)) /\
     (if (n =? 2)%nat then x2_write [] (g_write_be p t) v 32 else x4_write [] (g_write_be p t) v 64)
       = Ok (Lanes.write_be (vt_k t) (concat v))) /\
  (forall p t (n : nat) bs, has_bytes t -> (n = 2 \/ n = 4)%nat -> length bs = (16 * n)%nat -> Forall is_byte bs ->
     (exists r, (if (n =? 2)%nat then x2_read (g_read_le p t) bs else x4_read (g_read_le p t) bs) = Ok r /\
                concat r = Lanes.read_le (vt_k t) bs) /\
     (exists r, (if (n =? 2)%nat then x2_read (g_read_be p t) bs else x4_read (g_read_be p t) bs) = Ok r /\
                concat r = Lanes.read_be (vt_k t) bs)).
Proof. exact (conj wide_write_spec wide_read_spec). Qed.

Print Assumptions C13g_portable_from_to_lanes.
Print Assumptions C13g_portable_storage_views_little_endian.
Print Assumptions C13g_portable_wide_storage.
Print Assumptions C13g_insert_extract.
Print Assumptions C13g_portable_u64x4_insert_extract.
Print Assumptions C13g_transpose4_is_transpose.
Print Assumptions C13g_portable_to_scalars_lane_order.
Print Assumptions C13g_portable_read_write_le_be.
Print Assumptions C13g_portable_wide_read_write.
