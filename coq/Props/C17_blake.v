(** C17 (BLAKE part) — the bit counter t = (t.0, t.1) of Blake224/256 (32-bit words) and
    Blake384/512 (64-bit words) is exact for every message length below the format limit
    2^64 resp. 2^128 bits, across the carry from t.0 into t.1 (2^32 resp. 2^64 bits),
    and the overflow-checked arithmetic of [increase_count] (debug profile) never fires
    below that limit. *)
From Coq Require Import NArith List Lia Arith.
From CC Require Import Lib.Words Lib.Bytes Lib.ListX Model.BlockBuffer Model.Blake.
From CC Require Import Proofs.BlakeSchedule Proofs.BlakeCounter Proofs.BlakeMain.
Import ListNotations.

Theorem C17_blake_t_exact :
  forall w wb, (w = 32%N /\ wb = 4) \/ (w = 64%N /\ wb = 8) ->
  forall (H : Type) (put : H -> list N -> N * N -> H) (c0 : H) (parts : list (list N)),
    let s := fold_left (update H put w wb) parts (new H wb c0) in
    let m := concat parts in
    (8 * N.of_nat (length m) < 2 ^ (2 * w))%N ->
    (fst (t H s) + 2 ^ w * snd (t H s))%N = (8 * N.of_nat (16 * wb * (length m / (16 * wb)))%nat)%N
    /\ (let t' := increase_count w (t H s) (N.of_nat (bb_pos (buffer H s))) in
        (fst t' + 2 ^ w * snd t')%N = (8 * N.of_nat (length m))%N)
    /\ finalize_overflows H w s = false
    /\ (forall d, (8 * N.of_nat (length (m ++ d)) < 2 ^ (2 * w))%N -> update_overflows H w wb s d = false).
Proof. exact blake_t_exact. Qed.

(** one step of the counter at the real widths, any starting value (hook-entered states):
    adds exactly 8*count modulo 2^(2w), with the carry *)
Theorem C17_blake_increase_count_exact :
  forall w wb, (w = 32%N /\ wb = 4) \/ (w = 64%N /\ wb = 8) ->
  forall T c, (8 * c < 2 ^ 32)%N ->
    increase_count w (tpair w T) c = tpair w (T + 8 * c)
    /\ ((T + 8 * c < 2 ^ (2 * w))%N -> increase_count_overflows w (tpair w T) c = false).
Proof.
  intros w wb Hcase T c Hc. split.
  - now apply (increase_count_exact w wb Hcase).
  - intros Hb. now apply (increase_count_no_overflow w wb Hcase).
Qed.

(** therefore the digests conform for those lengths (C04 is stated with exactly these bounds) *)
Definition C17_blake_digests := (blake224_eq_spec, blake256_eq_spec, blake384_eq_spec, blake512_eq_spec).

(** the carry fires; the bound is tight *)
Definition C17_blake_examples := (carry_32, carry_64, overflow_at_limit_32, overflow_at_limit_64).

Print Assumptions C17_blake_t_exact.
Print Assumptions C17_blake_increase_count_exact.
Print Assumptions C17_blake_digests.
Print Assumptions C17_blake_examples.
