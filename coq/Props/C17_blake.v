(** C17 (BLAKE part) — the bit counter t = (t.0, t.1) of Blake224/256 (32-bit words) and
    Blake384/512 (64-bit words) is exact for every message length below the format limit
    2^64 resp. 2^128 bits, across the carry from t.0 into t.1 (2^32 resp. 2^64 bits),
    and the overflow-checked arithmetic of [increase_count] (debug profile) never fires
    below that limit. *)
From Coq Require Import NArith List Lia Arith.
From CC Require Import Lib.Words Lib.Bytes Lib.ListX Model.BlockBuffer Model.Blake.
From CC Require Import Proofs.BlakeSchedule Proofs.BlakeCounter Proofs.BlakeMain.
Import ListNotations.

Theorem C17_blake_t_exact :
  forall w wb, (w = 32%N /\ wb = 4) \/ (w = 64%N /\ wb = 8) ->
  forall (H : Type) (put : H -> list N -> N * N -> H) (c0 : H) (parts : list (list N)),
    let s := fold_left (update H put w wb) parts (new H wb c0) in
    let m := concat parts in
    (8 * N.of_nat (length m) < 2 ^ (2 * w))%N ->
    (fst (t H s) + 2 ^ w * snd (t H s))%N = (8 * N.of_nat (16 * wb * (length m / (16 * wb)))%nat)%N
    /\ (let t' := increase_count w (t H s) (N.of_nat (bb_pos (buffer H s))) in
        (fst t' + 2 ^ w * snd t')%N = (8 * N.of_nat (length m))%N)
    /\ finalize_overflows H w s = false
    /\ (forall d, (8 * N.of_nat (length (m ++ d)) < 2 ^ (2 * w))%N -> update_overflows H w wb s d = false).
Proof. exact blake_t_exact. Qed.

(** one step of the counter at the real widths, any starting value (hook-entered states):
    adds exactly 8*count modulo 2^(2w), with the carry *)
Theorem C17_blake_increase_count_exact :
  forall w wb, (w = 32%N /\ wb = 4) \/ (w = 64%N /\ wb = 8) ->
  forall T c, (8 * c < 2 ^ 32)%N ->
    increase_count w (tpair w T) c = tpair w (T + 8 * c)
    /\ ((T + 8 * c < 2 ^ (2 * w))%N -> increase_count_overflows w (tpair w T) c = false).
Proof.
  intros w wb Hcase T c Hc. split.
  - now apply (increase_count_exact w wb Hcase).
  - intros Hb. now apply (increase_count_no_overflow w wb Hcase).
Qed.

(** therefore the digests conform for those lengths (C04 is stated with exactly these bounds) *)
Definition C17_blake_digests := (blake224_eq_spec, blake256_eq_spec, blake384_eq_spec, blake512_eq_spec).

(** the carry fires; the bound is tight *)
Definition C17_blake_examples := (carry_32, carry_64, overflow_at_limit_32, overflow_at_limit_64).

Print Assumptions C17_blake_t_exact.
Print Assumptions C17_blake_increase_count_exact.
Print Assumptions C17_blake_digests.
Print Assumptions C17_blake_examples.

(* ---- c17-fromstate: digest continued from ANY entered state = specification ---- *)
From CC Require Import Proofs.BlakeBuffer Proofs.BlakeRounds Proofs.BlakeFromState.
From CC Require Spec.Blake.

(** any compressor: [update] then [finalize] from a state entered with prior block count [K]
    (counter = 8 * block bytes * K bits, modulo 2^(2w) as in the format), chaining state [c], buffer
    holding [buffered]: the compressor is fed exactly the specified (block, counter) schedule
    continued at block [K] over buffered ++ tail *)
Theorem C17_blake_update_finalize_from_state :
  forall (v : Spec.Blake.variant) (w : N) (wb : nat) (isfull : bool),
  (w = 32%N /\ wb = 4) \/ (w = 64%N /\ wb = 8) ->
  Spec.Blake.wbits v = w -> Spec.Blake.wbytes v = wb ->
  Spec.Blake.marker v = (if isfull then 1 else 0)%N ->
  forall (H : Type) (put : H -> list N -> N * N -> H) (K : N) (c : H) (b : bb) (buffered tail : list N),
  wfb (16 * wb) b -> content b = buffered ->
  finalize H put w wb isfull
    (update H put w wb (Hasher H c b (tpair w (8 * N.of_nat (16 * wb) * K))) tail)
  = Some (fold_left (putf w H put) (Spec.Blake.schedule_from v K (buffered ++ tail)) c).
Proof. exact update_finalize_from. Qed.

(** the four hashers, in the terms of the correspondence check (Run/Blake.v, case [BH]): chaining
    value = any 8 words [hw], counter words [t0], [t1] below 2^w representing a whole number of
    blocks, any buffered prefix shorter than a block, any tail: [digest_from] (no panic) equals
    [Spec.Blake.hash_from] at block index (t0 + t1 * 2^w) / (8 * block bytes) *)
Theorem C17_blake224_from_state_eq_spec :
  forall (hw : list N) (t0 t1 : N) (buffered tail : list N),
  length hw = 8 -> (t0 < 2 ^ 32)%N -> (t1 < 2 ^ 32)%N ->
  ((t0 + t1 * 2 ^ 32) mod 512 = 0)%N -> length buffered < 64 ->
  digest_from put_block32 32 4 false 28 (firstn 4 hw, skipn 4 hw) t0 t1 buffered tail
  = Some (Spec.Blake.hash_from Spec.Blake.blake224 hw
            ((t0 + t1 * 2 ^ Spec.Blake.wbits Spec.Blake.blake224) / (8 * Spec.Blake.block_N Spec.Blake.blake224))%N
            (buffered ++ tail)).
Proof. exact blake224_from_state_words. Qed.
Theorem C17_blake256_from_state_eq_spec :
  forall (hw : list N) (t0 t1 : N) (buffered tail : list N),
  length hw = 8 -> (t0 < 2 ^ 32)%N -> (t1 < 2 ^ 32)%N ->
  ((t0 + t1 * 2 ^ 32) mod 512 = 0)%N -> length buffered < 64 ->
  digest_from put_block32 32 4 true 32 (firstn 4 hw, skipn 4 hw) t0 t1 buffered tail
  = Some (Spec.Blake.hash_from Spec.Blake.blake256 hw
            ((t0 + t1 * 2 ^ Spec.Blake.wbits Spec.Blake.blake256) / (8 * Spec.Blake.block_N Spec.Blake.blake256))%N
            (buffered ++ tail)).
Proof. exact blake256_from_state_words. Qed.
Theorem C17_blake384_from_state_eq_spec :
  forall (hw : list N) (t0 t1 : N) (buffered tail : list N),
  length hw = 8 -> (t0 < 2 ^ 64)%N -> (t1 < 2 ^ 64)%N ->
  ((t0 + t1 * 2 ^ 64) mod 1024 = 0)%N -> length buffered < 128 ->
  digest_from put_block64 64 8 false 48 (firstn 4 hw, skipn 4 hw) t0 t1 buffered tail
  = Some (Spec.Blake.hash_from Spec.Blake.blake384 hw
            ((t0 + t1 * 2 ^ Spec.Blake.wbits Spec.Blake.blake384) / (8 * Spec.Blake.block_N Spec.Blake.blake384))%N
            (buffered ++ tail)).
Proof. exact blake384_from_state_words. Qed.
Theorem C17_blake512_from_state_eq_spec :
  forall (hw : list N) (t0 t1 : N) (buffered tail : list N),
  length hw = 8 -> (t0 < 2 ^ 64)%N -> (t1 < 2 ^ 64)%N ->
  ((t0 + t1 * 2 ^ 64) mod 1024 = 0)%N -> length buffered < 128 ->
  digest_from put_block64 64 8 true 64 (firstn 4 hw, skipn 4 hw) t0 t1 buffered tail
  = Some (Spec.Blake.hash_from Spec.Blake.blake512 hw
            ((t0 + t1 * 2 ^ Spec.Blake.wbits Spec.Blake.blake512) / (8 * Spec.Blake.block_N Spec.Blake.blake512))%N
            (buffered ++ tail)).
Proof. exact blake512_from_state_words. Qed.

(** debug profile, from such an entered state (any compressor): no overflow-checked operation of
    [increase_count] fires in the update nor in finalize while entered bits + 8 * (buffered + tail)
    stays below the format limit 2^64 resp. 2^128 *)
Theorem C17_blake32_from_state_no_overflow :
  forall (t0 t1 : N) (buffered tail : list N),
  (t0 < 2 ^ 32)%N -> (t1 < 2 ^ 32)%N -> ((t0 + t1 * 2 ^ 32) mod 512 = 0)%N -> length buffered < 64 ->
  forall (X : Type) (put : X -> list N -> N * N -> X) (c : X),
  (t0 + t1 * 2 ^ 32 + 8 * N.of_nat (length buffered + length tail) < 2 ^ 64)%N ->
  let s0 := Hasher X c (fst (input_block (bb_new 64) buffered)) (t0, t1) in
  update_overflows X 32 4 s0 tail = false
  /\ finalize_overflows X 32 (update X put 32 4 s0 tail) = false.
Proof. exact blake32_from_state_no_overflow. Qed.
Theorem C17_blake64_from_state_no_overflow :
  forall (t0 t1 : N) (buffered tail : list N),
  (t0 < 2 ^ 64)%N -> (t1 < 2 ^ 64)%N -> ((t0 + t1 * 2 ^ 64) mod 1024 = 0)%N -> length buffered < 128 ->
  forall (X : Type) (put : X -> list N -> N * N -> X) (c : X),
  (t0 + t1 * 2 ^ 64 + 8 * N.of_nat (length buffered + length tail) < 2 ^ 128)%N ->
  let s0 := Hasher X c (fst (input_block (bb_new 128) buffered)) (t0, t1) in
  update_overflows X 64 8 s0 tail = false
  /\ finalize_overflows X 64 (update X put 64 8 s0 tail) = false.
Proof. exact blake64_from_state_no_overflow. Qed.

(** states reached from [new] by hashing meet the hypotheses; instances around the carries with a
    symbolic chaining value *)
Definition C17_blake_from_state_examples :=
  (blake256_reached_state_meets_hypotheses, blake256_reachable_shape, blake512_reachable_shape,
   blake256_from_state_below_2_32, blake256_from_state_above_2_32, blake256_no_overflow_below_2_32,
   blake512_from_state_below_2_64).

Print Assumptions C17_blake_update_finalize_from_state.
Print Assumptions C17_blake224_from_state_eq_spec.
Print Assumptions C17_blake256_from_state_eq_spec.
Print Assumptions C17_blake384_from_state_eq_spec.
Print Assumptions C17_blake512_from_state_eq_spec.
Print Assumptions C17_blake32_from_state_no_overflow.
Print Assumptions C17_blake64_from_state_no_overflow.
Print Assumptions C17_blake_from_state_examples.
