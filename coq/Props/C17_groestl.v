(** C17 (Groestl part) — the u64 block counter and the 64-bit big-endian count written
    into the final block are exact for every length below the format limit of 2^64
    blocks (padding blocks included), from any state (in particular states whose counter
    sits next to 2^8, 2^16, 2^32 blocks, entered through hook H2), in both build
    profiles; digests continued from such states are the specified ones. *)
From Coq Require Import NArith List Arith.
From CC Require Import Lib.Words Lib.Bytes Spec.AES Model.BlockBuffer Model.GroestlIntrinsics Model.Groestl.
From CC Require Import Proofs.GroestlLayout Proofs.GroestlSchedule Proofs.GroestlHash Proofs.GroestlCounter.
From CC Require Spec.Groestl.
Import ListNotations.
Local Open Scope N_scope.

(** after any update: counter = prior + blocks completed, no wrap; the buffer holds the rest *)
Theorem C17_groestl_count_exact : forall c h buffered data,
  (0 < c_bytes c)%nat -> holds (c_bytes c) (h_buf h) buffered ->
  h_count h + N.of_nat ((length buffered + length data) / c_bytes c) < 2 ^ 64 ->
  h_count (update c h data) = h_count h + N.of_nat ((length buffered + length data) / c_bytes c)
  /\ holds (c_bytes c) (h_buf (update c h data))
           (skipn (c_bytes c * ((length buffered + length data) / c_bytes c)) (buffered ++ data)).
Proof. exact count_exact. Qed.

(** the eight count bytes of the last block are prior + all blocks incl. padding, big-endian *)
Theorem C17_groestl_final_count_exact : forall bs prior msg, (8 < bs)%nat ->
  prior + N.of_nat (Spec.Groestl.pad_blocks bs (length msg)) < 2 ^ 64 ->
  let out := finalize_dirty (comp_rec bs) (update (comp_rec bs) (H (bb_new bs) prior []) msg) in
  be_join (skipn (length out - 8) out) = prior + N.of_nat (Spec.Groestl.pad_blocks bs (length msg))
  /\ length out = (bs * Spec.Groestl.pad_blocks bs (length msg))%nat.
Proof. exact final_count_exact. Qed.

(** with overflow checks on (debug profile) nothing panics below the limit, and the result
    is the same as in the release profile *)
Theorem C17_groestl_no_overflow_below_limit : forall debug c h buffered tail,
  (8 < c_bytes c)%nat -> holds (c_bytes c) (h_buf h) buffered ->
  h_count h + N.of_nat (Spec.Groestl.pad_blocks (c_bytes c) (length buffered + length tail)) < 2^64 ->
  match update_chk debug c h tail with Some h' => finalize_chk debug c h' | None => None end
  = Some (finalize_dirty c (update c h tail)).
Proof. exact hasher_schedule_chk. Qed.

Theorem C17_groestl_release_never_panics : forall c h tail,
  exists h', update_chk false c h tail = Some h' /\ h' = update c h tail
             /\ finalize_chk false c h' = Some (finalize_dirty c h').
Proof. exact hasher_release_never_panics. Qed.

(** digests continued from a state reached after [prior] blocks conform *)
Theorem C17_groestl256_from_state_eq_spec : forall S b prior h buffered tail,
  length h = 64%nat -> holds 64 b buffered ->
  prior + N.of_nat (Spec.Groestl.pad_blocks 64 (length buffered + length tail)) < 2 ^ 64 ->
  out256 (finalize_dirty (comp512 S) (update (comp512 S) (H b prior (LA h)) tail))
  = Spec.Groestl.hash_from S Spec.Groestl.p512 32 h prior (buffered ++ tail).
Proof. exact from_state_512. Qed.

Theorem C17_groestl224_from_state_eq_spec : forall b prior h buffered tail,
  length h = 64%nat -> Forall is_byte h -> holds 64 b buffered ->
  prior + N.of_nat (Spec.Groestl.pad_blocks 64 (length buffered + length tail)) < 2 ^ 64 ->
  out224 (finalize_dirty (comp512 sbox_fast) (update (comp512 sbox_fast) (H b prior (LA h)) tail))
  = Spec.Groestl.hash_from sbox_fast Spec.Groestl.p512 28 h prior (buffered ++ tail).
Proof. exact from_state_224. Qed.

Theorem C17_groestl512_from_state_eq_spec : forall S b prior h buffered tail,
  length h = 128%nat -> holds 128 b buffered ->
  prior + N.of_nat (Spec.Groestl.pad_blocks 128 (length buffered + length tail)) < 2 ^ 64 ->
  out512 (finalize_dirty (comp1024 S) (update (comp1024 S) (H b prior (L1024 h)) tail))
  = Spec.Groestl.hash_from S Spec.Groestl.p1024 64 h prior (buffered ++ tail).
Proof. exact from_state_1024. Qed.

Theorem C17_groestl384_from_state_eq_spec : forall S b prior h buffered tail,
  length h = 128%nat -> holds 128 b buffered ->
  prior + N.of_nat (Spec.Groestl.pad_blocks 128 (length buffered + length tail)) < 2 ^ 64 ->
  out384 (finalize_dirty (comp1024 S) (update (comp1024 S) (H b prior (L1024 h)) tail))
  = Spec.Groestl.hash_from S Spec.Groestl.p1024 48 h prior (buffered ++ tail).
Proof. exact from_state_384. Qed.

(** the bound is tight (debug: one more block panics; release: the count wraps to 0),
    and the carries into the second and fifth count byte really happen *)
Definition C17_groestl_examples :=
  (finalize_chk_overflow_witness, update_chk_overflow_witness, finalize_release_wraps,
   count_carry_8, count_carry_32).

Print Assumptions C17_groestl_count_exact.
Print Assumptions C17_groestl_final_count_exact.
Print Assumptions C17_groestl_no_overflow_below_limit.
Print Assumptions C17_groestl_release_never_panics.
Print Assumptions C17_groestl256_from_state_eq_spec.
Print Assumptions C17_groestl224_from_state_eq_spec.
Print Assumptions C17_groestl512_from_state_eq_spec.
Print Assumptions C17_groestl384_from_state_eq_spec.
Print Assumptions C17_groestl_examples.
