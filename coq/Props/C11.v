(** C11 — ChaCha key-stream exhaustion is an atomic error; seek past the end is Err, not
    panic; the 64-bit variants never exhaust below 2^64 bytes; no counter wrap, no
    key-stream reuse.

    Statements only; proofs live in Proofs/ChaChaStream*.v, about Model/ChaChaStream.v (the
    wrapper as written, after the fix: commits), for ANY block producers specified by a block
    function ([producers_spec], see Props/C02.v), every initial state a constructor can
    produce ([stream_init]) and every reachable buffer state ([reachable b pos]: the
    invariant of DESIGN 6/C02 holds between [b] and the abstract byte position [pos];
    C02_reachable_init / C02_reachable_step: the new buffer is reachable at 0 and every
    operation leads from reachable to reachable). [try_apply] returns (result, buffer after,
    data after). Slice lengths are below 2^64 (usize). *)
From Coq Require Import NArith ZArith List.
From CC Require Import Lib.Words Lib.Bytes Model.ChaChaGuts Model.ChaChaStream.
From CC Require Import Proofs.ChaChaStreamCtr Proofs.ChaChaStreamSpec Proofs.ChaChaStreamSeek Proofs.ChaChaStreamInv
  Proofs.ChaChaStreamHist Proofs.ChaChaStreamMain.
Import ListNotations.
Local Open Scope N_scope.

(** IETF (12-byte nonce): apply of n bytes at position pos succeeds <-> pos + n <= 2^38; never panics *)
Theorem C11_ietf_apply_ok_iff :
  forall refill1 refill4 blk s0, producers_spec refill1 refill4 blk s0 -> stream_init true s0 ->
  forall b pos data, reachable blk true s0 b pos -> N.of_nat (length data) < 2 ^ 64 ->
    (fst (fst (try_apply refill1 refill4 true b data)) = ROk <-> pos + N.of_nat (length data) <= 2 ^ 38)
    /\ fst (fst (try_apply refill1 refill4 true b data)) <> RPanic.
Proof. exact ietf_apply_ok_iff. Qed.

(** every variant: a call that does not succeed is Err (not Panic), returns the data unchanged and
    leaves the buffer reachable at the SAME abstract position (so, by C02, all later output is right) *)
Theorem C11_apply_err_atomic :
  forall refill1 refill4 blk is12 s0, stream_init is12 s0 -> producers_spec refill1 refill4 blk s0 ->
  forall b pos data, reachable blk is12 s0 b pos -> N.of_nat (length data) < 2 ^ 64 ->
    fst (fst (try_apply refill1 refill4 is12 b data)) <> ROk ->
    fst (fst (try_apply refill1 refill4 is12 b data)) = RErr
    /\ snd (try_apply refill1 refill4 is12 b data) = data
    /\ reachable blk is12 s0 (snd (fst (try_apply refill1 refill4 is12 b data))) pos.
Proof. exact apply_err_atomic_closed. Qed.

(** IETF: try_seek p = Ok <-> 0 <= p <= 2^38; the failing case is Err, never Panic, and leaves
    the buffer unchanged (from every buffer whatsoever) *)
Theorem C11_ietf_seek_ok_iff :
  forall b pos,
    (fst (try_seek true b pos) = ROk <-> (0 <= pos <= 2 ^ 38)%Z)
    /\ fst (try_seek true b pos) <> RPanic
    /\ (fst (try_seek true b pos) <> ROk -> snd (try_seek true b pos) = b).
Proof.
  intros b pos. destruct (try_seek_ok_iff true b pos) as [H1 H2].
  split; [|split; [exact H2 | apply try_seek_err_unchanged]].
  rewrite H1. unfold seek_in_range. split.
  - intros (A & B & C). split; [exact A | exact (C eq_refl)].
  - intros (A & B). split; [exact A|]. split; [|intros _; exact B].
    eapply Z.le_lt_trans; [exact B | reflexivity].
Qed.

(** an accepted seek leads to a reachable state at exactly that position (every variant) *)
Theorem C11_seek_ok_reachable :
  forall refill1 refill4 blk is12 s0, stream_init is12 s0 -> producers_spec refill1 refill4 blk s0 ->
  forall b pos p, reachable blk is12 s0 b pos -> seek_in_range is12 p ->
    exists b', try_seek is12 b p = (ROk, b') /\ reachable blk is12 s0 b' (Z.to_N p).
Proof. exact seek_reachable. Qed.

(** IETF: seek to exactly 2^38 is accepted; there an empty apply is Ok, a one-byte apply is Err
    with the byte unchanged, a further empty apply is still Ok and current_pos is 2^38 *)
Theorem C11_seek_to_limit_then_apply0_ok :
  forall refill1 refill4 blk s0, producers_spec refill1 refill4 blk s0 -> stream_init true s0 ->
  forall b pos x, reachable blk true s0 b pos ->
    run refill1 refill4 true b [OSeek (2 ^ 38); OApply []; OApply [x]; OApply []; OPos (2 ^ 64 - 1)]
    = [ObsSeek ROk; ObsApply ROk []; ObsApply RErr [x]; ObsApply ROk []; ObsPos (Some (2 ^ 38)%Z)].
Proof. exact seek_to_limit_then_apply0_ok. Qed.

(** 64-bit variants: the stream has 2^70 bytes; in particular nothing below 2^64 ever exhausts *)
Theorem C11_big_apply_ok_iff :
  forall refill1 refill4 blk s0, producers_spec refill1 refill4 blk s0 -> stream_init false s0 ->
  forall b pos data, reachable blk false s0 b pos -> N.of_nat (length data) < 2 ^ 64 ->
    (fst (fst (try_apply refill1 refill4 false b data)) = ROk <-> pos + N.of_nat (length data) <= 2 ^ 70)
    /\ fst (fst (try_apply refill1 refill4 false b data)) <> RPanic.
Proof. exact big_apply_ok_iff. Qed.

Theorem C11_big_counter_never_exhausts :
  forall refill1 refill4 blk s0, producers_spec refill1 refill4 blk s0 -> stream_init false s0 ->
  forall b pos data, reachable blk false s0 b pos -> N.of_nat (length data) < 2 ^ 64 ->
    pos + N.of_nat (length data) <= 2 ^ 64 ->
    fst (fst (try_apply refill1 refill4 false b data)) = ROk.
Proof. exact big_counter_never_exhausts. Qed.

(** no key-stream reuse, in three parts.
    (1) every byte a successful apply hands out is data xor the key-stream byte of its absolute
        position, and that position is below the end of the stream; *)
Theorem C11_no_keystream_reuse_bytes :
  forall refill1 refill4 blk is12 s0, stream_init is12 s0 -> producers_spec refill1 refill4 blk s0 ->
  forall b pos data i, reachable blk is12 s0 b pos -> N.of_nat (length data) < 2 ^ 64 ->
    fst (fst (try_apply refill1 refill4 is12 b data)) = ROk -> (i < length data)%nat ->
    nth i (snd (try_apply refill1 refill4 is12 b data)) 0
      = N.lxor (nth i data 0) (ks_byte blk is12 s0 (pos + N.of_nat i))
    /\ pos + N.of_nat i < stream_bytes is12.
Proof. exact apply_ok_bytes_closed. Qed.

(** (2) block k of the key stream (k below the number of blocks) is the block function on the
        state with the counter word(s) = k and every other word as constructed — for the
        12-byte nonce the counter is d word 0 only and nonce word d1 is untouched; *)
Theorem C11_no_keystream_reuse_block_input :
  forall refill1 refill4 blk is12 s0, stream_init is12 s0 -> producers_spec refill1 refill4 blk s0 ->
  forall k d0 d1 d2 d3, k < nblocks is12 -> cd s0 = [d0; d1; d2; d3] ->
    kblock blk is12 s0 k =
      blk (CC (cb s0) (cc s0) (if is12 then [k; d1; d2; d3] else [k mod 2 ^ 32; k / 2 ^ 32; d2; d3])).
Proof. exact block_input_words_closed. Qed.

(** (3) distinct block indices below the number of blocks give distinct block-function inputs
        (the counter never wraps onto an earlier block) *)
Theorem C11_no_keystream_reuse_distinct :
  forall refill1 refill4 blk is12 s0, stream_init is12 s0 -> producers_spec refill1 refill4 blk s0 ->
  forall k k', k < nblocks is12 -> k' < nblocks is12 ->
    stA s0 (ctr_base is12 s0 + k) = stA s0 (ctr_base is12 s0 + k') -> k = k'.
Proof. exact block_inputs_distinct_closed. Qed.

Print Assumptions C11_ietf_apply_ok_iff.
Print Assumptions C11_apply_err_atomic.
Print Assumptions C11_ietf_seek_ok_iff.
Print Assumptions C11_seek_ok_reachable.
Print Assumptions C11_seek_to_limit_then_apply0_ok.
Print Assumptions C11_big_apply_ok_iff.
Print Assumptions C11_big_counter_never_exhausts.
Print Assumptions C11_no_keystream_reuse_bytes.
Print Assumptions C11_no_keystream_reuse_block_input.
Print Assumptions C11_no_keystream_reuse_distinct.

(** ===== the REAL block producers (audit C11: "real instantiation missing from Props"):
    closed instances for the model of the seven cipher types - [real_refill1/4 drounds] of
    Model/ChaChaGuts.v, initial state [init_of v drounds key nonce]; the only hypotheses left are
    byte-ness and lengths of key and nonce ([key_nonce_ok]).  [blk_of drounds s] = first
    component of [refill s drounds]. VIetf = 12-byte nonce; VDjb / VX = 64-bit counter. ===== *)
From CC Require Import Model.ChaChaStreamChk Proofs.ChaChaStreamReal Proofs.ChaChaStreamRealC11.

Theorem C11_real_hypotheses_hold :
  forall v drounds key nonce, key_nonce_ok v key nonce ->
    producers_spec (real_refill1 drounds) (real_refill4 drounds) (blk_of drounds) (init_of v drounds key nonce)
    /\ stream_init (is12_of v) (init_of v drounds key nonce).
Proof. exact real_closed. Qed.

Theorem C11_real_reachable_init :
  forall drounds key nonce v, key_nonce_ok v key nonce ->
    reachable (blk_of drounds) (is12_of v) (init_of v drounds key nonce) (m_new v drounds key nonce) 0.
Proof. exact real_reachable_init. Qed.

Theorem C11_real_reachable_step :
  forall drounds key nonce v, key_nonce_ok v key nonce ->
  forall b pos o, reachable (blk_of drounds) (is12_of v) (init_of v drounds key nonce) b pos -> op_ok o ->
    reachable (blk_of drounds) (is12_of v) (init_of v drounds key nonce)
      (fst (step (real_refill1 drounds) (real_refill4 drounds) (is12_of v) b o))
      (fst (spec_step (blk_of drounds) (is12_of v) (init_of v drounds key nonce) pos o)).
Proof. exact real_reachable_step. Qed.

Theorem C11_real_ietf_apply_ok_iff :
  forall drounds key nonce, key_nonce_ok VIetf key nonce ->
  forall b pos data, reachable (blk_of drounds) true (init_of VIetf drounds key nonce) b pos ->
    N.of_nat (length data) < 2 ^ 64 ->
    (fst (fst (try_apply (real_refill1 drounds) (real_refill4 drounds) true b data)) = ROk
       <-> pos + N.of_nat (length data) <= 2 ^ 38)
    /\ fst (fst (try_apply (real_refill1 drounds) (real_refill4 drounds) true b data)) <> RPanic.
Proof. exact real_ietf_apply_ok_iff. Qed.

Theorem C11_real_apply_err_atomic :
  forall drounds key nonce v, key_nonce_ok v key nonce ->
  forall b pos data, reachable (blk_of drounds) (is12_of v) (init_of v drounds key nonce) b pos ->
    N.of_nat (length data) < 2 ^ 64 ->
    let r := try_apply (real_refill1 drounds) (real_refill4 drounds) (is12_of v) b data in
    fst (fst r) <> ROk ->
    fst (fst r) = RErr /\ snd r = data
    /\ reachable (blk_of drounds) (is12_of v) (init_of v drounds key nonce) (snd (fst r)) pos.
Proof. exact real_apply_err_atomic. Qed.

Theorem C11_real_ietf_seek_ok_iff :
  forall drounds key nonce, key_nonce_ok VIetf key nonce ->
  forall b pos p, reachable (blk_of drounds) true (init_of VIetf drounds key nonce) b pos ->
    (fst (try_seek true b p) = ROk <-> (0 <= p <= 2 ^ 38)%Z)
    /\ fst (try_seek true b p) <> RPanic
    /\ (fst (try_seek true b p) <> ROk -> snd (try_seek true b p) = b)
    /\ (fst (try_seek true b p) = ROk ->
        reachable (blk_of drounds) true (init_of VIetf drounds key nonce) (snd (try_seek true b p)) (Z.to_N p)).
Proof. exact real_ietf_seek_ok_iff. Qed.

Theorem C11_real_seek_ok_reachable :
  forall drounds key nonce v, key_nonce_ok v key nonce ->
  forall b pos p, reachable (blk_of drounds) (is12_of v) (init_of v drounds key nonce) b pos ->
    seek_in_range (is12_of v) p ->
    exists b', try_seek (is12_of v) b p = (ROk, b')
               /\ reachable (blk_of drounds) (is12_of v) (init_of v drounds key nonce) b' (Z.to_N p).
Proof. exact real_seek_ok_reachable. Qed.

Theorem C11_real_seek_to_limit_then_apply0_ok :
  forall drounds key nonce, key_nonce_ok VIetf key nonce ->
  forall b pos x, reachable (blk_of drounds) true (init_of VIetf drounds key nonce) b pos ->
    run (real_refill1 drounds) (real_refill4 drounds) true b
        [OSeek (2 ^ 38); OApply []; OApply [x]; OApply []; OPos (2 ^ 64 - 1)]
    = [ObsSeek ROk; ObsApply ROk []; ObsApply RErr [x]; ObsApply ROk []; ObsPos (Some (2 ^ 38)%Z)].
Proof. exact real_seek_to_limit_then_apply0_ok. Qed.

Theorem C11_real_big_apply_ok_iff :
  forall drounds key nonce v, is12_of v = false -> key_nonce_ok v key nonce ->
  forall b pos data, reachable (blk_of drounds) false (init_of v drounds key nonce) b pos ->
    N.of_nat (length data) < 2 ^ 64 ->
    (fst (fst (try_apply (real_refill1 drounds) (real_refill4 drounds) false b data)) = ROk
       <-> pos + N.of_nat (length data) <= 2 ^ 70)
    /\ fst (fst (try_apply (real_refill1 drounds) (real_refill4 drounds) false b data)) <> RPanic.
Proof. exact real_big_apply_ok_iff. Qed.

Theorem C11_real_big_counter_never_exhausts :
  forall drounds key nonce v, is12_of v = false -> key_nonce_ok v key nonce ->
  forall b pos data, reachable (blk_of drounds) false (init_of v drounds key nonce) b pos ->
    N.of_nat (length data) < 2 ^ 64 -> pos + N.of_nat (length data) <= 2 ^ 64 ->
    fst (fst (try_apply (real_refill1 drounds) (real_refill4 drounds) false b data)) = ROk.
Proof. exact real_big_counter_never_exhausts. Qed.

Theorem C11_real_no_keystream_reuse_bytes :
  forall drounds key nonce v, key_nonce_ok v key nonce ->
  forall b pos data i, reachable (blk_of drounds) (is12_of v) (init_of v drounds key nonce) b pos ->
    N.of_nat (length data) < 2 ^ 64 ->
    fst (fst (try_apply (real_refill1 drounds) (real_refill4 drounds) (is12_of v) b data)) = ROk ->
    (i < length data)%nat ->
    nth i (snd (try_apply (real_refill1 drounds) (real_refill4 drounds) (is12_of v) b data)) 0
      = N.lxor (nth i data 0) (ks_byte (blk_of drounds) (is12_of v) (init_of v drounds key nonce) (pos + N.of_nat i))
    /\ pos + N.of_nat i < stream_bytes (is12_of v).
Proof. exact real_no_keystream_reuse_bytes. Qed.

Theorem C11_real_no_keystream_reuse_block_input :
  forall drounds key nonce v, key_nonce_ok v key nonce ->
  forall k d0 d1 d2 d3, k < nblocks (is12_of v) -> cd (init_of v drounds key nonce) = [d0; d1; d2; d3] ->
    kblock (blk_of drounds) (is12_of v) (init_of v drounds key nonce) k =
      fst (refill (CC (cb (init_of v drounds key nonce)) (cc (init_of v drounds key nonce))
                      (if is12_of v then [k; d1; d2; d3] else [k mod 2 ^ 32; k / 2 ^ 32; d2; d3])) drounds).
Proof. exact real_no_keystream_reuse_block_input. Qed.

Theorem C11_real_no_keystream_reuse_distinct :
  forall drounds key nonce v, key_nonce_ok v key nonce ->
  forall k k', k < nblocks (is12_of v) -> k' < nblocks (is12_of v) ->
    stA (init_of v drounds key nonce) (ctr_base (is12_of v) (init_of v drounds key nonce) + k)
    = stA (init_of v drounds key nonce) (ctr_base (is12_of v) (init_of v drounds key nonce) + k') -> k = k'.
Proof. exact real_no_keystream_reuse_distinct. Qed.

(** both build profiles (Model/ChaChaStreamChk.v, see Props/C02.v): on a reachable buffer the
    profile-explicit call IS the call above, so exhaustion is the same atomic Err in debug and release *)
Theorem C11_real_try_apply_profile_eq :
  forall drounds key nonce prof v, key_nonce_ok v key nonce ->
  forall b pos data, reachable (blk_of drounds) (is12_of v) (init_of v drounds key nonce) b pos ->
    N.of_nat (length data) < 2 ^ 64 ->
    try_apply_chk prof (real_refill1 drounds) (real_refill4 drounds) (is12_of v) b data
    = try_apply (real_refill1 drounds) (real_refill4 drounds) (is12_of v) b data.
Proof. exact real_try_apply_chk_eq. Qed.

Theorem C11_real_ietf_apply_ok_iff_profile :
  forall drounds key nonce prof, key_nonce_ok VIetf key nonce ->
  forall b pos data, reachable (blk_of drounds) true (init_of VIetf drounds key nonce) b pos ->
    N.of_nat (length data) < 2 ^ 64 ->
    (fst (fst (try_apply_chk prof (real_refill1 drounds) (real_refill4 drounds) true b data)) = ROk
       <-> pos + N.of_nat (length data) <= 2 ^ 38)
    /\ fst (fst (try_apply_chk prof (real_refill1 drounds) (real_refill4 drounds) true b data)) <> RPanic.
Proof. exact real_ietf_apply_ok_iff_profile. Qed.

Theorem C11_real_apply_err_atomic_profile :
  forall drounds key nonce prof v, key_nonce_ok v key nonce ->
  forall b pos data, reachable (blk_of drounds) (is12_of v) (init_of v drounds key nonce) b pos ->
    N.of_nat (length data) < 2 ^ 64 ->
    let r := try_apply_chk prof (real_refill1 drounds) (real_refill4 drounds) (is12_of v) b data in
    fst (fst r) <> ROk ->
    fst (fst r) = RErr /\ snd r = data
    /\ reachable (blk_of drounds) (is12_of v) (init_of v drounds key nonce) (snd (fst r)) pos.
Proof. exact real_apply_err_atomic_profile. Qed.

Print Assumptions C11_real_hypotheses_hold.
Print Assumptions C11_real_reachable_init.
Print Assumptions C11_real_reachable_step.
Print Assumptions C11_real_ietf_apply_ok_iff.
Print Assumptions C11_real_apply_err_atomic.
Print Assumptions C11_real_ietf_seek_ok_iff.
Print Assumptions C11_real_seek_ok_reachable.
Print Assumptions C11_real_seek_to_limit_then_apply0_ok.
Print Assumptions C11_real_big_apply_ok_iff.
Print Assumptions C11_real_big_counter_never_exhausts.
Print Assumptions C11_real_no_keystream_reuse_bytes.
Print Assumptions C11_real_no_keystream_reuse_block_input.
Print Assumptions C11_real_no_keystream_reuse_distinct.
Print Assumptions C11_real_try_apply_profile_eq.
Print Assumptions C11_real_ietf_apply_ok_iff_profile.
Print Assumptions C11_real_apply_err_atomic_profile.
