(** C18 — results are unaffected by concurrent first use and by interleaving of instances.

    PROVED (about Model/Concurrency.v; for EVERY schedule, any number of threads and steps):
    lazy dispatch cells accessed by the NON-atomic micro-steps read / compute / store (weaker than
    std::sync::Once, equal to std_detect's relaxed cache) only ever hold None or [init c], every
    caller ends up using [init c] (C18_once_cell_any_schedule); each thread's outputs and its
    instance's state equal the single-threaded one-at-a-time run of the operations it has executed
    (C18_concurrent_equals_sequential, C18_concurrent_complete); an instance no thread owns is never
    written (C18_no_foreign_writes); operations of several instances interleaved in one thread give
    each instance exactly its own sequential results (C18_interleaving_independent). [init] is a
    deterministic function of the CPU oracle (a universally quantified variable, no axiom).

    NOT expressible in this model, hence only OBSERVED (harness h_conc: cold processes, 2..64
    threads released by a barrier, first calls into every algorithm; source scan for globals):
    memory-model effects (a torn read of a function pointer, reordering around the real Once),
    and the premise that the code has no other shared mutable state than the modelled cells (the
    scan compares the list of statics/cells in the sources with the modelled inventory on every
    run). Level: proof, PARTIAL. *)
From Coq Require Import List Arith.
From CC Require Import Model.Concurrency Proofs.Concurrency.
Import ListNotations.

Theorem C18_once_cell_any_schedule :
  forall (V St Op Out : Type) (cpu : nat -> bool) (choose : (nat -> bool) -> nat -> V)
         (cell_of : Op -> nat) (exec : V -> Op -> St -> St * Out)
         (g0 : gstate V St Op Out) (sched : list nat),
    initial V St Op Out g0 ->
    let g := run V St Op Out cpu choose cell_of exec sched g0 in
    (forall c, cells V St Op Out g c = None \/ cells V St Op Out g c = Some (init V cpu choose c))
    /\ (forall i t, nth_error (threads V St Op Out g) i = Some t ->
          match t_pc V Op Out t with
          | Idle _ => True
          | SawNone _ c => forall o r, t_prog V Op Out t = o :: r -> c = cell_of o
          | Computed _ c v => v = init V cpu choose c /\ forall o r, t_prog V Op Out t = o :: r -> c = cell_of o
          | Ready _ v => forall o r, t_prog V Op Out t = o :: r -> v = init V cpu choose (cell_of o)
          end).
Proof. exact once_cell_any_schedule. Qed.

Theorem C18_concurrent_equals_sequential :
  forall (V St Op Out : Type) (cpu : nat -> bool) (choose : (nat -> bool) -> nat -> V)
         (cell_of : Op -> nat) (exec : V -> Op -> St -> St * Out)
         (g0 : gstate V St Op Out) (sched : list nat),
    initial V St Op Out g0 ->
    forall i t0 t,
      nth_error (threads V St Op Out g0) i = Some t0 ->
      nth_error (threads V St Op Out (run V St Op Out cpu choose cell_of exec sched g0)) i = Some t ->
      exists k, k <= length (t_prog V Op Out t0)
        /\ t_prog V Op Out t = skipn k (t_prog V Op Out t0)
        /\ t_inst V Op Out t = t_inst V Op Out t0
        /\ t_outs V Op Out t
           = snd (seq_run V St Op Out cpu choose cell_of exec (tbl V St Op Out g0 (t_inst V Op Out t0))
                          (firstn k (t_prog V Op Out t0)))
        /\ tbl V St Op Out (run V St Op Out cpu choose cell_of exec sched g0) (t_inst V Op Out t0)
           = fst (seq_run V St Op Out cpu choose cell_of exec (tbl V St Op Out g0 (t_inst V Op Out t0))
                          (firstn k (t_prog V Op Out t0))).
Proof. exact concurrent_equals_sequential. Qed.

Theorem C18_concurrent_complete :
  forall (V St Op Out : Type) (cpu : nat -> bool) (choose : (nat -> bool) -> nat -> V)
         (cell_of : Op -> nat) (exec : V -> Op -> St -> St * Out)
         (g0 : gstate V St Op Out) (sched : list nat),
    initial V St Op Out g0 ->
    forall i t0 t,
      nth_error (threads V St Op Out g0) i = Some t0 ->
      nth_error (threads V St Op Out (run V St Op Out cpu choose cell_of exec sched g0)) i = Some t ->
      t_prog V Op Out t = [] ->
      t_outs V Op Out t
      = snd (seq_run V St Op Out cpu choose cell_of exec (tbl V St Op Out g0 (t_inst V Op Out t0)) (t_prog V Op Out t0))
      /\ tbl V St Op Out (run V St Op Out cpu choose cell_of exec sched g0) (t_inst V Op Out t0)
         = fst (seq_run V St Op Out cpu choose cell_of exec (tbl V St Op Out g0 (t_inst V Op Out t0)) (t_prog V Op Out t0)).
Proof. exact concurrent_complete. Qed.

Theorem C18_no_foreign_writes :
  forall (V St Op Out : Type) (cpu : nat -> bool) (choose : (nat -> bool) -> nat -> V)
         (cell_of : Op -> nat) (exec : V -> Op -> St -> St * Out)
         (g0 : gstate V St Op Out) (sched : list nat),
    initial V St Op Out g0 ->
    length (threads V St Op Out (run V St Op Out cpu choose cell_of exec sched g0)) = length (threads V St Op Out g0)
    /\ forall j, ~ In j (map (t_inst V Op Out) (threads V St Op Out g0)) ->
         tbl V St Op Out (run V St Op Out cpu choose cell_of exec sched g0) j = tbl V St Op Out g0 j.
Proof.
  intros. split; [now apply threads_preserved|now apply no_foreign_writes].
Qed.

Theorem C18_interleaving_independent :
  forall (V St Op Out : Type) (cpu : nat -> bool) (choose : (nat -> bool) -> nat -> V)
         (cell_of : Op -> nat) (exec : V -> Op -> St -> St * Out)
         (l : list (nat * Op)) (tb : nat -> St) (i : nat),
    proj i (snd (interleave_run V St Op Out cpu choose cell_of exec tb l))
    = snd (seq_run V St Op Out cpu choose cell_of exec (tb i) (proj i l))
    /\ fst (interleave_run V St Op Out cpu choose cell_of exec tb l) i
       = fst (seq_run V St Op Out cpu choose cell_of exec (tb i) (proj i l)).
Proof. exact interleaving_independent. Qed.

(** a thread that is given 4 micro-steps per operation finishes, whatever the others do *)
Theorem C18_progress :
  forall (V St Op Out : Type) (cpu : nat -> bool) (choose : (nat -> bool) -> nat -> V)
         (cell_of : Op -> nat) (exec : V -> Op -> St -> St * Out)
         (g : gstate V St Op Out) (i : nat) (t : thread V Op Out) (sched : list nat),
    nth_error (threads V St Op Out g) i = Some t ->
    4 * length (t_prog V Op Out t) <= count_occ Nat.eq_dec sched i ->
    exists t', nth_error (threads V St Op Out (run V St Op Out cpu choose cell_of exec sched g)) i = Some t'
               /\ t_prog V Op Out t' = [].
Proof. exact progress. Qed.

(** every schedule that gives every thread enough steps: all outputs are the sequential ones *)
Theorem C18_fair_schedule_sequential :
  forall (V St Op Out : Type) (cpu : nat -> bool) (choose : (nat -> bool) -> nat -> V)
         (cell_of : Op -> nat) (exec : V -> Op -> St -> St * Out)
         (g0 : gstate V St Op Out) (sched : list nat),
    initial V St Op Out g0 ->
    (forall i t0, nth_error (threads V St Op Out g0) i = Some t0 ->
                  4 * length (t_prog V Op Out t0) <= count_occ Nat.eq_dec sched i) ->
    forall i t0, nth_error (threads V St Op Out g0) i = Some t0 ->
    exists t, nth_error (threads V St Op Out (run V St Op Out cpu choose cell_of exec sched g0)) i = Some t
      /\ t_prog V Op Out t = []
      /\ t_outs V Op Out t
         = snd (seq_run V St Op Out cpu choose cell_of exec (tbl V St Op Out g0 (t_inst V Op Out t0)) (t_prog V Op Out t0))
      /\ tbl V St Op Out (run V St Op Out cpu choose cell_of exec sched g0) (t_inst V Op Out t0)
         = fst (seq_run V St Op Out cpu choose cell_of exec (tbl V St Op Out g0 (t_inst V Op Out t0)) (t_prog V Op Out t0)).
Proof. exact fair_schedule_sequential. Qed.

(** non-vacuity: a concrete 3-thread schedule in which two threads both find the cell empty,
    both run the initialiser and both store; all three finish with the sequential outputs *)
Theorem C18_example_three_threads :
  initial nat nat nat nat Example3.g0
  /\ map (t_pc nat nat nat) (threads nat nat nat nat (Example3.run Example3.prefix Example3.g0))
     = [Computed nat 1 8; Computed nat 1 8; Idle nat]
  /\ map (fun t => (t_prog nat nat nat t, t_outs nat nat nat t))
         (threads nat nat nat nat (Example3.run Example3.sched Example3.g0))
     = map (fun t => ([], snd (seq_run nat nat nat nat Example3.cpu Example3.choose Example3.cell_of
                                       Example3.exec 0 (t_prog nat nat nat t))))
           (threads nat nat nat nat Example3.g0)
  /\ map (t_outs nat nat nat) (threads nat nat nat nat (Example3.run Example3.sched Example3.g0))
     = [[8; 22]; [24]; [28; 68]].
Proof.
  exact (conj Example3.g0_initial (conj Example3.both_computed
          (conj Example3.all_finished_sequential Example3.outputs))).
Qed.

Print Assumptions C18_once_cell_any_schedule.
Print Assumptions C18_concurrent_equals_sequential.
Print Assumptions C18_concurrent_complete.
Print Assumptions C18_no_foreign_writes.
Print Assumptions C18_interleaving_independent.
Print Assumptions C18_progress.
Print Assumptions C18_fair_schedule_sequential.
Print Assumptions C18_example_three_threads.

(** audit C18-F2 (work package audit-followups): the abstract parameters instantiated with a REAL
    algorithm - Groestl's lazily initialised implementation choice (Model/FeaturesGroestl.v,
    Proofs/FollowupsGroestl.v):
      V = [gresult gmodule] (module chosen by [dispatch_init] from the CPU oracle: feature 0 = aes,
          1 = ssse3, 2 = sse2; or the initialiser's panic), the same function for each of the six
          cells ([C18_groestl_six_cells_agree]); target features [t] fixed at compile time;
      Op = ONE dispatched call ([CInit512 | CTf512 | COf512 | CInit1024 | CTf1024 | COf1024]; cell =
          the called function's lazy_static), St = the compressor's chaining value, Out = returned | panicked;
      thread program = [calls512 256 msg] = init on the IV block, tf on each block of the padded message,
          of - which IS the call sequence of lib.rs's hasher for any compressor functions
          ([C18_groestl_hasher_calls], from C07_schedule_eq_spec).
    Corollary: for EVERY schedule of threads doing their first Groestl calls concurrently from a cold
    process, on a CPU reporting at least one of the three levels, each finished thread's instance
    holds the chaining value whose cut is [Spec.Groestl.groestl256] of ITS message, and all its calls
    returned. *)
From Coq Require Import NArith Bool.
From CC Require Import Spec.AES Model.GroestlIntrinsics Model.Groestl Model.Features Model.FeaturesGroestl.
From CC Require Import Proofs.GroestlHash Proofs.FollowupsGroestl.
From CC Require Spec.Groestl.
Import FollowupsGroestl.F_C18.

Theorem C18_groestl_hasher_calls :
  forall (i : X -> X) (f : X -> list N -> X) (o : X -> X) bits out msg,
    fits 64 msg ->
    digest (C 64 i f o) bits out msg
    = out (concat (o (fold_left f (Spec.Groestl.blocks 64 (Spec.Groestl.pad 64 msg)) (i (iv_regs512 bits))))).
Proof. exact hasher_calls_512. Qed.

Theorem C18_groestl_six_cells_agree : forall t cpu c c', g_choose t cpu c = g_choose t cpu c'.
Proof. exact six_cells_agree. Qed.

Theorem C18_groestl256_concurrent_first_use :
  forall (t : gtgt) (cpu : nat -> bool) (g0 : gstate (gresult gmodule) X gcall gout) (sched : list nat),
    initial (gresult gmodule) X gcall gout g0 ->
    (cpu 0 || cpu 1 || cpu 2 = true)%nat ->
    forall i t0 tf msg,
      nth_error (threads (gresult gmodule) X gcall gout g0) i = Some t0 ->
      t_prog (gresult gmodule) gcall gout t0 = calls512 256 msg -> fits 64 msg ->
      nth_error (threads (gresult gmodule) X gcall gout
                   (run (gresult gmodule) X gcall gout cpu (g_choose t) g_cell_of (g_exec sbox_fast) sched g0)) i = Some tf ->
      t_prog (gresult gmodule) gcall gout tf = [] ->
      out256 (concat (tbl (gresult gmodule) X gcall gout
                        (run (gresult gmodule) X gcall gout cpu (g_choose t) g_cell_of (g_exec sbox_fast) sched g0)
                        (t_inst (gresult gmodule) gcall gout t0)))
        = Spec.Groestl.groestl256 msg
      /\ all_returned (t_outs (gresult gmodule) gcall gout tf)
      /\ length (t_outs (gresult gmodule) gcall gout tf) = length (calls512 256 msg).
Proof. exact concurrent_first_use_groestl256. Qed.

Theorem C18_groestl512_concurrent_first_use :
  forall (t : gtgt) (cpu : nat -> bool) (g0 : gstate (gresult gmodule) X gcall gout) (sched : list nat),
    initial (gresult gmodule) X gcall gout g0 ->
    (cpu 0 || cpu 1 || cpu 2 = true)%nat ->
    forall i t0 tf msg,
      nth_error (threads (gresult gmodule) X gcall gout g0) i = Some t0 ->
      t_prog (gresult gmodule) gcall gout t0 = calls1024 512 msg -> fits 128 msg ->
      nth_error (threads (gresult gmodule) X gcall gout
                   (run (gresult gmodule) X gcall gout cpu (g_choose t) g_cell_of (g_exec sbox_fast) sched g0)) i = Some tf ->
      t_prog (gresult gmodule) gcall gout tf = [] ->
      out512 (concat (tbl (gresult gmodule) X gcall gout
                        (run (gresult gmodule) X gcall gout cpu (g_choose t) g_cell_of (g_exec sbox_fast) sched g0)
                        (t_inst (gresult gmodule) gcall gout t0)))
        = Spec.Groestl.groestl512 msg
      /\ all_returned (t_outs (gresult gmodule) gcall gout tf).
Proof. exact concurrent_first_use_groestl512. Qed.

(** a thread given 4 micro-steps per call does finish, whatever the others do *)
Theorem C18_groestl256_concurrent_first_use_fair :
  forall (t : gtgt) (cpu : nat -> bool) (g0 : gstate (gresult gmodule) X gcall gout) (sched : list nat),
    initial (gresult gmodule) X gcall gout g0 ->
    (cpu 0 || cpu 1 || cpu 2 = true)%nat ->
    forall i t0 msg,
      nth_error (threads (gresult gmodule) X gcall gout g0) i = Some t0 ->
      t_prog (gresult gmodule) gcall gout t0 = calls512 256 msg -> fits 64 msg ->
      4 * length (calls512 256 msg) <= count_occ Nat.eq_dec sched i ->
      out256 (concat (tbl (gresult gmodule) X gcall gout
                        (run (gresult gmodule) X gcall gout cpu (g_choose t) g_cell_of (g_exec sbox_fast) sched g0)
                        (t_inst (gresult gmodule) gcall gout t0)))
        = Spec.Groestl.groestl256 msg.
Proof. exact concurrent_first_use_groestl256_fair. Qed.

(** no level detected: in every schedule every call of every thread panics, no instance changes *)
Theorem C18_groestl_no_sse2_all_calls_panic :
  forall (S : N -> N) (t : gtgt) (cpu : nat -> bool) (g0 : gstate (gresult gmodule) X gcall gout) (sched : list nat),
    initial (gresult gmodule) X gcall gout g0 ->
    cpu 0%nat = false -> cpu 1%nat = false -> cpu 2%nat = false ->
    forall i t0 tf,
      nth_error (threads (gresult gmodule) X gcall gout g0) i = Some t0 ->
      nth_error (threads (gresult gmodule) X gcall gout
                   (run (gresult gmodule) X gcall gout cpu (g_choose t) g_cell_of (g_exec S) sched g0)) i = Some tf ->
      Forall (fun o => o = Panicked) (t_outs (gresult gmodule) gcall gout tf) /\
      tbl (gresult gmodule) X gcall gout
          (run (gresult gmodule) X gcall gout cpu (g_choose t) g_cell_of (g_exec S) sched g0) (t_inst (gresult gmodule) gcall gout t0)
        = tbl (gresult gmodule) X gcall gout g0 (t_inst (gresult gmodule) gcall gout t0).
Proof. exact concurrent_first_use_no_sse2. Qed.

(** second reading: instance = the whole hasher state of Model/Groestl.v, operations = new / update /
    finalize with the chosen module's functions (one cell consulted per operation - relies on
    C18_groestl_six_cells_agree) *)
Theorem C18_groestl256_hasher_concurrent_first_use :
  forall (t : gtgt) (cpu : nat -> bool)
         (g0 : gstate (gresult gmodule) hasher FollowupsGroestl.F_C18H.hop FollowupsGroestl.F_C18H.hout) (sched : list nat),
    initial (gresult gmodule) hasher FollowupsGroestl.F_C18H.hop FollowupsGroestl.F_C18H.hout g0 ->
    (cpu 0 || cpu 1 || cpu 2 = true)%nat ->
    forall i t0 tf msg,
      nth_error (threads _ _ _ _ g0) i = Some t0 ->
      t_prog _ _ _ t0 = [FollowupsGroestl.F_C18H.HNew 256; FollowupsGroestl.F_C18H.HUpdate msg; FollowupsGroestl.F_C18H.HFinalize] ->
      fits 64 msg ->
      nth_error (threads _ _ _ _
                   (run _ _ _ _ cpu (g_choose t) FollowupsGroestl.F_C18H.h_cell_of (FollowupsGroestl.F_C18H.h_exec sbox_fast) sched g0)) i = Some tf ->
      t_prog _ _ _ tf = [] ->
      exists r, t_outs _ _ _ tf = [FollowupsGroestl.F_C18H.HUnit; FollowupsGroestl.F_C18H.HUnit; FollowupsGroestl.F_C18H.HBytes r]
                /\ out256 r = Spec.Groestl.groestl256 msg.
Proof. exact FollowupsGroestl.F_C18H.concurrent_first_use_hasher256. Qed.

Definition C18_groestl_examples := (g3_initial, g3_programs).

Print Assumptions C18_groestl_hasher_calls.
Print Assumptions C18_groestl_six_cells_agree.
Print Assumptions C18_groestl256_concurrent_first_use.
Print Assumptions C18_groestl512_concurrent_first_use.
Print Assumptions C18_groestl256_concurrent_first_use_fair.
Print Assumptions C18_groestl_no_sse2_all_calls_panic.
Print Assumptions C18_groestl256_hasher_concurrent_first_use.
Print Assumptions C18_groestl_examples.

(** audit C18-F2, last sentence (work package audit-leftovers, Proofs/LeftoversConc.v).
    READING: one modelled [Op] = ONE DISPATCHED CALL (one lazy-cell read), not one API call.  An API
    call that consults several cells - Groestl's [finalize]: the tf512 cell, then the of512 cell; a
    [dispatch!] site: five feature probes, then the call - is SEVERAL CONSECUTIVE [Op]s of the same
    thread, between which other threads' micro-steps may fall, exactly as in the code.  The theorems
    above then give, group by group, the single-threaded result ([calls_run]: the API calls one after
    the other). *)
From CC Require Proofs.LeftoversConc.

Theorem C18_multi_cell_calls_sequential :
  forall (V St Op Out : Type) (cpu : nat -> bool) (choose : (nat -> bool) -> nat -> V)
         (cell_of : Op -> nat) (exec : V -> Op -> St -> St * Out)
         (g0 : gstate V St Op Out) (sched : list nat),
    initial V St Op Out g0 ->
    forall i t0 tf (groups : list (list Op)),
      nth_error (threads V St Op Out g0) i = Some t0 ->
      t_prog V Op Out t0 = concat groups ->
      nth_error (threads V St Op Out (run V St Op Out cpu choose cell_of exec sched g0)) i = Some tf ->
      t_prog V Op Out tf = [] ->
      t_outs V Op Out tf
      = concat (snd (LeftoversConc.calls_run V St Op Out cpu choose cell_of exec
                       (tbl V St Op Out g0 (t_inst V Op Out t0)) groups))
      /\ tbl V St Op Out (run V St Op Out cpu choose cell_of exec sched g0) (t_inst V Op Out t0)
         = fst (LeftoversConc.calls_run V St Op Out cpu choose cell_of exec
                  (tbl V St Op Out g0 (t_inst V Op Out t0)) groups).
Proof. exact LeftoversConc.multi_cell_calls_sequential. Qed.

(** [calls_run] is: run each group with [seq_run] from the state the previous group left *)
Theorem C18_calls_run_unfold :
  forall (V St Op Out : Type) (cpu : nat -> bool) (choose : (nat -> bool) -> nat -> V)
         (cell_of : Op -> nat) (exec : V -> Op -> St -> St * Out) s g r,
    LeftoversConc.calls_run V St Op Out cpu choose cell_of exec s [] = (s, [])
    /\ LeftoversConc.calls_run V St Op Out cpu choose cell_of exec s (g :: r)
       = (fst (LeftoversConc.calls_run V St Op Out cpu choose cell_of exec
                 (fst (seq_run V St Op Out cpu choose cell_of exec s g)) r),
          snd (seq_run V St Op Out cpu choose cell_of exec s g)
          :: snd (LeftoversConc.calls_run V St Op Out cpu choose cell_of exec
                    (fst (seq_run V St Op Out cpu choose cell_of exec s g)) r)).
Proof. exact LeftoversConc.calls_run_unfold. Qed.

(** Groestl: [finalize] = the group [CTf512 blk; COf512], cells 0 then 1; in every schedule the finished
    thread holds the state of the API calls run one after the other, whose cut is the specified digest *)
Theorem C18_groestl_finalize_touches_two_cells :
  forall blk, LeftoversConc.cells_touched gcall g_cell_of [CTf512 blk; COf512] = [0; 1].
Proof. exact LeftoversConc.GroestlTwoCells.finalize_touches_two_cells. Qed.

Theorem C18_groestl_finalize_two_cells :
  forall (t : gtgt) (cpu : nat -> bool) (g0 : gstate (gresult gmodule) X gcall gout) (sched : list nat),
    initial (gresult gmodule) X gcall gout g0 ->
    (cpu 0 || cpu 1 || cpu 2 = true)%nat ->
    forall i t0 tf msg,
      nth_error (threads (gresult gmodule) X gcall gout g0) i = Some t0 ->
      t_prog (gresult gmodule) gcall gout t0 = concat (LeftoversConc.GroestlTwoCells.groups512 256 msg) ->
      fits 64 msg ->
      nth_error (threads (gresult gmodule) X gcall gout
                   (run (gresult gmodule) X gcall gout cpu (g_choose t) g_cell_of (g_exec sbox_fast) sched g0)) i = Some tf ->
      t_prog (gresult gmodule) gcall gout tf = [] ->
      let final := tbl (gresult gmodule) X gcall gout
                     (run (gresult gmodule) X gcall gout cpu (g_choose t) g_cell_of (g_exec sbox_fast) sched g0)
                     (t_inst (gresult gmodule) gcall gout t0) in
      final = fst (LeftoversConc.calls_run (gresult gmodule) X gcall gout cpu (g_choose t) g_cell_of (g_exec sbox_fast)
                     (tbl (gresult gmodule) X gcall gout g0 (t_inst (gresult gmodule) gcall gout t0))
                     (LeftoversConc.GroestlTwoCells.groups512 256 msg))
      /\ t_outs (gresult gmodule) gcall gout tf
         = concat (snd (LeftoversConc.calls_run (gresult gmodule) X gcall gout cpu (g_choose t) g_cell_of (g_exec sbox_fast)
                          (tbl (gresult gmodule) X gcall gout g0 (t_inst (gresult gmodule) gcall gout t0))
                          (LeftoversConc.GroestlTwoCells.groups512 256 msg)))
      /\ out256 (concat final) = Spec.Groestl.groestl256 msg.
Proof. exact LeftoversConc.GroestlTwoCells.groestl_finalize_two_cells. Qed.

Theorem C18_groestl_groups_are_the_calls :
  forall bits msg, concat (LeftoversConc.GroestlTwoCells.groups512 bits msg) = calls512 bits msg.
Proof. exact LeftoversConc.GroestlTwoCells.groups512_calls. Qed.

(** a [dispatch!] site: five probes + the call = six consecutive [Op]s; every schedule gives the variant the
    CPU oracle selects *)
Theorem C18_dispatch_probes_any_schedule :
  forall (cpu : nat -> bool)
         (g0 : gstate bool (list bool * list nat) LeftoversConc.DispatchProbes.dop nat) (sched : list nat),
    initial _ _ _ _ g0 ->
    forall i t0 tf xs,
      nth_error (threads _ _ _ _ g0) i = Some t0 ->
      t_prog _ _ _ t0 = concat (map LeftoversConc.DispatchProbes.dispatch_call xs) ->
      tbl _ _ _ _ g0 (t_inst _ _ _ t0) = ([], []) ->
      nth_error (threads _ _ _ _ (run _ _ _ _ cpu LeftoversConc.DispatchProbes.d_choose
                                     LeftoversConc.DispatchProbes.d_cell_of LeftoversConc.DispatchProbes.d_exec sched g0)) i = Some tf ->
      t_prog _ _ _ tf = [] ->
      tbl _ _ _ _ (run _ _ _ _ cpu LeftoversConc.DispatchProbes.d_choose
                     LeftoversConc.DispatchProbes.d_cell_of LeftoversConc.DispatchProbes.d_exec sched g0) (t_inst _ _ _ t0)
      = ([], map (fun x => x + 100 * LeftoversConc.DispatchProbes.variant [cpu 0; cpu 1; cpu 2; cpu 3; cpu 4]) xs).
Proof. exact LeftoversConc.DispatchProbes.dispatch_calls_any_schedule. Qed.

(** non-vacuity: the schedule in which thread 1 initialises the of512 cell while thread 0 is between the
    two cell accesses of its [finalize] (both have computed the initialiser, neither has stored) *)
Definition C18_two_cell_examples :=
  (LeftoversConc.GroestlTwoCells.race_point, LeftoversConc.GroestlTwoCells.two_cell_schedule_sequential,
   LeftoversConc.GroestlTwoCells.two_cell_by_theorem, LeftoversConc.DispatchProbes.dispatch_touches_six_cells).

Print Assumptions C18_multi_cell_calls_sequential.
Print Assumptions C18_calls_run_unfold.
Print Assumptions C18_groestl_finalize_touches_two_cells.
Print Assumptions C18_groestl_finalize_two_cells.
Print Assumptions C18_groestl_groups_are_the_calls.
Print Assumptions C18_dispatch_probes_any_schedule.
Print Assumptions C18_two_cell_examples.
