(** C18 — results are unaffected by concurrent first use and by interleaving of instances.

    PROVED (about Model/Concurrency.v; for EVERY schedule, any number of threads and steps):
    lazy dispatch cells accessed by the NON-atomic micro-steps read / compute / store (weaker than
    std::sync::Once, equal to std_detect's relaxed cache) only ever hold None or [init c], every
    caller ends up using [init c] (C18_once_cell_any_schedule); each thread's outputs and its
    instance's state equal the single-threaded one-at-a-time run of the operations it has executed
    (C18_concurrent_equals_sequential, C18_concurrent_complete); an instance no thread owns is never
    written (C18_no_foreign_writes); operations of several instances interleaved in one thread give
    each instance exactly its own sequential results (C18_interleaving_independent). [init] is a
    deterministic function of the CPU oracle (a universally quantified variable, no axiom).

    NOT expressible in this model, hence only OBSERVED (harness h_conc: cold processes, 2..64
    threads released by a barrier, first calls into every algorithm; source scan for globals):
    memory-model effects (a torn read of a function pointer, reordering around the real Once),
    and the premise that the code has no other shared mutable state than the modelled cells (the
    scan compares the list of statics/cells in the sources with the modelled inventory on every
    run). Level: proof, PARTIAL. *)
From Coq Require Import List Arith.
From CC Require Import Model.Concurrency Proofs.Concurrency.
Import ListNotations.

Theorem C18_once_cell_any_schedule :
  forall (V St Op Out : Type) (cpu : nat -> bool) (choose : (nat -> bool) -> nat -> V)
         (cell_of : Op -> nat) (exec : V -> Op -> St -> St * Out)
         (g0 : gstate V St Op Out) (sched : list nat),
    initial V St Op Out g0 ->
    let g := run V St Op Out cpu choose cell_of exec sched g0 in
    (forall c, cells V St Op Out g c = None \/ cells V St Op Out g c = Some (init V cpu choose c))
    /\ (forall i t, nth_error (threads V St Op Out g) i = Some t ->
          match t_pc V Op Out t with
          | Idle _ => True
          | SawNone _ c => forall o r, t_prog V Op Out t = o :: r -> c = cell_of o
          | Computed _ c v => v = init V cpu choose c /\ forall o r, t_prog V Op Out t = o :: r -> c = cell_of o
          | Ready _ v => forall o r, t_prog V Op Out t = o :: r -> v = init V cpu choose (cell_of o)
          end).
Proof. exact once_cell_any_schedule. Qed.

Theorem C18_concurrent_equals_sequential :
  forall (V St Op Out : Type) (cpu : nat -> bool) (choose : (nat -> bool) -> nat -> V)
         (cell_of : Op -> nat) (exec : V -> Op -> St -> St * Out)
         (g0 : gstate V St Op Out) (sched : list nat),
    initial V St Op Out g0 ->
    forall i t0 t,
      nth_error (threads V St Op Out g0) i = Some t0 ->
      nth_error (threads V St Op Out (run V St Op Out cpu choose cell_of exec sched g0)) i = Some t ->
      exists k, k <= length (t_prog V Op Out t0)
        /\ t_prog V Op Out t = skipn k (t_prog V Op Out t0)
        /\ t_inst V Op Out t = t_inst V Op Out t0
        /\ t_outs V Op Out t
           = snd (seq_run V St Op Out cpu choose cell_of exec (tbl V St Op Out g0 (t_inst V Op Out t0))
                          (firstn k (t_prog V Op Out t0)))
        /\ tbl V St Op Out (run V St Op Out cpu choose cell_of exec sched g0) (t_inst V Op Out t0)
           = fst (seq_run V St Op Out cpu choose cell_of exec (tbl V St Op Out g0 (t_inst V Op Out t0))
                          (firstn k (t_prog V Op Out t0))).
Proof. exact concurrent_equals_sequential. Qed.

Theorem C18_concurrent_complete :
  forall (V St Op Out : Type) (cpu : nat -> bool) (choose : (nat -> bool) -> nat -> V)
         (cell_of : Op -> nat) (exec : V -> Op -> St -> St * Out)
         (g0 : gstate V St Op Out) (sched : list nat),
    initial V St Op Out g0 ->
    forall i t0 t,
      nth_error (threads V St Op Out g0) i = Some t0 ->
      nth_error (threads V St Op Out (run V St Op Out cpu choose cell_of exec sched g0)) i = Some t ->
      t_prog V Op Out t = [] ->
      t_outs V Op Out t
      = snd (seq_run V St Op Out cpu choose cell_of exec (tbl V St Op Out g0 (t_inst V Op Out t0)) (t_prog V Op Out t0))
      /\ tbl V St Op Out (run V St Op Out cpu choose cell_of exec sched g0) (t_inst V Op Out t0)
         = fst (seq_run V St Op Out cpu choose cell_of exec (tbl V St Op Out g0 (t_inst V Op Out t0)) (t_prog V Op Out t0)).
Proof. exact concurrent_complete. Qed.

Theorem C18_no_foreign_writes :
  forall (V St Op Out : Type) (cpu : nat -> bool) (choose : (nat -> bool) -> nat -> V)
         (cell_of : Op -> nat) (exec : V -> Op -> St -> St * Out)
         (g0 : gstate V St Op Out) (sched : list nat),
    initial V St Op Out g0 ->
    length (threads V St Op Out (run V St Op Out cpu choose cell_of exec sched g0)) = length (threads V St Op Out g0)
    /\ forall j, ~ In j (map (t_inst V Op Out) (threads V St Op Out g0)) ->
         tbl V St Op Out (run V St Op Out cpu choose cell_of exec sched g0) j = tbl V St Op Out g0 j.
Proof.
  intros. split; [now apply threads_preserved|now apply no_foreign_writes].
Qed.

Theorem C18_interleaving_independent :
  forall (V St Op Out : Type) (cpu : nat -> bool) (choose : (nat -> bool) -> nat -> V)
         (cell_of : Op -> nat) (exec : V -> Op -> St -> St * Out)
         (l : list (nat * Op)) (tb : nat -> St) (i : nat),
    proj i (snd (interleave_run V St Op Out cpu choose cell_of exec tb l))
    = snd (seq_run V St Op Out cpu choose cell_of exec (tb i) (proj i l))
    /\ fst (interleave_run V St Op Out cpu choose cell_of exec tb l) i
       = fst (seq_run V St Op Out cpu choose cell_of exec (tb i) (proj i l)).
Proof. exact interleaving_independent. Qed.

(** a thread that is given 4 micro-steps per operation finishes, whatever the others do *)
Theorem C18_progress :
  forall (V St Op Out : Type) (cpu : nat -> bool) (choose : (nat -> bool) -> nat -> V)
         (cell_of : Op -> nat) (exec : V -> Op -> St -> St * Out)
         (g : gstate V St Op Out) (i : nat) (t : thread V Op Out) (sched : list nat),
    nth_error (threads V St Op Out g) i = Some t ->
    4 * length (t_prog V Op Out t) <= count_occ Nat.eq_dec sched i ->
    exists t', nth_error (threads V St Op Out (run V St Op Out cpu choose cell_of exec sched g)) i = Some t'
               /\ t_prog V Op Out t' = [].
Proof. exact progress. Qed.

(** every schedule that gives every thread enough steps: all outputs are the sequential ones *)
Theorem C18_fair_schedule_sequential :
  forall (V St Op Out : Type) (cpu : nat -> bool) (choose : (nat -> bool) -> nat -> V)
         (cell_of : Op -> nat) (exec : V -> Op -> St -> St * Out)
         (g0 : gstate V St Op Out) (sched : list nat),
    initial V St Op Out g0 ->
    (forall i t0, nth_error (threads V St Op Out g0) i = Some t0 ->
                  4 * length (t_prog V Op Out t0) <= count_occ Nat.eq_dec sched i) ->
    forall i t0, nth_error (threads V St Op Out g0) i = Some t0 ->
    exists t, nth_error (threads V St Op Out (run V St Op Out cpu choose cell_of exec sched g0)) i = Some t
      /\ t_prog V Op Out t = []
      /\ t_outs V Op Out t
         = snd (seq_run V St Op Out cpu choose cell_of exec (tbl V St Op Out g0 (t_inst V Op Out t0)) (t_prog V Op Out t0))
      /\ tbl V St Op Out (run V St Op Out cpu choose cell_of exec sched g0) (t_inst V Op Out t0)
         = fst (seq_run V St Op Out cpu choose cell_of exec (tbl V St Op Out g0 (t_inst V Op Out t0)) (t_prog V Op Out t0)).
Proof. exact fair_schedule_sequential. Qed.

(** non-vacuity: a concrete 3-thread schedule in which two threads both find the cell empty,
    both run the initialiser and both store; all three finish with the sequential outputs *)
Theorem C18_example_three_threads :
  initial nat nat nat nat Example3.g0
  /\ map (t_pc nat nat nat) (threads nat nat nat nat (Example3.run Example3.prefix Example3.g0))
     = [Computed nat 1 8; Computed nat 1 8; Idle nat]
  /\ map (fun t => (t_prog nat nat nat t, t_outs nat nat nat t))
         (threads nat nat nat nat (Example3.run Example3.sched Example3.g0))
     = map (fun t => ([], snd (seq_run nat nat nat nat Example3.cpu Example3.choose Example3.cell_of
                                       Example3.exec 0 (t_prog nat nat nat t))))
           (threads nat nat nat nat Example3.g0)
  /\ map (t_outs nat nat nat) (threads nat nat nat nat (Example3.run Example3.sched Example3.g0))
     = [[8; 22]; [24]; [28; 68]].
Proof.
  exact (conj Example3.g0_initial (conj Example3.both_computed
          (conj Example3.all_finished_sequential Example3.outputs))).
Qed.

Print Assumptions C18_once_cell_any_schedule.
Print Assumptions C18_concurrent_equals_sequential.
Print Assumptions C18_concurrent_complete.
Print Assumptions C18_no_foreign_writes.
Print Assumptions C18_interleaving_independent.
Print Assumptions C18_progress.
Print Assumptions C18_fair_schedule_sequential.
Print Assumptions C18_example_three_threads.
