(** The scalar, lane-wise meaning of the ppv-lite86 / ppv-null vector
    operations (C12, C13, C19, C03). A vector value is the list of its words
    in lane order (lane 0 first); [w] is the word width in bits. Wide types
    (x2, x4 forms) are the concatenation of their lanes' word lists, lane 0
    first. This file is the shared contract: back-end models are proved
    equal to these definitions. *)
From Coq Require Import NArith List Bool.
From CC Require Import Lib.Words Lib.Bytes Lib.ListX.
Import ListNotations.
Local Open Scope N_scope.

(** wrapping add *)
Definition v_add (w : N) (a b : list N) : list N := map2 (addw w) a b.
Definition v_xor (a b : list N) : list N := map2 N.lxor a b.
Definition v_and (a b : list N) : list N := map2 N.land a b.
Definition v_or (a b : list N) : list N := map2 N.lor a b.
Definition v_not (w : N) (a : list N) : list N := map (notw w) a.
(** [a.andnot(b)] is [!a & b] *)
Definition v_andnot (w : N) (a b : list N) : list N :=
  map2 (fun x y => N.land (notw w x) y) a b.
(** rotate each word right by [k] bits, [k < w] *)
Definition v_rotr (w k : N) (a : list N) : list N := map (rotrw w k) a.

(** byte reversal within one [w]-bit word ([w] a multiple of 8) *)
Definition bswapw (w : N) (x : N) : N := be_join (le_split (N.to_nat (w / 8)) x).
Definition v_bswap (w : N) (a : list N) : list N := map (bswapw w) a.

(** the named word permutations of a 4-word vector (Words4 / LaneWords4):
    [shuffle1230 [x0;x1;x2;x3] = [x3;x0;x1;x2]] etc. Wide types apply the
    lane-word permutation within each 4-word lane. *)
Definition shuffle1230 {A} (l : list A) : list A :=
  match l with [a; b; c; d] => [d; a; b; c] | _ => l end.
Definition shuffle2301 {A} (l : list A) : list A :=
  match l with [a; b; c; d] => [c; d; a; b] | _ => l end.
Definition shuffle3012 {A} (l : list A) : list A :=
  match l with [a; b; c; d] => [b; c; d; a] | _ => l end.

(** groups of 4 words (the lanes of a u32x4x2 / u32x4x4) *)
Fixpoint lanes4 {A} (fuel : nat) (l : list A) : list (list A) :=
  match fuel, l with
  | S f, a :: b :: c :: d :: r => [a; b; c; d] :: lanes4 f r
  | _, _ => []
  end.
Definition per_lane4 {A} (f : list A -> list A) (l : list A) : list A :=
  concat (map f (lanes4 (length l) l)).

(** [swapN]: exchange adjacent [n]-bit groups of a word ([n] a power of two
    below the word width): bit [j] of the result is bit [j xor n] of the operand. *)
Definition swap_spec_bit (n : N) (x : N) (j : N) : bool := N.testbit x (N.lxor j n).
(** executable form: ((x & m) << n) | ((x >> n) & m), [m] = the low group of each pair *)
Fixpoint group_mask (fuel : nat) (n w : N) : N :=
  match fuel with
  | O => 0
  | S f => if w <=? 0 then 0
           else N.lor (N.ones n) (N.shiftl (group_mask f n (w - 2 * n)) (2 * n))
  end.
Definition swapw (n w : N) (x : N) : N :=
  let m := group_mask (N.to_nat (w / (2 * n))) n w in
  N.lor (N.shiftl (N.land x m) n) (N.land (N.shiftr x n) m).
Definition v_swap (n w : N) (a : list N) : list N := map (swapw n w) a.

(** element access *)
Definition v_extract (a : list N) (i : nat) : N := nth i a 0.
Definition v_insert (a : list N) (x : N) (i : nat) : list N := upd i x a.

(** 4x4 transpose of lanes (Vec4Ext::transpose4): the results are
    (a0 b0 c0 d0) (a1 b1 c1 d1) (a2 b2 c2 d2) (a3 b3 c3 d3) *)
Definition transpose4 {A} (d0 : A) (a b c d : list A) : list A * list A * list A * list A :=
  let col i := [nth i a d0; nth i b d0; nth i c d0; nth i d d0] in
  (col 0%nat, col 1%nat, col 2%nat, col 3%nat).

(** byte order of loads/stores: little-endian per word, words in lane order *)
Definition read_le (wbytes : nat) (bs : list N) : list N := words_le wbytes bs.
Definition write_le (wbytes : nat) (ws : list N) : list N := bytes_le wbytes ws.
Definition read_be (wbytes : nat) (bs : list N) : list N :=
  map be_join (chunks_exact wbytes (length bs) bs).
Definition write_be (wbytes : nat) (ws : list N) : list N := flat_map (be_split wbytes) ws.

(** storage reinterpretation: the same bytes viewed with another word size *)
Definition reinterpret (from_bytes to_bytes : nat) (ws : list N) : list N :=
  words_le to_bytes (bytes_le from_bytes ws).
