(** Threefish as defined in "The Skein Hash Function Family" v1.3, section 3.3,
    written index by index (no in-place update, the word permutation [pi]
    used as in the paper: v_{d+1,i} = f_{d,pi(i)}).

    Parametric in the word operations so that structural theorems do not
    depend on 64-bit arithmetic; [Spec64] instantiates them. *)
From Coq Require Import NArith List Lia Arith.
From CC Require Import Lib.Words Lib.Bytes Lib.ListX.
Import ListNotations.

Section Spec.
  Variables (add xor : N -> N -> N) (rotl : N -> N -> N).
  Variable c240 : N.

  Record params := { nw : nat; nr : nat; rot : list (list N); pi : list nat }.
  Variable p : params.

  (** extended key: k_Nw = C240 xor k_0 xor ... xor k_{Nw-1} *)
  Definition ext_key (k : list N) : list N := k ++ [fold_left xor k c240].
  Definition ext_tweak (t0 t1 : N) : list N := [t0; t1; xor t0 t1].

  (** subkey word k_{s,i} *)
  Definition subkey_word (ek et : list N) (s i : nat) : N :=
    let base := nth ((s + i) mod (nw p + 1)) ek 0%N in
    if i =? nw p - 3 then add base (nth (s mod 3) et 0%N)
    else if i =? nw p - 2 then add base (nth ((s + 1) mod 3) et 0%N)
    else if i =? nw p - 1 then add base (N.of_nat s)
    else base.
  Definition subkey (ek et : list N) (s : nat) : list N :=
    map (subkey_word ek et s) (seq 0 (nw p)).

  Definition mix (r : N) (x0 x1 : N) : N * N :=
    let y0 := add x0 x1 in (y0, xor (rotl r x1) y0).

  (** one round [d] on state [v] with the subkey of round group [d/4] *)
  Definition round (ek et : list N) (d : nat) (v : list N) : list N :=
    let e := if d mod 4 =? 0 then map2 add v (subkey ek et (d / 4)) else v in
    let f := flat_map (fun j =>
               let '(y0, y1) := mix (nth2 (d mod 8) j (rot p) 0%N)
                                    (nth (2 * j) e 0%N) (nth (2 * j + 1) e 0%N) in
               [y0; y1]) (seq 0 (nw p / 2)) in
    map (fun i => nth (nth i (pi p) 0) f 0%N) (seq 0 (nw p)).

  Definition encrypt_words (k : list N) (t0 t1 : N) (v : list N) : list N :=
    let ek := ext_key k in
    let et := ext_tweak t0 t1 in
    let v := fold_left (fun v d => round ek et d v) (seq 0 (nr p)) v in
    map2 add v (subkey ek et (nr p / 4)).
End Spec.

(** * The 64-bit instance *)
Local Open Scope N_scope.
Definition add64 := addw 64.
Definition sub64 := subw 64.
Definition rotl64 (r x : N) := rotlw 64 (r mod 64) x.
Definition rotr64 (r x : N) := rotrw 64 (r mod 64) x.
Definition C240 : N := 0x1BD11BDAA9FC1A22.

Definition R_256 : list (list N) :=
  [[14;16];[52;57];[23;40];[5;37];[25;33];[46;12];[58;22];[32;32]].
Definition R_512 : list (list N) :=
  [[46;36;19;37];[33;27;14;42];[17;49;36;39];[44;9;54;56];
   [39;30;34;24];[13;50;10;17];[25;29;39;43];[8;35;56;22]].
Definition R_1024 : list (list N) :=
  [[24;13;8;47;8;17;22;37];[38;19;10;55;49;18;23;52];[33;4;51;13;34;41;59;17];
   [5;20;48;41;47;28;16;25];[41;9;37;31;12;47;44;30];[16;34;56;51;4;53;42;41];
   [31;44;47;46;19;42;44;25];[9;48;35;52;23;31;37;20]].

(** the word permutations pi of Table 3 of the paper *)
Definition PI_256 : list nat := [0;3;2;1]%nat.
Definition PI_512 : list nat := [2;1;4;7;6;5;0;3]%nat.
Definition PI_1024 : list nat := [0;9;2;13;6;11;4;15;10;7;12;3;14;5;8;1]%nat.

Definition tf256 := {| nw := 4; nr := 72; rot := R_256; pi := PI_256 |}.
Definition tf512 := {| nw := 8; nr := 72; rot := R_512; pi := PI_512 |}.
Definition tf1024 := {| nw := 16; nr := 80; rot := R_1024; pi := PI_1024 |}.

Definition spec_encrypt_words (p : params) := encrypt_words add64 N.lxor rotl64 C240 p.

(** byte-level: key, block little-endian 64-bit words *)
Definition spec_encrypt (p : params) (key : list N) (t0 t1 : N) (block : list N) : list N :=
  bytes_le 8 (spec_encrypt_words p (words_le 8 key) t0 t1 (words_le 8 block)).
