(** Known-answer vectors anchoring [Spec/Blake.v]: the four empty-message
    digests and the one-block / two-block vectors of the BLAKE submission
    (message = one zero byte; 72 resp. 144 zero bytes), which are also the
    vectors in hashes/blake/tests/data/*.blb (copied here once). *)
From Coq Require Import NArith List.
From CC Require Import Lib.Words Lib.Bytes Spec.Blake.
Import ListNotations.
Local Open Scope N_scope.

Definition zeros (n : nat) : list N := repeat 0 n.

Example blake256_empty : be_join (hash blake256 []) =
  0x716f6e863f744b9ac22c97ec7b76ea5f5908bc5b2f67c61510bfc4751384ea7a.
Proof. vm_compute. reflexivity. Qed.
Example blake224_empty : be_join (hash blake224 []) =
  0x7dc5313b1c04512a174bd6503b89607aecbee0903d40a8a569c94eed.
Proof. vm_compute. reflexivity. Qed.
Example blake512_empty : be_join (hash blake512 []) =
  0xa8cfbbd73726062df0c6864dda65defe58ef0cc52a5625090fa17601e1eecd1b628e94f396ae402a00acc9eab77b4d4c2e852aaaa25a636d80af3fc7913ef5b8.
Proof. vm_compute. reflexivity. Qed.
Example blake384_empty : be_join (hash blake384 []) =
  0xc6cbd89c926ab525c242e6621f2f5fa73aa4afe3d9e24aed727faaadd6af38b620bdb623dd2b4788b1c8086984af8706.
Proof. vm_compute. reflexivity. Qed.

Example blake256_1 : be_join (hash blake256 (zeros 1)) =
  0x0ce8d4ef4dd7cd8d62dfded9d4edb0a774ae6a41929a74da23109e8f11139c87.
Proof. vm_compute. reflexivity. Qed.
Example blake256_72 : be_join (hash blake256 (zeros 72)) =
  0xd419bad32d504fb7d44d460c42c5593fe544fa4c135dec31e21bd9abdcc22d41.
Proof. vm_compute. reflexivity. Qed.
Example blake224_1 : be_join (hash blake224 (zeros 1)) =
  0x4504cb0314fb2a4f7a692e696e487912fe3f2468fe312c73a5278ec5.
Proof. vm_compute. reflexivity. Qed.
Example blake224_72 : be_join (hash blake224 (zeros 72)) =
  0xf5aa00dd1cb847e3140372af7b5c46b4888d82c8c0a917913cfb5d04.
Proof. vm_compute. reflexivity. Qed.
Example blake512_1 : be_join (hash blake512 (zeros 1)) =
  0x97961587f6d970faba6d2478045de6d1fabd09b61ae50932054d52bc29d31be4ff9102b9f69e2bbdb83be13d4b9c06091e5fa0b48bd081b634058be0ec49beb3.
Proof. vm_compute. reflexivity. Qed.
Example blake512_144 : be_join (hash blake512 (zeros 144)) =
  0x313717d608e9cf758dcb1eb0f0c3cf9fc150b2d500fb33f51c52afc99d358a2f1374b8a38bba7974e7f6ef79cab16f22ce1e649d6e01ad9589c213045d545dde.
Proof. vm_compute. reflexivity. Qed.
Example blake384_1 : be_join (hash blake384 (zeros 1)) =
  0x10281f67e135e90ae8e882251a355510a719367ad70227b137343e1bc122015c29391e8545b5272d13a7c2879da3d807.
Proof. vm_compute. reflexivity. Qed.
Example blake384_144 : be_join (hash blake384 (zeros 144)) =
  0x0b9845dd429566cdab772ba195d271effe2d0211f16991d766ba749447c5cde569780b2daa66c4b224a2ec2e5d09174c.
Proof. vm_compute. reflexivity. Qed.

(** the output lengths *)
Example out_lengths :
  map (fun v => length (hash v [])) [blake224; blake256; blake384; blake512] = [28; 32; 48; 64]%nat.
Proof. vm_compute. reflexivity. Qed.
