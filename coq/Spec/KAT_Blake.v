(** Known-answer vectors anchoring [Spec/Blake.v]: the four empty-message
    digests and the one-block / two-block vectors of the BLAKE submission
    (message = one zero byte; 72 resp. 144 zero bytes), which are also the
    vectors in hashes/blake/tests/data/*.blb (copied here once). *)
From Coq Require Import NArith List.
From CC Require Import Lib.Words Lib.Bytes Spec.Blake.
Import ListNotations.
Local Open Scope N_scope.

Definition zeros (n : nat) : list N := repeat 0 n.

Example blake256_empty : be_join (hash blake256 []) =
  0x716f6e863f744b9ac22c97ec7b76ea5f5908bc5b2f67c61510bfc4751384ea7a.
Proof. vm_compute. reflexivity. Qed.
Example blake224_empty : be_join (hash blake224 []) =
  0x7dc5313b1c04512a174bd6503b89607aecbee0903d40a8a569c94eed.
Proof. vm_compute. reflexivity. Qed.
Example blake512_empty : be_join (hash blake512 []) =
  0xa8cfbbd73726062df0c6864dda65defe58ef0cc52a5625090fa17601e1eecd1b628e94f396ae402a00acc9eab77b4d4c2e852aaaa25a636d80af3fc7913ef5b8.
Proof. vm_compute. reflexivity. Qed.
Example blake384_empty : be_join (hash blake384 []) =
  0xc6cbd89c926ab525c242e6621f2f5fa73aa4afe3d9e24aed727faaadd6af38b620bdb623dd2b4788b1c8086984af8706.
Proof. vm_compute. reflexivity. Qed.

Example blake256_1 : be_join (hash blake256 (zeros 1)) =
  0x0ce8d4ef4dd7cd8d62dfded9d4edb0a774ae6a41929a74da23109e8f11139c87.
Proof. vm_compute. reflexivity. Qed.
Example blake256_72 : be_join (hash blake256 (zeros 72)) =
  0xd419bad32d504fb7d44d460c42c5593fe544fa4c135dec31e21bd9abdcc22d41.
Proof. vm_compute. reflexivity. Qed.
Example blake224_1 : be_join (hash blake224 (zeros 1)) =
  0x4504cb0314fb2a4f7a692e696e487912fe3f2468fe312c73a5278ec5.
Proof. vm_compute. reflexivity. Qed.
Example blake224_72 : be_join (hash blake224 (zeros 72)) =
  0xf5aa00dd1cb847e3140372af7b5c46b4888d82c8c0a917913cfb5d04.
Proof. vm_compute. reflexivity. Qed.
Example blake512_1 : be_join (hash blake512 (zeros 1)) =
  0x97961587f6d970faba6d2478045de6d1fabd09b61ae50932054d52bc29d31be4ff9102b9f69e2bbdb83be13d4b9c06091e5fa0b48bd081b634058be0ec49beb3.
Proof. vm_compute. reflexivity. Qed.
Example blake512_144 : be_join (hash blake512 (zeros 144)) =
  0x313717d608e9cf758dcb1eb0f0c3cf9fc150b2d500fb33f51c52afc99d358a2f1374b8a38bba7974e7f6ef79cab16f22ce1e649d6e01ad9589c213045d545dde.
Proof. vm_compute. reflexivity. Qed.
Example blake384_1 : be_join (hash blake384 (zeros 1)) =
  0x10281f67e135e90ae8e882251a355510a719367ad70227b137343e1bc122015c29391e8545b5272d13a7c2879da3d807.
Proof. vm_compute. reflexivity. Qed.
Example blake384_144 : be_join (hash blake384 (zeros 144)) =
  0x0b9845dd429566cdab772ba195d271effe2d0211f16991d766ba749447c5cde569780b2daa66c4b224a2ec2e5d09174c.
Proof. vm_compute. reflexivity. Qed.

(** the output lengths *)
Example out_lengths :
  map (fun v => length (hash v [])) [blake224; blake256; blake384; blake512] = [28; 32; 48; 64]%nat.
Proof. vm_compute. reflexivity. Qed.

(** * The one-vs-two final block boundary (55 / 56 / 64 bytes for BLAKE-224/256, 111 / 112 / 128 for
      BLAKE-384/512): 55 resp. 111 bytes end in one block whose marker byte is 0x81; 56 / 64 resp.
      112 / 128 bytes need a second block that is padding only and is compressed with t = 0.
      NOT published vectors: cross-implementation values from a reference implementation written
      independently of this specification and of the crate (by the auditor of this development; it also
      reproduces all published vectors above). Messages are n bytes 0xff. *)
Definition ffs (n : nat) : list N := repeat 0xff n.

Example blake256_boundary_cross :
  map (fun n => be_join (hash blake256 (ffs n))) [55; 56; 64]%nat =
    [0xd806c129c0a95654d746419667a9f0878da9cc5d55d77e3e22df7c1b12176010;
     0x6b573a7fa4bac4924ee40c1160d401843488828037ba13f0a82cce8fc841c3e6;
     0x80a0ace8b131870da8de11bca85a811f44ece342c57cb8cd5567d2a33685b5be].
Proof. vm_compute. reflexivity. Qed.
Example blake224_boundary_cross :
  map (fun n => be_join (hash blake224 (ffs n))) [55; 56; 64]%nat =
    [0x5a0f6dcd0e2ebb236675cfdef8013f2eaea713d63333d6c0716666d8;
     0xa77de60c6275c12720399aa6c37f1694d2ef591f064b5d02b99c6ac5;
     0xa83cb960f1afcbdcf2d493e145fa89a5c807a09a42fcbc4f3749a654].
Proof. vm_compute. reflexivity. Qed.
Example blake512_boundary_cross :
  map (fun n => be_join (hash blake512 (ffs n))) [111; 112; 128]%nat =
    [0x6c8fb5a0d0ccb348284234baf7d9306d850652205cf891e92026eb27e8660c62045c62e7a0c2860fc6ccb793cdaa34e40a4a8c12f1c32414ee9e766691a8195e;
     0x1e196c0fe8012ce859013b35f7f33b62d1e71e71c6e4e7b9d6100d7bce9b6ed106614b4fd08230605c452275ca8fa88e48d3dbc1fdcd8b6a85861937e2d6da37;
     0x02398332482e4c82dde58b0d9085ac1ced7cd48f167e98d6bcb1dc66531473c0efe85cebfbbc83af9e70381e4c086925facc22350613879c8287d46e9e53d388].
Proof. vm_compute. reflexivity. Qed.
Example blake384_boundary_cross :
  map (fun n => be_join (hash blake384 (ffs n))) [111; 112; 128]%nat =
    [0x25e264fb88fae5aa62967d3275f1f8a932fdd9f717e42e91e6c8c2293d7ede5a9b7afe2841892648a6f5b215d94f2f6b;
     0x9770fe18993d6582952c1d137981a4f32c31270b0104d0da65d4e2306db38931901614b03a7bbd67c0835bb8e8e1b63a;
     0x88eb477dbf877a052ce95347bab16c72ef6cb4b0823eb09d6f1f38417db54891fc4407c2015137ecbfeaa632889484d8].
Proof. vm_compute. reflexivity. Qed.
