(** C19 — the plain scalar, lane-by-lane meaning of the ppv-null vector
    operations.  Written independently of the Rust code, arithmetic /
    index oriented:

    - a vector is the list of its lanes, lane 0 first (the order of the
      constructor arguments, of the slice a vector is loaded from / stored to
      and of [extract]/[replace] indices);
    - a lane of width [w] is a number below [2^w];
    - add is addition modulo [2^w]; xor/and/or are the bitwise operations;
      not is [2^w - 1 - a]; andnot is [(not a) and b];
    - rotation to the right by [r] ([0 <= r < w]) moves the low [r] bits to the top:
      [x / 2^r + (x mod 2^r) * 2^(w-r)];
    - [swapN]: bit [j] of the result is bit [j xor N] of the operand
      (adjacent [N]-bit groups exchanged);
    - [rotate_words_right i]: result lane [k] is operand lane [(k - i) mod 4]
      (every word moves [i] places towards higher indices; this is the
      direction fixed by crypto-simd's reference back end,
      [shuffle!(self, [3, 0, 1, 2])] for [i = 1], and the one ChaCha's
      diagonalisation relies on). *)
From Coq Require Import NArith List Bool Arith.
From CC Require Import Lib.ListX.
Import ListNotations.
Local Open Scope N_scope.

(** * Scalar lane functions *)
Definition lane_add (w a b : N) : N := (a + b) mod 2 ^ w.
Definition lane_xor (a b : N) : N := N.lxor a b.
Definition lane_and (a b : N) : N := N.land a b.
Definition lane_or (a b : N) : N := N.lor a b.
Definition lane_not (w a : N) : N := 2 ^ w - 1 - a.
Definition lane_andnot (w a b : N) : N := N.land (lane_not w a) b.
Definition lane_rotr (w r x : N) : N := x / 2 ^ r + (x mod 2 ^ r) * 2 ^ (w - r).

(** number with the given bits, least significant first *)
Fixpoint of_bits (l : list bool) : N :=
  match l with
  | [] => 0
  | b :: r => N.b2n b + 2 * of_bits r
  end.
Definition bit_positions (w : N) : list N := map N.of_nat (seq 0 (N.to_nat w)).
(** bit [j] of the result is bit [j xor n] of [x], for [j < w] *)
Definition lane_swap (w n x : N) : N :=
  of_bits (map (fun j => N.testbit x (N.lxor j n)) (bit_positions w)).

(** * Vectors = lists of lanes *)
Definition lanes_map (f : N -> N) (v : list N) : list N := map f v.
Definition lanes_zip (f : N -> N -> N) (a b : list N) : list N := map2 f a b.
Definition lanes_splat (n : nat) (x : N) : list N := repeat x n.
(** result lane [k] = operand lane [(k - i) mod n] *)
Definition words_rotr (i : nat) (v : list N) : list N :=
  let n := length v in
  map (fun k => nth ((k + (n - i mod n)) mod n) v 0) (seq 0 n).
Definition lane_extract (v : list N) (i : nat) : N := nth i v 0.
Definition lane_replace (v : list N) (i : nat) (x : N) : list N := upd i x v.

(** well-formedness: [n] lanes, each below [2^w] *)
Definition lanes_ok (w : N) (n : nat) (v : list N) : bool :=
  Nat.eqb (length v) n && forallb (fun x => x <? 2 ^ w) v.

(** anchors: the definitions mean what the comments say on familiar values *)
Example rotr_anchor : lane_rotr 32 8 0x11223344 = 0x44112233. Proof. reflexivity. Qed.
Example rotr_anchor64 : lane_rotr 64 1 1 = 0x8000000000000000. Proof. reflexivity. Qed.
Example swap1_anchor : lane_swap 8 1 0x01 = 0x02 /\ lane_swap 8 1 0x9 = 0x6. Proof. split; reflexivity. Qed.
Example swap4_anchor : lane_swap 16 4 0x1234 = 0x2143. Proof. reflexivity. Qed.
Example swap8_anchor : lane_swap 32 8 0x11223344 = 0x22114433. Proof. reflexivity. Qed.
Example swap64_anchor :
  lane_swap 128 64 0x00112233445566778899aabbccddeeff = 0x8899aabbccddeeff0011223344556677.
Proof. vm_compute. reflexivity. Qed.
Example words_rotr_anchor : words_rotr 1 [10; 11; 12; 13] = [13; 10; 11; 12]. Proof. reflexivity. Qed.
Example words_rotr_anchor3 : words_rotr 3 [10; 11; 12; 13] = [11; 12; 13; 10]. Proof. reflexivity. Qed.
Example not_anchor : lane_not 32 0x0000ffff = 0xffff0000. Proof. reflexivity. Qed.
Example andnot_anchor : lane_andnot 8 0x0f 0x3c = 0x30. Proof. reflexivity. Qed.
