(** C19 — the plain scalar, lane-by-lane meaning of the ppv-null vector
    operations.  Written independently of the Rust code, arithmetic /
    index oriented:

    - a vector is the list of its lanes, lane 0 first (the order of the
      constructor arguments, of the slice a vector is loaded from / stored to
      and of [extract]/[replace] indices);
    - a lane of width [w] is a number below [2^w];
    - add is addition modulo [2^w]; xor/and/or are the bitwise operations;
      not is [2^w - 1 - a]; andnot is [(not a) and b];
    - rotation to the right by [r] ([0 <= r < w]) moves the low [r] bits to the top:
      [x / 2^r + (x mod 2^r) * 2^(w-r)];
    - [swapN]: bit [j] of the result is bit [j xor N] of the operand
      (adjacent [N]-bit groups exchanged);
    - [rotate_words_right i]: result lane [k] is operand lane [(k - i) mod 4]
      (every word moves [i] places towards higher indices; this is the
      direction fixed by crypto-simd's reference back end,
      [shuffle!(self, [3, 0, 1, 2])] for [i = 1], and the one ChaCha's
      diagonalisation relies on). *)
From Coq Require Import NArith List Bool Arith.
From CC Require Import Lib.ListX.
Import ListNotations.
Local Open Scope N_scope.

(** * Scalar lane functions *)
Definition lane_add (w a b : N) : N := (a + b) mod 2 ^ w.
Definition lane_xor (a b : N) : N := N.lxor a b.
Definition lane_and (a b : N) : N := N.land a b.
Definition lane_or (a b : N) : N := N.lor a b.
Definition lane_not (w a : N) : N := 2 ^ w - 1 - a.
Definition lane_andnot (w a b : N) : N := N.land (lane_not w a) b.
Definition lane_rotr (w r x : N) : N := x / 2 ^ r + (x mod 2 ^ r) * 2 ^ (w - r).

(** number with the given bits, least significant first *)
Fixpoint of_bits (l : list bool) : N :=
  match l with
  | [] => 0
  | b :: r => N.b2n b + 2 * of_bits r
  end.
Definition bit_positions (w : N) : list N := map N.of_nat (seq 0 (N.to_nat w)).
(** bit [j] of the result is bit [j xor n] of [x], for [j < w] *)
Definition lane_swap (w n x : N) : N :=
  of_bits (map (fun j => N.testbit x (N.lxor j n)) (bit_positions w)).

(** * Vectors = lists of lanes *)
Definition lanes_map (f : N -> N) (v : list N) : list N := map f v.
Definition lanes_zip (f : N -> N -> N) (a b : list N) : list N := map2 f a b.
Definition lanes_splat (n : nat) (x : N) : list N := repeat x n.
(** result lane [k] = operand lane [(k - i) mod n] *)
Definition words_rotr (i : nat) (v : list N) : list N :=
  let n := length v in
  map (fun k => nth ((k + (n - i mod n)) mod n) v 0) (seq 0 n).
Definition lane_extract (v : list N) (i : nat) : N := nth i v 0.
Definition lane_replace (v : list N) (i : nat) (x : N) : list N := upd i x v.

(** well-formedness: [n] lanes, each below [2^w] *)
Definition lanes_ok (w : N) (n : nat) (v : list N) : bool :=
  Nat.eqb (length v) n && forallb (fun x => x <? 2 ^ w) v.

(** * The public surface of the crate and the meaning of every method

    [a]: lanes of [self] (u32x4x4: its 16 lanes, part 0 first); [b]: lanes of
    the second vector operand, or the contents of the slice argument, or
    (replace) the one-element list holding the new value; [i]: the scalar
    argument (rotation amount, lane index, splat value).  The result is the
    list of lanes of the returned / updated vector, the slice after a store,
    or the one-element list of an extracted word. *)
Inductive ty := U32x4 | U64x4 | U128x1 | U128x2 | U32x4x4.
Inductive op :=
| ONew | ORotr | OLoad | OStore | OXorStore | OSplat | OReplace | OExtract | OIntoInner
| OSwap1 | OSwap2 | OSwap4 | OSwap8 | OSwap16 | OSwap32 | OSwap64
| OAndNot | ONot | OAddAssign | OXorAssign | OAdd | OXor | OOr | OAnd
| ORotWords | OSplatRotr | OIntoParts.

Definition width (t : ty) : N :=
  match t with U32x4 | U32x4x4 => 32 | U64x4 => 64 | U128x1 | U128x2 => 128 end.
Definition nlanes (t : ty) : nat :=
  match t with U32x4 | U64x4 => 4 | U128x1 => 1 | U128x2 => 2 | U32x4x4 => 16 end.

(** which methods / operator impls each type has *)
Definition has_op (t : ty) (o : op) : bool :=
  match t, o with
  | (U32x4 | U64x4), (ONew | ORotr | OLoad | OStore | OSplat | OReplace | OExtract | OAddAssign
                      | OXorAssign | OAdd | OXor | OOr | OAnd | ORotWords | OSplatRotr) => true
  | U128x1, (ONew | ORotr | OLoad | OXorStore | OIntoInner | OSwap1 | OSwap2 | OSwap4 | OSwap8
             | OSwap16 | OSwap32 | OSwap64 | OAndNot | OExtract | OAddAssign | OXorAssign | OXor
             | OAnd | ONot) => true
  | U128x2, (ONew | ORotr | OLoad | OXorStore | OExtract | OAndNot | OAddAssign | OXorAssign
             | OAnd | ONot | OOr) => true
  | U32x4x4, (ONew | OSplat | OIntoParts | OXor | OOr | OAnd | OAdd | OXorAssign | OAddAssign
              | ORotWords | OSplatRotr) => true
  | _, _ => false
  end.

(** rotation of the words inside every group of four lanes *)
Definition words_rotr_groups (i : nat) (v : list N) : list N :=
  map (fun j => nth (4 * (j / 4) + (j mod 4 + (4 - i mod 4)) mod 4)%nat v 0) (seq 0 (length v)).

Definition spec_op (t : ty) (o : op) (a b : list N) (i : N) : list N :=
  let w := width t in
  match o with
  | ONew | OIntoInner | OIntoParts => a
  | ORotr => match t with
             | U32x4 | U64x4 => lanes_zip (fun x r => lane_rotr w (r mod w) x) a b
             | _ => lanes_map (lane_rotr w (i mod w)) a
             end
  | OLoad => b
  | OStore => a
  | OXorStore => lanes_zip lane_xor b a
  | OSplat => match t with U32x4x4 => a ++ a ++ a ++ a | _ => lanes_splat (nlanes t) i end
  | OReplace => lane_replace a (N.to_nat i) (nth 0 b 0)
  | OExtract => [lane_extract a (N.to_nat i)]
  | OSwap1 => lanes_map (lane_swap w 1) a
  | OSwap2 => lanes_map (lane_swap w 2) a
  | OSwap4 => lanes_map (lane_swap w 4) a
  | OSwap8 => lanes_map (lane_swap w 8) a
  | OSwap16 => lanes_map (lane_swap w 16) a
  | OSwap32 => lanes_map (lane_swap w 32) a
  | OSwap64 => lanes_map (lane_swap w 64) a
  | OAndNot => lanes_zip (lane_andnot w) a b
  | ONot => lanes_map (lane_not w) a
  | OAddAssign | OAdd => lanes_zip (lane_add w) a b
  | OXorAssign | OXor => lanes_zip lane_xor a b
  | OOr => lanes_zip lane_or a b
  | OAnd => lanes_zip lane_and a b
  | ORotWords => match t with
                 | U32x4x4 => words_rotr_groups (N.to_nat i) a
                 | _ => words_rotr (N.to_nat i) a
                 end
  | OSplatRotr => lanes_map (lane_rotr w i) a
  end.

(** the operands the property quantifies over: the method exists, every
    vector / slice has exactly the type's lanes with in-range words, scalar
    arguments fit their type, lane indices are below the lane count, word
    rotations are 0..3, splat rotation amounts are 1..bits-1 *)
Definition in_domain (t : ty) (o : op) (a b : list N) (i : N) : bool :=
  let w := width t in
  let n := nlanes t in
  has_op t o &&
  match o with
  | ONew | OIntoInner | OIntoParts | ONot
  | OSwap1 | OSwap2 | OSwap4 | OSwap8 | OSwap16 | OSwap32 | OSwap64 => lanes_ok w n a
  | ORotr => lanes_ok w n a &&
             match t with U32x4 | U64x4 => lanes_ok w n b | _ => i <? 2 ^ w end
  | OLoad => lanes_ok w n b
  | OStore | OXorStore => lanes_ok w n a && lanes_ok w n b
  | OSplat => match t with U32x4x4 => lanes_ok 32 4 a | _ => i <? 2 ^ w end
  | OReplace => lanes_ok w n a && lanes_ok w 1 b && (i <? N.of_nat n)
  | OExtract => lanes_ok w n a && (i <? N.of_nat n)
  | OAndNot | OAddAssign | OXorAssign | OAdd | OXor | OOr | OAnd => lanes_ok w n a && lanes_ok w n b
  | ORotWords => lanes_ok w n a && (i <? 4)
  | OSplatRotr => lanes_ok w n a && (1 <=? i) && (i <? w)
  end.

(** anchors: the definitions mean what the comments say on familiar values *)
Example rotr_anchor : lane_rotr 32 8 0x11223344 = 0x44112233. Proof. reflexivity. Qed.
Example rotr_anchor64 : lane_rotr 64 1 1 = 0x8000000000000000. Proof. reflexivity. Qed.
Example swap1_anchor : lane_swap 8 1 0x01 = 0x02 /\ lane_swap 8 1 0x9 = 0x6. Proof. split; reflexivity. Qed.
Example swap4_anchor : lane_swap 16 4 0x1234 = 0x2143. Proof. reflexivity. Qed.
Example swap8_anchor : lane_swap 32 8 0x11223344 = 0x22114433. Proof. reflexivity. Qed.
Example swap64_anchor :
  lane_swap 128 64 0x00112233445566778899aabbccddeeff = 0x8899aabbccddeeff0011223344556677.
Proof. vm_compute. reflexivity. Qed.
Example words_rotr_anchor : words_rotr 1 [10; 11; 12; 13] = [13; 10; 11; 12]. Proof. reflexivity. Qed.
Example words_rotr_anchor3 : words_rotr 3 [10; 11; 12; 13] = [11; 12; 13; 10]. Proof. reflexivity. Qed.
Example not_anchor : lane_not 32 0x0000ffff = 0xffff0000. Proof. reflexivity. Qed.
Example andnot_anchor : lane_andnot 8 0x0f 0x3c = 0x30. Proof. reflexivity. Qed.
Example words_rotr_groups_anchor :
  words_rotr_groups 1 [0;1;2;3; 4;5;6;7] = [3;0;1;2; 7;4;5;6]. Proof. reflexivity. Qed.
