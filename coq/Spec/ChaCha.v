(** ChaCha as specified by Bernstein ("ChaCha, a variant of Salsa20") and
    RFC 7539 / draft-irtf-cfrg-xchacha: quarter round on indices, double
    round, block function with feed-forward, the three state layouts, HChaCha,
    little-endian serialisation, key stream as a function of the absolute
    byte position. Parametric in the word operations ([Spec32] instantiates). *)
From Coq Require Import NArith List Lia Arith.
From CC Require Import Lib.Words Lib.Bytes Lib.ListX.
Import ListNotations.

Section Spec.
  Variables (add xor : N -> N -> N) (rotl : N -> N -> N).

  Definition qr (a b c d : N) : N * N * N * N :=
    let a := add a b in let d := rotl 16 (xor d a) in
    let c := add c d in let b := rotl 12 (xor b c) in
    let a := add a b in let d := rotl 8 (xor d a) in
    let c := add c d in let b := rotl 7 (xor b c) in
    (a, b, c, d).

  Definition qr_at (i j k l : nat) (s : list N) : list N :=
    let '(a, b, c, d) := qr (nth i s 0%N) (nth j s 0%N) (nth k s 0%N) (nth l s 0%N) in
    upd l d (upd k c (upd j b (upd i a s))).

  Definition double_round (s : list N) : list N :=
    let s := qr_at 0 4 8 12 s in
    let s := qr_at 1 5 9 13 s in
    let s := qr_at 2 6 10 14 s in
    let s := qr_at 3 7 11 15 s in
    let s := qr_at 0 5 10 15 s in
    let s := qr_at 1 6 11 12 s in
    let s := qr_at 2 7 8 13 s in
    qr_at 3 4 9 14 s.

  Fixpoint iter {A} (n : nat) (f : A -> A) (x : A) : A :=
    match n with O => x | S k => iter k f (f x) end.

  (** [drounds] double rounds, then add the input words *)
  Definition block_words (drounds : nat) (init : list N) : list N :=
    map2 add (iter drounds double_round init) init.

  (** HChaCha: words 0..3 and 12..15 after the rounds, no feed-forward *)
  Definition hchacha_words (drounds : nat) (init : list N) : list N :=
    let s := iter drounds double_round init in firstn 4 s ++ skipn 12 s.
End Spec.

Local Open Scope N_scope.
Definition add32 := addw 32.
Definition rotl32 := rotlw 32.
Definition sigma : list N := [0x61707865; 0x3320646e; 0x79622d32; 0x6b206574].

Inductive layout := Djb | Ietf | XDjb.

(** initial 16-word state for block counter [ctr]; [key] 8 words, [nonce] 2 (Djb) or 3 (Ietf) words *)
Definition init_state (l : layout) (key nonce : list N) (ctr : N) : list N :=
  match l with
  | Ietf => sigma ++ key ++ [wrap 32 ctr] ++ nonce
  | _ => sigma ++ key ++ [wrap 32 ctr; wrap 32 (N.shiftr ctr 32)] ++ nonce
  end.

Definition spec_block_words (drounds : nat) (init : list N) : list N :=
  block_words add32 N.lxor rotl32 drounds init.

Definition spec_hchacha (drounds : nat) (key nonce16 : list N) : list N :=
  hchacha_words add32 N.lxor rotl32 drounds (sigma ++ words_le 4 key ++ words_le 4 nonce16).

(** key and nonce as bytes; for XDjb the 24-byte nonce is split 16 + 8 *)
Definition key_nonce_words (l : layout) (drounds : nat) (key nonce : list N) : list N * list N :=
  match l with
  | XDjb => (spec_hchacha drounds key (firstn 16 nonce), words_le 4 (skipn 16 nonce))
  | _ => (words_le 4 key, words_le 4 nonce)
  end.

(** the 64-byte key-stream block number [ctr] *)
Definition spec_block (l : layout) (drounds : nat) (key nonce : list N) (ctr : N) : list N :=
  let '(kw, nw) := key_nonce_words l drounds key nonce in
  bytes_le 4 (spec_block_words drounds (init_state l kw nw ctr)).

(** number of blocks the layout offers *)
Definition blocks_of (l : layout) : N := match l with Ietf => 2 ^ 32 | _ => 2 ^ 64 end.

(** key-stream bytes [pos, pos + n) *)
Fixpoint spec_keystream_from (l : layout) (drounds : nat) (key nonce : list N)
         (blk : N) (off : nat) (n : nat) (fuel : nat) : list N :=
  match fuel with
  | O => []
  | S f =>
      let b := skipn off (spec_block l drounds key nonce blk) in
      if Nat.leb n (length b) then firstn n b
      else b ++ spec_keystream_from l drounds key nonce (blk + 1) 0 (n - length b) f
  end.

Definition spec_keystream (l : layout) (drounds : nat) (key nonce : list N) (pos : N) (n : nat) : list N :=
  spec_keystream_from l drounds key nonce (pos / 64) (N.to_nat (pos mod 64)) n (S (n / 64 + 1)).

Definition spec_apply (l : layout) (drounds : nat) (key nonce : list N) (pos : N) (data : list N) : list N :=
  xor_bytes data (spec_keystream l drounds key nonce pos (length data)).
