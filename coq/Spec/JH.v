(** The JH hash function (SHA-3 finalist, round-3 version, 42 rounds), written
    from the published definition (Hongjun Wu, "The Hash Function JH", 16 Jan
    2011), nibble-oriented and index-oriented, independent of the code under
    verification.  Section numbers refer to that document. *)
From Coq Require Import NArith List Arith Bool.
From CC Require Import Lib.Words Lib.Bytes Lib.ListX.
Import ListNotations.

(** * 2.1 S-boxes *)
Definition S0 : list N := [9;0;4;11;13;12;3;15;1;10;2;6;7;5;8;14]%N.
Definition S1 : list N := [3;12;6;13;5;7;1;9;15;2;0;4;11;10;14;8]%N.
Definition sbox (c : bool) (x : N) : N := nth (N.to_nat x) (if c then S1 else S0) 0%N.

(** * 2.2 Linear transformation L: (C,D) = (5.A + 2.B, 2.A + B) over GF(2^4)
    modulo x^4 + x + 1, in the document's form  D = B + 2.A ; C = A + 2.D *)
Definition mul2 (a : N) : N :=
  let d := N.shiftl a 1 in if N.testbit d 4 then N.lxor d 0x13 else d.
Definition L (a b : N) : N * N :=
  let d := N.lxor b (mul2 a) in
  let c := N.lxor a (mul2 d) in (c, d).

(** * 2.3 Permutation P_d = phi_d o P'_d o pi_d on 2^d elements.

    Executable form (structural, linear time):
    - pi_d  swaps the 3rd and 4th element of every group of four;
    - P'_d  lists the even-indexed elements, then the odd-indexed ones;
    - phi_d swaps the two elements of every pair in the second half.
    The document gives each by the source index of every output element
    ([B_i = A_(src i)]); [P_index] below shows the two forms agree. *)
Fixpoint pi (a : list N) : list N :=
  match a with
  | a0 :: a1 :: a2 :: a3 :: r => a0 :: a1 :: a3 :: a2 :: pi r
  | _ => a
  end.
Fixpoint evens (a : list N) : list N :=
  match a with x :: _ :: r => x :: evens r | _ => a end.
Fixpoint odds (a : list N) : list N :=
  match a with _ :: y :: r => y :: odds r | _ => [] end.
Definition pprime (a : list N) : list N := evens a ++ odds a.
Fixpoint swap_pairs (a : list N) : list N :=
  match a with x :: y :: r => y :: x :: swap_pairs r | _ => a end.
Definition phi (a : list N) : list N :=
  let h := Nat.div2 (length a) in firstn h a ++ swap_pairs (skipn h a).
Definition P (a : list N) : list N := phi (pprime (pi a)).

(** the document's index form *)
Definition permute (n : nat) (src : nat -> nat) (a : list N) : list N :=
  map (fun i => nth (src i) a 0%N) (seq 0 n).
(** pi_d: b(4i) = a(4i), b(4i+1) = a(4i+1), b(4i+2) = a(4i+3), b(4i+3) = a(4i+2) *)
Definition pi_src (i : nat) : nat :=
  match i mod 4 with 2 => i + 1 | 3 => i - 1 | _ => i end.
(** P'_d: b(i) = a(2i), b(i + 2^(d-1)) = a(2i+1) *)
Definition pprime_src (d i : nat) : nat :=
  let h := 2 ^ (d - 1) in if i <? h then 2 * i else 2 * (i - h) + 1.
(** phi_d: b(i) = a(i) for i < 2^(d-1); the pairs (2i, 2i+1) of the second half are swapped *)
Definition phi_src (d i : nat) : nat :=
  let h := 2 ^ (d - 1) in
  if i <? h then i else if Nat.even i then i + 1 else i - 1.
Definition P_src (d i : nat) : nat := pi_src (pprime_src d (phi_src d i)).
Definition P_index (d : nat) (a : list N) : list N :=
  let n := 2 ^ d in
  permute n (phi_src d) (permute n (pprime_src d) (permute n pi_src a)).

(** the executable permutation is the document's, for the two sizes in use
    (d = 8 in E_8, d = 6 for the round constants) *)
Lemma P_index8 a : length a = 256 -> P a = P_index 8 a.
Proof. intros H. explode a. vm_compute. reflexivity. Qed.
Lemma P_index6 a : length a = 64 -> P a = P_index 6 a.
Proof. intros H. explode a. vm_compute. reflexivity. Qed.
(** ... and in one step: [P a] has element [P_src 8 i] of [a] at index [i] *)
Lemma P_src8 a : length a = 256 -> P a = permute 256 (P_src 8) a.
Proof. intros H. explode a. vm_compute. reflexivity. Qed.

(** * 2.4 Round function R_d: S-box layer selected by the round-constant bits,
    L on consecutive pairs, then P_d *)
Fixpoint sl_layer (a : list N) (c : list bool) : list N :=
  match a, c with
  | x :: y :: a', cx :: cy :: c' =>
      let '(u, v) := L (sbox cx x) (sbox cy y) in u :: v :: sl_layer a' c'
  | _, _ => []
  end.
Definition R (a : list N) (c : list bool) : list N := P (sl_layer a c).

(** * 2.6 Round constants of E_8: C_0 is the integer part of (sqrt 2 - 1) * 2^256,
    C_r = R_6(C_(r-1)) with all-zero round constant and without grouping; the
    256-bit constant is 64 four-bit elements, most significant first. *)
Definition C0 : N := 0x6a09e667f3bcc908b2fb1366ea957d3e3adec17512775099da2f590b0667322a.

Definition nibbles_of (n : nat) (x : N) : list N :=
  map (fun i => N.land (N.shiftr x (4 * N.of_nat (n - 1 - i))) 15) (seq 0 n).
Definition bits_of_nibbles (c : list N) : list bool :=
  flat_map (fun x => [N.testbit x 3; N.testbit x 2; N.testbit x 1; N.testbit x 0]) c.

Definition next_const (c : list N) : list N := R c (repeat false 64).
Fixpoint consts_from (n : nat) (c : list N) : list (list N) :=
  match n with O => [] | S k => c :: consts_from k (next_const c) end.
Definition gen_round_consts : list (list bool) :=
  map bits_of_nibbles (consts_from 42 (nibbles_of 64 C0)).
(** the generated table, evaluated once ([round_consts_generated] below) *)
Definition round_consts : list (list bool) := Eval vm_compute in gen_round_consts.
Lemma round_consts_generated : round_consts = gen_round_consts.
Proof. vm_compute. reflexivity. Qed.

(** * 2.5 Grouping / de-grouping for E_8.  The 1024-bit input is a byte string,
    bit 0 being the most significant bit of the first byte. *)
Definition bit (bs : list N) (i : N) : bool :=
  N.testbit (nth (N.to_nat (i / 8)) bs 0%N) (7 - i mod 8).
Definition nib (b3 b2 b1 b0 : bool) : N :=
  (8 * N.b2n b3 + 4 * N.b2n b2 + 2 * N.b2n b1 + N.b2n b0)%N.

(** q(2i) = A^i A^(i+256) A^(i+512) A^(i+768);  q(2i+1) = the same at i+128 *)
Definition group (h : list N) : list N :=
  map (fun e => let i := (N.of_nat (Nat.div2 e) + (if Nat.even e then 0 else 128))%N in
                nib (bit h i) (bit h (i + 256)) (bit h (i + 512)) (bit h (i + 768)))
      (seq 0 256).

(** bit t of the de-grouped output, t = 256k + m: bit k (from the left) of
    q(2m) if m < 128, of q(2(m-128)+1) otherwise *)
Definition degroup_bit (q : list N) (t : N) : bool :=
  let k := (t / 256)%N in let m := (t mod 256)%N in
  let e := if (m <? 128)%N then (2 * m)%N else (2 * (m - 128) + 1)%N in
  N.testbit (nth (N.to_nat e) q 0%N) (3 - k).
Definition byte_of (f : N -> bool) (n : N) : N :=
  let b (k : N) : N := N.b2n (f (8 * n + k)%N) in
  (128 * b 0 + 64 * b 1 + 32 * b 2 + 16 * b 3 + 8 * b 4 + 4 * b 5 + 2 * b 6 + b 7)%N.
Definition degroup (q : list N) : list N :=
  map (fun n => byte_of (degroup_bit q) (N.of_nat n)) (seq 0 128).

(** * 2.6 E_8: grouping, 42 rounds, de-grouping *)
Definition rounds8 (q : list N) : list N := fold_left R round_consts q.
Definition E8 (a : list N) : list N := degroup (rounds8 (group a)).

(** * 3 Compression function F_8: the 64-byte block is xored into the first
    half of H before E_8 and into the second half after *)
Definition F8 (h m : list N) : list N :=
  let a := xor_bytes (firstn 64 h) m ++ skipn 64 h in
  let b := E8 a in
  firstn 64 b ++ xor_bytes (skipn 64 b) m.

(** * 4 The hash: padding, initial value, final truncation *)
(** message, bit 1, 384 - 1 + (-l mod 512) zero bits, 128-bit big-endian bit length *)
Definition pad (msg : list N) : list N :=
  let len := length msg in
  msg ++ [0x80%N] ++ repeat 0%N (47 + (64 - len mod 64) mod 64)
      ++ be_split 16 (8 * N.of_nat len).

(** H(-1): the digest size in bits as a 16-bit big-endian number, then zeros;
    H(0) = F8(H(-1), 0) *)
Definition hm1 (size : N) : list N := be_split 2 size ++ repeat 0%N 126.
Definition iv (size : N) : list N := F8 (hm1 size) (repeat 0%N 64).

Definition blocks_of (p : list N) : list (list N) := chunks_exact 64 (length p) p.

(** JH-size(msg), size in {224,256,384,512}: the last [size] bits of H(N) *)
Definition jh_from (size : N) (h0 : list N) (msg : list N) : list N :=
  let h := fold_left F8 (blocks_of (pad msg)) h0 in
  skipn (128 - N.to_nat size / 8) h.
Definition jh (size : N) (msg : list N) : list N := jh_from size (iv size) msg.

(** Continuation form used when hashing resumes from a chaining value reached
    after a whole number of blocks: [data] is the not yet compressed rest of a
    message of [total] bytes.  [pad msg = pad_tail (length msg) msg]
    (Proofs/JHPad.v: [pad_eq_pad_tail]). *)
Definition pad_tail (total : N) (data : list N) : list N :=
  data ++ [0x80%N] ++ repeat 0%N (47 + N.to_nat ((64 - total mod 64) mod 64))
       ++ be_split 16 (8 * total).
Definition jh_tail (size : N) (h : list N) (total : N) (data : list N) : list N :=
  let h' := fold_left F8 (blocks_of (pad_tail total data)) h in
  skipn (128 - N.to_nat size / 8) h'.
