(** The SHA-3 finalist BLAKE (Aumasson, Henzen, Meier, Phan: "SHA-3 proposal
    BLAKE", version 1.3), unsalted, for messages that are byte strings.

    Written index by index from the submission document, independently of
    the code under verification:
      - section 2.1.1 constants (the leading digits of pi), permutations sigma,
      - section 2.1.2 compression function: initialisation, rounds made of
        G_0..G_3 on columns and G_4..G_7 on diagonals, finalisation,
      - section 2.1.3 padding and counter, iterated hash,
      - section 2.2-2.4 the 64-bit variant and the truncated variants.

    The compression function is parametric in the word operations so that
    structural theorems do not depend on 32/64-bit arithmetic. *)
From Coq Require Import NArith List Lia Arith.
From CC Require Import Lib.Words Lib.Bytes Lib.ListX.
Import ListNotations.

(** sigma_0 .. sigma_9; round r uses sigma_(r mod 10) *)
Definition SIGMA : list (list nat) :=
  [[ 0; 1; 2; 3; 4; 5; 6; 7; 8; 9;10;11;12;13;14;15];
   [14;10; 4; 8; 9;15;13; 6; 1;12; 0; 2;11; 7; 5; 3];
   [11; 8;12; 0; 5; 2;15;13;10;14; 3; 6; 7; 1; 9; 4];
   [ 7; 9; 3; 1;13;12;11;14; 2; 6; 5;10; 4; 0;15; 8];
   [ 9; 0; 5; 7; 2; 4;10;15;14; 1;11;12; 6; 8; 3;13];
   [ 2;12; 6;10; 0;11; 8; 3; 4;13; 7; 5;15;14; 1; 9];
   [12; 5; 1;15;14;13; 4;10; 0; 7; 6; 3; 9; 2; 8;11];
   [13;11; 7;14;12; 1; 3; 9; 5; 0;15; 4; 8; 6; 2;10];
   [ 6;15;14; 9;11; 3; 0; 8;12; 2;13; 7; 1; 4;10; 5];
   [10; 2; 8; 4; 7; 6; 1; 5;15;11; 9;14; 3;12;13; 0]]%nat.

Definition sigma (r i : nat) : nat := nth i (nth (r mod 10) SIGMA []) 0%nat.

(** the state positions G_0 .. G_7 work on: columns, then diagonals *)
Definition G_INDEX : list (nat * nat * nat * nat) :=
  [(0, 4, 8, 12); (1, 5, 9, 13); (2, 6, 10, 14); (3, 7, 11, 15);
   (0, 5, 10, 15); (1, 6, 11, 12); (2, 7, 8, 13); (3, 4, 9, 14)]%nat.

Section Core.
  Variables (add xor : N -> N -> N).
  (** the four rotations to the right of G: 16,12,8,7 resp. 32,25,16,11 *)
  Variables (rot1 rot2 rot3 rot4 : N -> N).
  Variable cst : list N.          (* c_0 .. c_15 *)
  Variable nrounds : nat.

  (** G on four words with the two message/constant inputs
      x = m[sigma_r(2i)] xor c[sigma_r(2i+1)], y = m[sigma_r(2i+1)] xor c[sigma_r(2i)] *)
  Definition G (a b c d x y : N) : N * N * N * N :=
    let a := add (add a b) x in
    let d := rot1 (xor d a) in
    let c := add c d in
    let b := rot2 (xor b c) in
    let a := add (add a b) y in
    let d := rot3 (xor d a) in
    let c := add c d in
    let b := rot4 (xor b c) in
    (a, b, c, d).

  (** G_i of round r applied to the 16-word state v *)
  Definition apply_G (m : list N) (r i : nat) (v : list N) : list N :=
    let '(ia, ib, ic, id) := nth i G_INDEX (0, 0, 0, 0)%nat in
    let x := xor (nth (sigma r (2 * i)) m 0%N) (nth (sigma r (2 * i + 1)) cst 0%N) in
    let y := xor (nth (sigma r (2 * i + 1)) m 0%N) (nth (sigma r (2 * i)) cst 0%N) in
    let '(a, b, c, d) := G (nth ia v 0%N) (nth ib v 0%N) (nth ic v 0%N) (nth id v 0%N) x y in
    upd id d (upd ic c (upd ib b (upd ia a v))).

  Definition round (m : list N) (v : list N) (r : nat) : list N :=
    fold_left (fun v i => apply_G m r i v) (seq 0 8) v.

  (** initialisation with salt 0: v0..7 = h, v8..11 = c0..3,
      v12 = t0 xor c4, v13 = t0 xor c5, v14 = t1 xor c6, v15 = t1 xor c7 *)
  Definition init (h : list N) (t0 t1 : N) : list N :=
    h ++ [nth 0 cst 0%N; nth 1 cst 0%N; nth 2 cst 0%N; nth 3 cst 0%N;
          xor t0 (nth 4 cst 0%N); xor t0 (nth 5 cst 0%N);
          xor t1 (nth 6 cst 0%N); xor t1 (nth 7 cst 0%N)].

  (** finalisation with salt 0: h'_i = h_i xor v_i xor v_(i+8) *)
  Definition compress (h m : list N) (t0 t1 : N) : list N :=
    let v := fold_left (round m) (seq 0 nrounds) (init h t0 t1) in
    map (fun i => xor (xor (nth i h 0%N) (nth i v 0%N)) (nth (i + 8) v 0%N)) (seq 0 8).
End Core.

Local Open Scope N_scope.

(** the first 32 32-bit words of the fractional part of pi; BLAKE-224/256 use
    the first 16 as c_0..c_15, BLAKE-384/512 pair them into 16 64-bit words *)
Definition PI32 : list N :=
  [0x243F6A88; 0x85A308D3; 0x13198A2E; 0x03707344; 0xA4093822; 0x299F31D0; 0x082EFA98; 0xEC4E6C89;
   0x452821E6; 0x38D01377; 0xBE5466CF; 0x34E90C6C; 0xC0AC29B7; 0xC97C50DD; 0x3F84D5B5; 0xB5470917;
   0x9216D5D9; 0x8979FB1B; 0xD1310BA6; 0x98DFB5AC; 0x2FFD72DB; 0xD01ADFB7; 0xB8E1AFED; 0x6A267E96;
   0xBA7C9045; 0xF12C7F99; 0x24A19947; 0xB3916CF7; 0x0801F2E2; 0x858EFC16; 0x636920D8; 0x71574E69].

Definition C256 : list N := firstn 16 PI32.
Definition C512 : list N :=
  map (fun i => nth (2 * i) PI32 0 * 2 ^ 32 + nth (2 * i + 1) PI32 0) (seq 0 16).

(** initial values: those of SHA-224/256/384/512 *)
Definition IV256 : list N :=
  [0x6A09E667; 0xBB67AE85; 0x3C6EF372; 0xA54FF53A; 0x510E527F; 0x9B05688C; 0x1F83D9AB; 0x5BE0CD19].
Definition IV224 : list N :=
  [0xC1059ED8; 0x367CD507; 0x3070DD17; 0xF70E5939; 0xFFC00B31; 0x68581511; 0x64F98FA7; 0xBEFA4FA4].
Definition IV512 : list N :=
  [0x6A09E667F3BCC908; 0xBB67AE8584CAA73B; 0x3C6EF372FE94F82B; 0xA54FF53A5F1D36F1;
   0x510E527FADE682D1; 0x9B05688C2B3E6C1F; 0x1F83D9ABFB41BD6B; 0x5BE0CD19137E2179].
Definition IV384 : list N :=
  [0xCBBB9D5DC1059ED8; 0x629A292A367CD507; 0x9159015A3070DD17; 0x152FECD8F70E5939;
   0x67332667FFC00B31; 0x8EB44A8768581511; 0xDB0C2E0D64F98FA7; 0x47B5481DBEFA4FA4].

(** a member of the family *)
Record variant := {
  wbits : N;             (* word size in bits: 32 / 64 *)
  wbytes : nat;          (* word size in bytes: 4 / 8 *)
  nrounds_of : nat;      (* 14 / 16 *)
  consts : list N;
  rots : N * N * N * N;
  iv : list N;
  marker : N;            (* the bit before the length: 1 for 256/512, 0 for 224/384 *)
  outbytes : nat }.

Definition blake256 := {| wbits := 32; wbytes := 4; nrounds_of := 14; consts := C256;
  rots := (16, 12, 8, 7); iv := IV256; marker := 1; outbytes := 32 |}.
Definition blake224 := {| wbits := 32; wbytes := 4; nrounds_of := 14; consts := C256;
  rots := (16, 12, 8, 7); iv := IV224; marker := 0; outbytes := 28 |}.
Definition blake512 := {| wbits := 64; wbytes := 8; nrounds_of := 16; consts := C512;
  rots := (32, 25, 16, 11); iv := IV512; marker := 1; outbytes := 64 |}.
Definition blake384 := {| wbits := 64; wbytes := 8; nrounds_of := 16; consts := C512;
  rots := (32, 25, 16, 11); iv := IV384; marker := 0; outbytes := 48 |}.

Definition block_bytes (v : variant) : nat := (16 * wbytes v)%nat.
Definition len_bytes (v : variant) : nat := (2 * wbytes v)%nat.

Definition compress_v (v : variant) (h m : list N) (t0 t1 : N) : list N :=
  let '(r1, r2, r3, r4) := rots v in
  let w := wbits v in
  compress (addw w) N.lxor (rotrw w r1) (rotrw w r2) (rotrw w r3) (rotrw w r4)
           (consts v) (nrounds_of v) h m t0 t1.

(** * Padding (section 2.1.3)

    bit 1, then the smallest number of 0 bits, then the marker bit, then the
    message bit length as a 64-bit (128-bit) big-endian number, such that the
    total is a multiple of the block size. For a message of whole bytes the
    bits "1 0* marker" occupy p >= 1 whole bytes: the first carries 0x80, the
    last carries the marker in its lowest bit (one byte 0x81/0x80 if p = 1).
    Lengths are [N] so that the definitions also apply to messages that are
    too long to write down (see [schedule_from]). *)
Definition block_N (v : variant) : N := N.of_nat (block_bytes v).

Definition pad_count (v : variant) (len : N) : nat :=
  N.to_nat (block_N v - (len + N.of_nat (len_bytes v)) mod block_N v).

Definition pad_byte (v : variant) (p i : nat) : N :=
  (if Nat.eqb i 0 then 0x80 else 0) + (if Nat.eqb i (p - 1) then marker v else 0).

(** padding and length field for a message of [len] bytes *)
Definition pad_bytes (v : variant) (len : N) : list N :=
  let p := pad_count v len in
  map (pad_byte v p) (seq 0 p) ++ be_split (len_bytes v) (8 * len).

(** block i of the padded message, as 16 big-endian words *)
Definition block_i (v : variant) (data : list N) (i : nat) : list N :=
  firstn (block_bytes v) (skipn (block_bytes v * i) data).
Definition word_j (v : variant) (blk : list N) (j : nat) : N :=
  be_join (firstn (wbytes v) (skipn (wbytes v * j) blk)).
Definition block_words (v : variant) (blk : list N) : list N :=
  map (word_j v blk) (seq 0 16).

(** counter of block i of a message of [len] bytes: the number of message
    bits in blocks 0..i, and 0 when block i contains no message bit *)
Definition counter (v : variant) (len : N) (i : N) : N :=
  if block_N v * i <? len
  then N.min (8 * len) (8 * (block_N v * (i + 1)))
  else 0.

Definition t_lo (v : variant) (t : N) : N := t mod 2 ^ wbits v.
Definition t_hi (v : variant) (t : N) : N := (t / 2 ^ wbits v) mod 2 ^ wbits v.

(** the (block, counter) sequence that enters the compression function from
    block [k] on, for a message whose first [k] blocks are not written down
    and whose remaining bytes are [rest] *)
Definition schedule_from (v : variant) (k : N) (rest : list N) : list (list N * N) :=
  let len := k * block_N v + N.of_nat (length rest) in
  let data := rest ++ pad_bytes v len in
  map (fun i => (block_i v data i, counter v len (k + N.of_nat i)))
      (seq 0 (length data / block_bytes v)).

Definition schedule (v : variant) (msg : list N) : list (list N * N) := schedule_from v 0 msg.

Definition chain (v : variant) (h : list N) (bt : list N * N) : list N :=
  compress_v v h (block_words v (fst bt)) (t_lo v (snd bt)) (t_hi v (snd bt)).

Definition hash_state (v : variant) (msg : list N) : list N :=
  fold_left (chain v) (schedule v msg) (iv v).

(** the digest: the chaining value as big-endian words, truncated *)
Definition output (v : variant) (h : list N) : list N :=
  firstn (outbytes v) (flat_map (be_split (wbytes v)) h).
Definition hash (v : variant) (msg : list N) : list N := output v (hash_state v msg).

(** continuation from chaining value [h] after [k] blocks *)
Definition hash_from (v : variant) (h : list N) (k : N) (rest : list N) : list N :=
  output v (fold_left (chain v) (schedule_from v k rest) h).
