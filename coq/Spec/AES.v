(** GF(2^8) arithmetic (polynomial x^8+x^4+x^3+x+1 = 0x11b) and the AES S-box.

    The S-box is DEFINED as multiplicative inversion followed by the affine
    map of FIPS-197 5.1.1 ([sbox]); the familiar 256-entry table and the
    balanced-tree lookup used by the executable models are proved equal to it
    by a finite sweep.  All functions are total on [N]: [sbox] and [xtime]
    look only at the low eight bits of their argument. *)
From Coq Require Import NArith List Lia Bool FMapPositive.
From CC Require Import Lib.Words Lib.Bytes.
Import ListNotations.
Local Open Scope N_scope.

(** multiplication by x: shift left, reduce by 0x11b when bit 7 was set *)
Definition xtime (a : N) : N :=
  N.lxor (N.land (N.shiftl a 1) 255) (if N.testbit a 7 then 0x1b else 0).

(** product c*a in GF(2^8): shift-and-add over the bits of [c] *)
Fixpoint gf_mul_pos (c : positive) (a : N) : N :=
  match c with
  | xH => a
  | xO c' => gf_mul_pos c' (xtime a)
  | xI c' => N.lxor a (gf_mul_pos c' (xtime a))
  end.
Definition gf_mul (c a : N) : N :=
  match c with 0 => 0 | Npos p => gf_mul_pos p a end.

Definition gf_sq (a : N) : N := gf_mul a a.
(** a^254 = a^-1 for a <> 0, and 0 for a = 0 *)
Definition gf_inv (a : N) : N :=
  let a2 := gf_sq a in let a4 := gf_sq a2 in let a8 := gf_sq a4 in
  let a16 := gf_sq a8 in let a32 := gf_sq a16 in let a64 := gf_sq a32 in
  let a128 := gf_sq a64 in
  gf_mul a128 (gf_mul a64 (gf_mul a32 (gf_mul a16 (gf_mul a8 (gf_mul a4 a2))))).

Definition rotl8 (r a : N) : N := rotlw 8 r a.
(** b'_i = b_i + b_(i+4) + b_(i+5) + b_(i+6) + b_(i+7) + c_i, c = 0x63 *)
Definition affine (b : N) : N :=
  N.lxor (N.lxor (N.lxor (N.lxor (N.lxor b (rotl8 1 b)) (rotl8 2 b)) (rotl8 3 b)) (rotl8 4 b)) 0x63.

Definition sbox (a : N) : N := affine (gf_inv (N.land a 255)).

Definition sbox_table : list N := [
  0x63; 0x7c; 0x77; 0x7b; 0xf2; 0x6b; 0x6f; 0xc5; 0x30; 0x01; 0x67; 0x2b; 0xfe; 0xd7; 0xab; 0x76;
  0xca; 0x82; 0xc9; 0x7d; 0xfa; 0x59; 0x47; 0xf0; 0xad; 0xd4; 0xa2; 0xaf; 0x9c; 0xa4; 0x72; 0xc0;
  0xb7; 0xfd; 0x93; 0x26; 0x36; 0x3f; 0xf7; 0xcc; 0x34; 0xa5; 0xe5; 0xf1; 0x71; 0xd8; 0x31; 0x15;
  0x04; 0xc7; 0x23; 0xc3; 0x18; 0x96; 0x05; 0x9a; 0x07; 0x12; 0x80; 0xe2; 0xeb; 0x27; 0xb2; 0x75;
  0x09; 0x83; 0x2c; 0x1a; 0x1b; 0x6e; 0x5a; 0xa0; 0x52; 0x3b; 0xd6; 0xb3; 0x29; 0xe3; 0x2f; 0x84;
  0x53; 0xd1; 0x00; 0xed; 0x20; 0xfc; 0xb1; 0x5b; 0x6a; 0xcb; 0xbe; 0x39; 0x4a; 0x4c; 0x58; 0xcf;
  0xd0; 0xef; 0xaa; 0xfb; 0x43; 0x4d; 0x33; 0x85; 0x45; 0xf9; 0x02; 0x7f; 0x50; 0x3c; 0x9f; 0xa8;
  0x51; 0xa3; 0x40; 0x8f; 0x92; 0x9d; 0x38; 0xf5; 0xbc; 0xb6; 0xda; 0x21; 0x10; 0xff; 0xf3; 0xd2;
  0xcd; 0x0c; 0x13; 0xec; 0x5f; 0x97; 0x44; 0x17; 0xc4; 0xa7; 0x7e; 0x3d; 0x64; 0x5d; 0x19; 0x73;
  0x60; 0x81; 0x4f; 0xdc; 0x22; 0x2a; 0x90; 0x88; 0x46; 0xee; 0xb8; 0x14; 0xde; 0x5e; 0x0b; 0xdb;
  0xe0; 0x32; 0x3a; 0x0a; 0x49; 0x06; 0x24; 0x5c; 0xc2; 0xd3; 0xac; 0x62; 0x91; 0x95; 0xe4; 0x79;
  0xe7; 0xc8; 0x37; 0x6d; 0x8d; 0xd5; 0x4e; 0xa9; 0x6c; 0x56; 0xf4; 0xea; 0x65; 0x7a; 0xae; 0x08;
  0xba; 0x78; 0x25; 0x2e; 0x1c; 0xa6; 0xb4; 0xc6; 0xe8; 0xdd; 0x74; 0x1f; 0x4b; 0xbd; 0x8b; 0x8a;
  0x70; 0x3e; 0xb5; 0x66; 0x48; 0x03; 0xf6; 0x0e; 0x61; 0x35; 0x57; 0xb9; 0x86; 0xc1; 0x1d; 0x9e;
  0xe1; 0xf8; 0x98; 0x11; 0x69; 0xd9; 0x8e; 0x94; 0x9b; 0x1e; 0x87; 0xe9; 0xce; 0x55; 0x28; 0xdf;
  0x8c; 0xa1; 0x89; 0x0d; 0xbf; 0xe6; 0x42; 0x68; 0x41; 0x99; 0x2d; 0x0f; 0xb0; 0x54; 0xbb; 0x16
].

(** balanced lookup structure for evaluation *)
Definition sbox_map : PositiveMap.t N :=
  Eval vm_compute in
    fold_left (fun m i => PositiveMap.add (N.succ_pos (N.of_nat i)) (nth i sbox_table 0) m)
              (seq 0 256) (PositiveMap.empty N).
Definition sbox_fast (a : N) : N :=
  match PositiveMap.find (N.succ_pos (N.land a 255)) sbox_map with Some v => v | None => 0 end.

Definition bytes256 : list N := map N.of_nat (seq 0 256).

Lemma in_bytes256 x : x < 256 -> In x bytes256.
Proof.
  intros H. unfold bytes256. apply in_map_iff. exists (N.to_nat x). split; [lia|].
  apply in_seq. lia.
Qed.

Lemma byte_sweep (P : N -> bool) :
  forallb P bytes256 = true -> forall x, x < 256 -> P x = true.
Proof. intros H x Hx. rewrite forallb_forall in H. apply H, in_bytes256, Hx. Qed.

Lemma land255_lt x : N.land x 255 < 256.
Proof. rewrite land_255. apply N.mod_lt. discriminate. Qed.

(** gf_inv really is the inverse *)
Lemma gf_inv_correct x : 0 < x -> x < 256 -> gf_mul x (gf_inv x) = 1.
Proof.
  intros H0 Hx.
  assert (Hs : forallb (fun x => (x =? 0) || (gf_mul x (gf_inv x) =? 1)) bytes256 = true) by (vm_compute; reflexivity).
  pose proof (byte_sweep _ Hs x Hx) as H; cbv beta in H; clear Hs.
  cbv beta in H. apply orb_true_iff in H. destruct H as [H|H].
  - apply N.eqb_eq in H. lia.
  - now apply N.eqb_eq.
Qed.

(** the table is the definition *)
Lemma sbox_table_correct x : x < 256 -> nth (N.to_nat x) sbox_table 0 = sbox x.
Proof.
  intros Hx.
  assert (Hs : forallb (fun x => nth (N.to_nat x) sbox_table 0 =? sbox x) bytes256 = true) by (vm_compute; reflexivity).
  pose proof (byte_sweep _ Hs x Hx) as H; cbv beta in H; clear Hs.
  now apply N.eqb_eq.
Qed.

Lemma sbox_fast_byte x : x < 256 -> sbox_fast x = sbox x.
Proof.
  intros Hx.
  assert (Hs : forallb (fun x => sbox_fast x =? sbox x) bytes256 = true) by (vm_compute; reflexivity).
  pose proof (byte_sweep _ Hs x Hx) as H; cbv beta in H; clear Hs.
  now apply N.eqb_eq.
Qed.

Lemma land255_idem x : N.land (N.land x 255) 255 = N.land x 255.
Proof. rewrite <- N.land_assoc. reflexivity. Qed.

(** the fast lookup equals the definition on all of [N] *)
Lemma sbox_fast_correct x : sbox_fast x = sbox x.
Proof.
  assert (E1 : sbox_fast x = sbox_fast (N.land x 255))
    by (unfold sbox_fast; now rewrite land255_idem).
  assert (E2 : sbox x = sbox (N.land x 255))
    by (unfold sbox; now rewrite land255_idem).
  rewrite E1, E2. apply sbox_fast_byte, land255_lt.
Qed.

Lemma sbox_fast_table x : x < 256 -> sbox_fast x = nth (N.to_nat x) sbox_table 0.
Proof. intros Hx. now rewrite sbox_fast_byte, sbox_table_correct. Qed.

Lemma sbox_lt x : sbox x < 256.
Proof.
  assert (E2 : sbox x = sbox (N.land x 255))
    by (unfold sbox; now rewrite land255_idem).
  rewrite E2.
  assert (Hs : forallb (fun x => sbox x <? 256) bytes256 = true) by (vm_compute; reflexivity).
  pose proof (byte_sweep _ Hs (N.land x 255) (land255_lt x)) as H; cbv beta in H; clear Hs.
  now apply N.ltb_lt.
Qed.

(** [xtime] on bytes is the textbook "double, subtract 0x11b on overflow" *)
Lemma xtime_poly x : x < 256 ->
  xtime x = if 2 * x <? 256 then 2 * x else N.lxor (2 * x) 0x11b.
Proof.
  intros Hx.
  assert (Hs : forallb (fun x => xtime x =? (if 2 * x <? 256 then 2 * x else N.lxor (2 * x) 0x11b)) bytes256 = true) by (vm_compute; reflexivity).
  pose proof (byte_sweep _ Hs x Hx) as H; cbv beta in H; clear Hs.
  now apply N.eqb_eq.
Qed.

Lemma xtime_lt x : xtime x < 256.
Proof.
  unfold xtime. apply (lxor_lt 8).
  - apply land255_lt.
  - destruct (N.testbit x 7); vm_compute; reflexivity.
Qed.

(** [xtime] is GF(2)-linear, on all of [N] *)
Lemma xtime_lxor a b : xtime (N.lxor a b) = N.lxor (xtime a) (xtime b).
Proof.
  unfold xtime. rewrite N.shiftl_lxor, N.lxor_spec.
  replace (N.land (N.lxor (N.shiftl a 1) (N.shiftl b 1)) 255)
    with (N.lxor (N.land (N.shiftl a 1) 255) (N.land (N.shiftl b 1) 255)).
  2:{ apply N.bits_inj. intro n. rewrite !N.lxor_spec, !N.land_spec, !N.lxor_spec.
      destruct (N.testbit 255 n); destruct (N.testbit (N.shiftl a 1) n);
        destruct (N.testbit (N.shiftl b 1) n); reflexivity. }
  set (A := N.land (N.shiftl a 1) 255). set (B := N.land (N.shiftl b 1) 255).
  destruct (N.testbit a 7), (N.testbit b 7); cbn [xorb];
    apply N.bits_inj; intro n; rewrite ?N.lxor_spec;
    destruct (N.testbit A n), (N.testbit B n), (N.testbit 27 n); reflexivity.
Qed.

Lemma xtime_0 : xtime 0 = 0.
Proof. reflexivity. Qed.
