(** Known-answer vectors anchoring [Spec/Skein.v].

    The three [*_empty] vectors are the published Skein 1.3 values of
    Skein-256-256(""), Skein-512-512("") and Skein-1024-1024("").  The others
    are the vectors of the crate's own test suite (hashes/skein/tests/data/*.blb,
    decoded once with a script and copied here; nothing reads /repo at check
    time): messages of 0, 17 and 64 bytes for every state size with 32- and
    64-byte output. *)
From Coq Require Import NArith List.
From CC Require Import Lib.Words Lib.Bytes Spec.Threefish Spec.Skein.
Import ListNotations.
Local Open Scope N_scope.

(** message of [n] bytes given as the big-endian number [x] *)
Definition msg (n : nat) (x : N) : list N := be_split n x.

Example skein256_256_empty :
  be_join (skein skein256p 32 []) =
  0xc8877087da56e072870daa843f176e9453115929094c3a40c463a196c29bf7ba.
Proof. vm_compute. reflexivity. Qed.

Example skein512_512_empty :
  be_join (skein skein512p 64 []) =
  0xbc5b4c50925519c290cc634277ae3d6257212395cba733bbad37a4af0fa06af41fca7903d06564fea7a2d3730dbdb80c1f85562dfcc070334ea4d1d9e72cba7a.
Proof. vm_compute. reflexivity. Qed.

Example skein1024_1024_empty :
  be_join (skein skein1024p 128 []) =
  0x0fff9563bb3279289227ac77d319b6fff8d7e9f09da1247b72a0a265cd6d2a62645ad547ed8193db48cff847c06494a03f55666d3b47eb4c20456c9373c86297d630d5578ebd34cb40991578f9f52b18003efa35d3da6553ff35db91b81ab890bec1b189b7f52cb2a783ebb7d823d725b0b4a71f6824e88f68f982eefc6d19c6.
Proof. vm_compute. reflexivity. Qed.

Example skein256_32_len0 :
  be_join (skein skein256p 32 []) =
  0xc8877087da56e072870daa843f176e9453115929094c3a40c463a196c29bf7ba.
Proof. vm_compute. reflexivity. Qed.

Example skein256_32_len17 :
  be_join (skein skein256p 32 (msg 17 0xea5eabf090946c57c057c228bc965513a0)) =
  0x4608b31b249228fba55d31f7f2c86178be01e37437d1e6bce18427a22b19f2cb.
Proof. vm_compute. reflexivity. Qed.

Example skein256_32_len64 :
  be_join (skein skein256p 32 (msg 64 0x02e4c7d4f0d40dea6eb5b7b8a83c76a4cab9a39dceb7743e5910567bdcc7d48d40af53e0e011b5d47b8abaefd52f4b643707cb41bd568721b5db1950125e5f50)) =
  0x400a8f4d3ffbf7ad865193f68794658f08fa6c7babc9407ceae387331db281e9.
Proof. vm_compute. reflexivity. Qed.

Example skein256_64_len0 :
  be_join (skein skein256p 64 []) =
  0x357728de58a5f23315854840e0f2688d75376e7360030bba4dbd7da20306cd50cc75e66ddb6b0afd20bd0a7dacf88c8f421523f5315c0002388c39ec34eb4996.
Proof. vm_compute. reflexivity. Qed.

Example skein256_64_len17 :
  be_join (skein skein256p 64 (msg 17 0xb7eefffa995c927c7107d8c008965028b0)) =
  0x67f68cadc1ffde989708a0f45e5349751ee4aaf8350cb5fb1eadd72e68276b997989772c33d5d30686a36bd19d186e43a25ba87770a6a23d889ed506960911f4.
Proof. vm_compute. reflexivity. Qed.

Example skein256_64_len64 :
  be_join (skein skein256p 64 (msg 64 0xcfec64f3e950c2bf80b13d3c18f7e7e660f6d0ec4a39b7422b8f7d7521736f80725fe176d8c3fbd544d9342b34471bc6a2318f73a177bc7791179262719d93c6)) =
  0x9e5b4d7ed28492278767e50d279df1fccb47e9df623a9dfb3fbbc94ff9c264f41d4ca9f424e9c65715cb5741b64ae768500f3c6d11d6527f5bce4e846cc98139.
Proof. vm_compute. reflexivity. Qed.

Example skein512_32_len0 :
  be_join (skein skein512p 32 []) =
  0x39ccc4554a8b31853b9de7a1fe638a24cce6b35a55f2431009e18780335d2621.
Proof. vm_compute. reflexivity. Qed.

Example skein512_32_len17 :
  be_join (skein skein512p 32 (msg 17 0x944abc9c6cbbcd03112f8d509d31e50a92)) =
  0xde09efae0a112705f14a2e9c896a77bf17bc461e3eeaf543511f27e1939e7b4c.
Proof. vm_compute. reflexivity. Qed.

Example skein512_32_len64 :
  be_join (skein skein512p 32 (msg 64 0x6c579cefb25ea433818d6b872a93c21d0db80b985466916b8b9b175fa340cf90dfbd2f906fef98d32ddec4c296610f9acc65f2f382af4c303ef17a8041feb835)) =
  0x22dbe4ec3dbf3d08297d4f4c7ced323ff087c2363bda113a829fcc5ec1126aa0.
Proof. vm_compute. reflexivity. Qed.

Example skein512_64_len0 :
  be_join (skein skein512p 64 []) =
  0xbc5b4c50925519c290cc634277ae3d6257212395cba733bbad37a4af0fa06af41fca7903d06564fea7a2d3730dbdb80c1f85562dfcc070334ea4d1d9e72cba7a.
Proof. vm_compute. reflexivity. Qed.

Example skein512_64_len17 :
  be_join (skein skein512p 64 (msg 17 0x408ac49333f798677ec3524a309a4b14d6)) =
  0x8cb8369c6e05c1ce7df6422cdb67a212f5b6f5a1fafda1b20c89d7b87573b0ce12e6fbd2c49236d3a665ddf86fa828802456076403f79669a98c5d0f29bd0ebc.
Proof. vm_compute. reflexivity. Qed.

Example skein512_64_len64 :
  be_join (skein skein512p 64 (msg 64 0x7738241a4465ea99b5f39e43f877944662c13a685d598ac3bf776b0aef03efe3cf6687b1c2dae954344b2303fb61c5a33d0170284d148f791ce7447bbe0e3021)) =
  0xcd81b6c8f4369723e34f1c43afe97364af037962e4621edcde6341ab526c6652c2776ffd83a43a767c8025b0a9d4c614da6a53f2a30b8ca45b51fa14b2eef7c3.
Proof. vm_compute. reflexivity. Qed.

Example skein1024_32_len0 :
  be_join (skein skein1024p 32 []) =
  0x0e5203ea7b10d1e3320f0b015eb852b82619ad599880bcf156ed2e75c59bf1fc.
Proof. vm_compute. reflexivity. Qed.

Example skein1024_32_len17 :
  be_join (skein skein1024p 32 (msg 17 0xbe65a3ab4ddfafb8ddacefd017a9f1f136)) =
  0x2858c310a7e016166ba42c728f00757f3c3d2ec1fe242d5f72fc8099cd7aa2d7.
Proof. vm_compute. reflexivity. Qed.

Example skein1024_32_len64 :
  be_join (skein skein1024p 32 (msg 64 0xb0fd3e9b8cf96af13ee406676761d036f4a13f9559360b5306a2152758240b01633205efb01226e3f16e61b5cefaff41ebde0efbdfa5e79a11d6cdafe694b766)) =
  0xeb2a8e2af90c28f14f922c9ab5d907bd5bf986d09a9fadbe2534dcf704dd156c.
Proof. vm_compute. reflexivity. Qed.

Example skein1024_64_len0 :
  be_join (skein skein1024p 64 []) =
  0xe2943eb0bc0efabd49503a76edf7cfcf072db25bad94ed44fe537284163f3119c47ac6f78699b4272255966e0aba65c75a0a64bd23df6996d1bc3174afd9fa8b.
Proof. vm_compute. reflexivity. Qed.

Example skein1024_64_len17 :
  be_join (skein skein1024p 64 (msg 17 0x6ddd67d88be12e38c1441204789f4072fb)) =
  0x3acfbf164a47ff302cda9dbe9b3486e23c003658d97d50ed2363a4b4dc79ae7d36e5d14d0ce4b70238e3fcdce8100925a0f87949e3acbe07a6b9450f8ffeb6e2.
Proof. vm_compute. reflexivity. Qed.

Example skein1024_64_len64 :
  be_join (skein skein1024p 64 (msg 64 0x904005c0099ab4b75e18db6270c5f6dedcc0de962ae384d5369eb35acbaa6e681956b672452a30264c54dc958c5e6bedc54ccde1b890fbe1434ca6e6e83ea20a)) =
  0xad1a94517585fed698c3fdbef561a96eb99370006ffb72f12d874ecf2076d73953967b4233254e9a57261ba248f4c453ccd7268cebae92e23670dadaf7769f80.
Proof. vm_compute. reflexivity. Qed.

Definition all_kats := (skein256_256_empty, skein512_512_empty, skein1024_1024_empty,
  skein256_32_len0, skein256_32_len17, skein256_32_len64,
  skein256_64_len0, skein256_64_len17, skein256_64_len64,
  skein512_32_len0, skein512_32_len17, skein512_32_len64,
  skein512_64_len0, skein512_64_len17, skein512_64_len64,
  skein1024_32_len0, skein1024_32_len17, skein1024_32_len64,
  skein1024_64_len0, skein1024_64_len17, skein1024_64_len64).


(** * Vectors of the Skein 1.3 paper, appendix C (independent of the crate's test data):
      Skein-256-256 / Skein-512-512 / Skein-1024-1024 of the one-byte message FF, of exactly one
      block and of exactly two blocks of the bytes FF FE FD ... (the last two exercise the
      hold-back of a full final block) *)
Definition countdown_ff (n : nat) : list N := map (fun i => 255 - N.of_nat i) (seq 0 n).

Example paper_skein256_ff : be_join (skein skein256p 32 [0xff]) =
  0x0B98DCD198EA0E50A7A244C444E25C23DA30C10FC9A1F270A6637F1F34E67ED2.
Proof. vm_compute. reflexivity. Qed.
Example paper_skein256_32 : be_join (skein skein256p 32 (countdown_ff 32)) =
  0x8D0FA4EF777FD759DFD4044E6F6A5AC3C774AEC943DCFC07927B723B5DBF408B.
Proof. vm_compute. reflexivity. Qed.
Example paper_skein256_64 : be_join (skein skein256p 32 (countdown_ff 64)) =
  0xDF28E916630D0B44C4A849DC9A02F07A07CB30F732318256B15D865AC4AE162F.
Proof. vm_compute. reflexivity. Qed.
Example paper_skein512_ff : be_join (skein skein512p 64 [0xff]) =
  0x71B7BCE6FE6452227B9CED6014249E5BF9A9754C3AD618CCC4E0AAE16B316CC8CA698D864307ED3E80B6EF1570812AC5272DC409B5A012DF2A579102F340617A.
Proof. vm_compute. reflexivity. Qed.
Example paper_skein512_64 : be_join (skein skein512p 64 (countdown_ff 64)) =
  0x45863BA3BE0C4DFC27E75D358496F4AC9A736A505D9313B42B2F5EADA79FC17F63861E947AFB1D056AA199575AD3F8C9A3CC1780B5E5FA4CAE050E989876625B.
Proof. vm_compute. reflexivity. Qed.
Example paper_skein512_128 : be_join (skein skein512p 64 (countdown_ff 128)) =
  0x91CCA510C263C4DDD010530A33073309628631F308747E1BCBAA90E451CAB92E5188087AF4188773A332303E6667A7A210856F742139000071F48E8BA2A5ADB7.
Proof. vm_compute. reflexivity. Qed.
Example paper_skein1024_ff : be_join (skein skein1024p 128 [0xff]) =
  0xE62C05802EA0152407CDD8787FDA9E35703DE862A4FBC119CFF8590AFE79250BCCC8B3FAF1BD2422AB5C0D263FB2F8AFB3F796F048000381531B6F00D85161BC0FFF4BEF2486B1EBCD3773FABF50AD4AD5639AF9040E3F29C6C931301BF79832E9DA09857E831E82EF8B4691C235656515D437D2BDA33BCEC001C67FFDE15BA8.
Proof. vm_compute. reflexivity. Qed.
