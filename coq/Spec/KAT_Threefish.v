(** Known-answer vectors of the Skein NIST submission (also in the paper's
    reference implementation), anchoring [Spec/Threefish.v]. *)
From Coq Require Import NArith List.
From CC Require Import Lib.Words Lib.Bytes Spec.Threefish Run.Runner.
Import ListNotations.
Local Open Scope N_scope.

Definition zeros (n : nat) : list N := repeat 0 n.
Definition countup (from : N) (n : nat) : list N := map (fun i => from + N.of_nat i) (seq 0 n).
Definition countdown (from : N) (n : nat) : list N := map (fun i => from - N.of_nat i) (seq 0 n).

Example tf256_zero :
  be_join (spec_encrypt tf256 (zeros 32) 0 0 (zeros 32)) =
  0x84da2a1f8beaee947066ae3e3103f1ad536db1f4a1192495116b9f3ce6133fd8.
Proof. vm_compute. reflexivity. Qed.

Example tf256_kat :
  be_join (spec_encrypt tf256 (countup 0x10 32) 0x0706050403020100 0x0f0e0d0c0b0a0908 (countdown 0xff 32)) =
  0xe0d091ff0eea8fdfc98192e62ed80ad59d865d08588df476657056b5955e97df.
Proof. vm_compute. reflexivity. Qed.

Example tf512_zero :
  be_join (spec_encrypt tf512 (zeros 64) 0 0 (zeros 64)) =
  0xb1a2bbc6ef6025bc40eb3822161f36e375d1bb0aee3186fbd19e47c5d479947b7bc2f8586e35f0cff7e7f03084b0b7b1f1ab3961a580a3e97eb41ea14a6d7bbe.
Proof. vm_compute. reflexivity. Qed.

Example tf512_kat :
  be_join (spec_encrypt tf512 (countup 0x10 64) 0x0706050403020100 0x0f0e0d0c0b0a0908 (countdown 0xff 64)) =
  0xe304439626d45a2cb401cad8d636249a6338330eb06d45dd8b36b90e97254779272a0a8d99463504784420ea18c9a725af11dffea10162348927673d5c1caf3d.
Proof. vm_compute. reflexivity. Qed.

Example tf1024_zero :
  be_join (spec_encrypt tf1024 (zeros 128) 0 0 (zeros 128)) =
  0xf05c3d0a3d05b304f785ddc7d1e036015c8aa76e2f217b06c6e1544c0bc1a90df0accb9473c24e0fd54fea68057f43329cb454761d6df5cf7b2e9b3614fbd5a20b2e4760b40603540d82eabc5482c171c832afbe68406bc39500367a592943fa9a5b4a43286ca3c4cf46104b443143d560a4b230488311df4feef7e1dfe8391e.
Proof. vm_compute. reflexivity. Qed.

Example tf1024_kat :
  be_join (spec_encrypt tf1024 (countup 0x10 128) 0x0706050403020100 0x0f0e0d0c0b0a0908 (countdown 0xff 128)) =
  0xa6654ddbd73cc3b05dd777105aa849bce49372eaaffc5568d254771bab85531c94f780e7ffaae430d5d8af8c70eebbe1760f3b42b737a89cb363490d670314bd8aa41ee63c2e1f45fbd477922f8360b388d6125ea6c7af0ad7056d01796e90c83313f4150a5716b30ed5f569288ae974ce2b4347926fce57de44512177dd7cde.
Proof. vm_compute. reflexivity. Qed.
