(** Published vectors anchoring Spec/ChaCha.v: RFC 7539 2.3.2 (block), 2.4.2
    (encryption), draft-irtf-cfrg-xchacha 2.2.1 (HChaCha20). *)
From Coq Require Import NArith List.
From CC Require Import Lib.Words Lib.Bytes Spec.ChaCha Run.Runner.
Import ListNotations.
Local Open Scope N_scope.

Definition key_0_31 : list N := map N.of_nat (seq 0 32).

(** RFC 7539 section 2.3.2: key 00..1f, nonce 00 00 00 09 00 00 00 4a 00 00 00 00, counter 1 *)
Example rfc7539_block :
  be_join (spec_block Ietf 10 key_0_31 (be_split 12 0x000000090000004a00000000) 1) =
  0x10f1e7e4d13b5915500fdd1fa32071c4c7d1f4c733c068030422aa9ac3d46c4ed2826446079faa0914c2d705d98b02a2b5129cd1de164eb9cbd083e8a2503c4e.
Proof. vm_compute. reflexivity. Qed.

(** RFC 7539 section 2.4.2: first 64 bytes of the ciphertext of the sunscreen text, counter starts at 1 *)
Definition sunscreen64 : list N :=
  be_split 64 0x4c616469657320616e642047656e746c656d656e206f662074686520636c617373206f66202739393a204966204920636f756c64206f6666657220796f75206f.
Example rfc7539_encrypt :
  be_join (spec_apply Ietf 10 key_0_31 (be_split 12 0x000000000000004a00000000) 64 sunscreen64) =
  0x6e2e359a2568f98041ba0728dd0d6981e97e7aec1d4360c20a27afccfd9fae0bf91b65c5524733ab8f593dabcd62b3571639d624e65152ab8f530c359f0861d8.
Proof. vm_compute. reflexivity. Qed.

(** draft-irtf-cfrg-xchacha section 2.2.1 *)
Example hchacha20_vector :
  be_join (bytes_le 4 (spec_hchacha 10 key_0_31 (be_split 16 0x000000090000004a0000000031415927))) =
  0x82413b4227b27bfed30e42508a877d73a0f9e4d58a74a853c12ec41326d3ecdc.
Proof. vm_compute. reflexivity. Qed.
