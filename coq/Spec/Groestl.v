(** Groestl (SHA-3 finalist version, i.e. with the final-round tweak),
    written from the published definition as operations on byte matrices.

    A state is a matrix of 8 rows and [c] columns ([c] = 8 for Groestl-224/256,
    16 for Groestl-384/512) held as the byte string of length [8*c] it is
    mapped from: byte [k] of the string sits in row [k mod 8] of column
    [k / 8].  Nothing here refers to the implementation. *)
From Coq Require Import NArith List Arith Lia.
From CC Require Import Lib.Words Lib.Bytes Lib.ListX Spec.AES.
Import ListNotations.

Section WithSbox.
(** the byte substitution; instantiated with [AES.sbox] below *)
Variable S : N -> N.

Definition get (st : list N) (row col : nat) : N := nth (8 * col + row) st 0%N.

(** the matrix with entry [f row col], as a byte string *)
Definition build (c : nat) (f : nat -> nat -> N) : list N :=
  flat_map (fun col => map (fun row => f row col) (seq 0 8)) (seq 0 c).

(** ** AddRoundConstant (round [r]) *)
Definition rc_P (r : N) (row col : nat) : N :=
  if row =? 0 then N.lxor (N.shiftl (N.of_nat col) 4) r else 0%N.
Definition rc_Q (r : N) (row col : nat) : N :=
  if row =? 7 then N.lxor (N.lxor 0xff (N.shiftl (N.of_nat col) 4)) r else 0xff%N.
Definition add_round_constant (c : nat) (rc : nat -> nat -> N) (st : list N) : list N :=
  xor_bytes st (build c rc).

(** ** SubBytes *)
Definition sub_bytes (st : list N) : list N := map S st.

(** ** ShiftBytes: row [i] is rotated left by [sigma_i] positions *)
Definition sigma_P512 : list nat := [0; 1; 2; 3; 4; 5; 6; 7].
Definition sigma_Q512 : list nat := [1; 3; 5; 7; 0; 2; 4; 6].
Definition sigma_P1024 : list nat := [0; 1; 2; 3; 4; 5; 6; 11].
Definition sigma_Q1024 : list nat := [1; 3; 5; 11; 0; 2; 4; 6].
Definition shift_bytes (c : nat) (sigma : list nat) (st : list N) : list N :=
  build c (fun row col => get st row ((col + nth row sigma 0) mod c)).

(** ** MixBytes: every column is multiplied by B = circ(02,02,03,04,05,03,05,07) *)
Definition circ : list N := [2; 2; 3; 4; 5; 3; 5; 7]%N.
(** B[i][k] = circ[(k - i) mod 8] *)
Definition mix_column (a : list N) : list N :=
  map (fun i =>
         fold_left N.lxor
           (map (fun k => gf_mul (nth ((k + 8 - i) mod 8) circ 0%N) (nth k a 0%N)) (seq 0 8)) 0%N)
      (seq 0 8).
Definition mix_bytes (c : nat) (st : list N) : list N :=
  flat_map (fun col => mix_column (map (fun row => get st row col) (seq 0 8))) (seq 0 c).

(** ** rounds and permutations *)
Definition round (c : nat) (rc : N -> nat -> nat -> N) (sigma : list nat) (r : N) (st : list N) : list N :=
  mix_bytes c (shift_bytes c sigma (sub_bytes (add_round_constant c (rc r) st))).

Definition perm (c nr : nat) (rc : N -> nat -> nat -> N) (sigma : list nat) (st : list N) : list N :=
  fold_left (fun st r => round c rc sigma (N.of_nat r) st) (seq 0 nr) st.

Record params := { cols : nat; nrounds : nat; sig_P : list nat; sig_Q : list nat }.
Definition p512 := {| cols := 8; nrounds := 10; sig_P := sigma_P512; sig_Q := sigma_Q512 |}.
Definition p1024 := {| cols := 16; nrounds := 14; sig_P := sigma_P1024; sig_Q := sigma_Q1024 |}.

Definition block_bytes (p : params) : nat := 8 * cols p.

Definition P (p : params) := perm (cols p) (nrounds p) rc_P (sig_P p).
Definition Q (p : params) := perm (cols p) (nrounds p) rc_Q (sig_Q p).

(** compression function and output transformation *)
Definition f (p : params) (h m : list N) : list N :=
  xor_bytes (xor_bytes (P p (xor_bytes h m)) (Q p m)) h.
Definition omega (p : params) (h : list N) : list N := xor_bytes (P p h) h.

(** initial value: the digest size in bits as a big-endian integer filling the state *)
Definition iv (p : params) (nbits : N) : list N := be_split (block_bytes p) nbits.

(** ** padding: 0x80, the least number [k] of zero bytes that makes the
    length a multiple of the block size once 8 more bytes are added, and the
    total number of blocks (padding blocks included) as a 64-bit big-endian
    integer.  [prior] = number of blocks already absorbed before [msg]
    (0 for a whole message). *)
Definition pad_zeros (bs n : nat) : nat := (bs - (n + 9) mod bs) mod bs.
Definition pad_blocks (bs n : nat) : nat := (n + pad_zeros bs n + 9) / bs.
Definition pad_from (bs : nat) (prior : N) (msg : list N) : list N :=
  let n := length msg in
  msg ++ [0x80%N] ++ repeat 0%N (pad_zeros bs n)
      ++ be_split 8 (prior + N.of_nat (pad_blocks bs n))%N.
Definition pad (bs : nat) (msg : list N) : list N := pad_from bs 0%N msg.

Definition blocks (bs : nat) (l : list N) : list (list N) := chunks_exact bs (length l) l.

(** the last [n] bytes *)
Definition trunc (n : nat) (l : list N) : list N := skipn (length l - n) l.

(** hash continued from chaining value [h] reached after [prior] blocks *)
Definition hash_from (p : params) (outbytes : nat) (h : list N) (prior : N) (msg : list N) : list N :=
  trunc outbytes
        (omega p (fold_left (f p) (blocks (block_bytes p) (pad_from (block_bytes p) prior msg)) h)).

Definition hash (p : params) (outbytes : nat) (msg : list N) : list N :=
  hash_from p outbytes (iv p (8 * N.of_nat outbytes)%N) 0%N msg.

End WithSbox.

(** * The four functions *)
Definition groestl224 : list N -> list N := hash sbox p512 28.
Definition groestl256 : list N -> list N := hash sbox p512 32.
Definition groestl384 : list N -> list N := hash sbox p1024 48.
Definition groestl512 : list N -> list N := hash sbox p1024 64.

(** the specification does not depend on how the S-box is computed *)
Section Ext.
Variables S S' : N -> N.
Hypothesis SS' : forall x, S x = S' x.

Lemma round_ext c rc sigma r st : round S c rc sigma r st = round S' c rc sigma r st.
Proof. unfold round, sub_bytes. f_equal. f_equal. apply map_ext, SS'. Qed.

Lemma perm_ext c nr rc sigma st : perm S c nr rc sigma st = perm S' c nr rc sigma st.
Proof.
  unfold perm. revert st. induction (seq 0 nr) as [|r l IH]; intros st; cbn [fold_left]; [reflexivity|].
  rewrite round_ext. apply IH.
Qed.

Lemma f_ext p h m : f S p h m = f S' p h m.
Proof. unfold f, P, Q. now rewrite !perm_ext. Qed.

Lemma omega_ext p h : omega S p h = omega S' p h.
Proof. unfold omega, P. now rewrite perm_ext. Qed.

Lemma fold_f_ext p bl h : fold_left (f S p) bl h = fold_left (f S' p) bl h.
Proof.
  revert h; induction bl as [|b bl IH]; intros h; cbn [fold_left]; [reflexivity|].
  rewrite f_ext. apply IH.
Qed.

Lemma hash_from_ext p n h prior msg : hash_from S p n h prior msg = hash_from S' p n h prior msg.
Proof. unfold hash_from. now rewrite fold_f_ext, omega_ext. Qed.

Lemma hash_ext p n msg : hash S p n msg = hash S' p n msg.
Proof. unfold hash. apply hash_from_ext. Qed.
End Ext.
