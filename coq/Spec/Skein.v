(** Skein 1.3 ("The Skein Hash Function Family", v1.3, sections 3.4-3.5),
    simple hashing of byte strings, written from the paper and independent of
    the Rust code:

      G0 = UBI(0^Nb, C, T_cfg)     C = 32-byte configuration string
      G1 = UBI(G0, M, T_msg)
      H  = Output(G1, No) = UBI(G1, ToBytes(0,8), T_out) || UBI(G1, ToBytes(1,8), T_out) || ...
           truncated to No/8 bytes.

    UBI(G, M, Ts): M is zero-padded to a positive multiple of Nb bytes (the
    empty string becomes one zero block) and split into blocks M_0..M_{k-1};
      H_0 = G,  H_{i+1} = E(H_i, T_i, M_i) xor M_i,
      T_i = Ts + min(N_M, (i+1) Nb) + a_i 2^126 + b_i 2^127
    with a_i = [i = 0], b_i = [i = k-1] (the bit-pad flag, bit 119, is never
    set for byte strings). The tweak is a 128-bit number: bits 0..95 position,
    120..125 type, 126 first, 127 final; Threefish receives it as the two
    64-bit words t0 = T mod 2^64, t1 = T / 2^64.  E is Threefish from
    [Spec/Threefish.v]. *)
From Coq Require Import NArith List Lia Arith Bool.
From CC Require Import Lib.Words Lib.Bytes Lib.ListX.
From CC Require Import Spec.Threefish.
Import ListNotations.
Local Open Scope N_scope.

Record sparams := { tf : params; nb : nat (* state / block size Nb in bytes *) }.

Definition skein256p := {| tf := tf256; nb := 32 |}.
Definition skein512p := {| tf := tf512; nb := 64 |}.
Definition skein1024p := {| tf := tf1024; nb := 128 |}.

(** type values of Table 6 *)
Definition T_CFG : N := 4.
Definition T_MSG : N := 48.
Definition T_OUT : N := 63.

(** the 128-bit tweak value *)
Definition tweak (pos ty : N) (first final : bool) : N :=
  pos + N.shiftl ty 120 + (if first then N.shiftl 1 126 else 0) + (if final then N.shiftl 1 127 else 0).

(** one UBI step: E(h, T, m) xor m *)
Definition ubi_block (p : sparams) (h : list N) (T : N) (m : list N) : list N :=
  xor_bytes (spec_encrypt (tf p) h (T mod 2 ^ 64) (T / 2 ^ 64) m) m.

(** number of blocks of a message of [len] bytes: ceil(len/Nb), at least one *)
Definition nblocks (nb len : nat) : nat := Nat.max 1 ((len + nb - 1) / nb).
(** block [i] of the zero-padded message *)
Definition msg_block (nb : nat) (m : list N) (i : nat) : list N :=
  firstn nb (skipn (i * nb) m ++ repeat 0 nb).

(** UBI continued from chaining value [g] after [off] bytes have already been
    processed ([first0] = no block has been processed yet). Plain UBI is
    [off = 0], [first0 = true]; the general form states what the remaining
    part of a long message contributes (used with entered states, C17). *)
Definition ubi_from (p : sparams) (g : list N) (ty : N) (off : N) (first0 : bool) (m : list N) : list N :=
  let k := nblocks (nb p) (length m) in
  fold_left (fun h i =>
      let pos := off + N.of_nat (Nat.min (length m) ((i + 1) * nb p)) in
      ubi_block p h (tweak pos ty ((i =? 0)%nat && first0) (i =? k - 1)%nat) (msg_block (nb p) m i))
    (seq 0 k) g.

Definition ubi (p : sparams) (g : list N) (ty : N) (m : list N) : list N :=
  ubi_from p g ty 0 true m.

(** configuration string (Table 7): schema "SHA3", version 1, reserved,
    output length in bits, tree parameters Yl Yf Ym = 0, reserved *)
Definition config_string (out_bits : N) : list N :=
  [0x53; 0x48; 0x41; 0x33] ++ le_split 2 1 ++ [0; 0] ++ le_split 8 out_bits
  ++ [0; 0; 0] ++ repeat 0 13.

Definition iv (p : sparams) (out_bits : N) : list N :=
  ubi p (repeat 0 (nb p)) T_CFG (config_string out_bits).

(** Output(G, No) for No = 8 n bits *)
Definition output (p : sparams) (g : list N) (n : nat) : list N :=
  firstn n (flat_map (fun i => ubi p g T_OUT (le_split 8 (N.of_nat i)))
                     (seq 0 ((n + nb p - 1) / nb p))).

(** Skein-Nb-(8n) of the byte string [m] *)
Definition skein (p : sparams) (n : nat) (m : list N) : list N :=
  output p (ubi p (iv p (8 * N.of_nat n)) T_MSG m) n.
