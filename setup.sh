#!/bin/sh
# Build the Coq development (full .vo build) and warm the harness builds. Offline.
cd "$(dirname "$0")"
mkdir -p _build
./tools/coqmake -k > _build/setup_coq.log 2>&1 || { echo "coq build had errors (see _build/setup_coq.log); checks re-build their own cones"; tail -5 _build/setup_coq.log; }
python3 - <<'PY'
import sys
sys.path.insert(0, ".")
import vlib
for feats in ((), ("no_unroll",)):
    b, log = vlib.cargo_build(features=feats, profile="debug")
    if b is None:
        print(log[-3000:])
print("setup done")
PY
exit 0
