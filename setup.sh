#!/bin/sh
# Build the Coq development (full .vo build, plain coqc, never -vos) and warm the harness builds. Offline.
cd "$(dirname "$0")"
mkdir -p _build
timeout 3300 ./tools/coqmake -k > _build/setup_coq.log 2>&1 || { echo "coq build had errors (see _build/setup_coq.log); checks re-build their own cones"; tail -5 _build/setup_coq.log; }
timeout 3000 python3 - <<'PY'
import importlib, json, os, subprocess, sys, shutil
sys.path.insert(0, ".")
import vlib
# all harness binaries, both profiles, default features (one cargo invocation each)
env = dict(os.environ, CARGO_NET_OFFLINE="true", CARGO_TARGET_DIR=vlib.TARGET, RUSTFLAGS=" ".join(vlib.BASE_RUSTFLAGS))
shutil.copyfile("/repo/Cargo.lock", os.path.join(vlib.HARNESS, "Cargo.lock"))
for extra in ([], ["--release"], ["--features", "no_unroll"], ["--features", "no_unroll", "--release"]):
    subprocess.run(["cargo", "build", "--offline", "--quiet", "--bins"] + extra, cwd=vlib.HARNESS, env=env)
for extra in (["--features", "no_simd"], ["--features", "no_simd", "--release"]):
    subprocess.run(["cargo", "build", "--offline", "--quiet", "--bin", "h_ppvgen", "--bin", "h_chacha"] + extra, cwd=vlib.HARNESS, env=env)
# this machine's SIMD target features enabled at compile time (C04, C07): own target directory
native = tuple(vlib.native_rustflags())
if native:
    for b in ("h_groestl", "h_blake"):
        vlib.cargo_build(profile="release", bin_name=b, rustflags=native)
# per-check warm-up hooks (optional `warm()` in checks/<id>.py)
claimed = json.load(open("tools/claimed.json"))
for pid in claimed:
    try:
        m = importlib.import_module("checks." + pid.lower())
        if hasattr(m, "warm"):
            m.warm()
    except Exception as e:  # warming is best effort; the checks build what they need
        print("warm %s: %s" % (pid, e))
print("setup done")
PY
exit 0
