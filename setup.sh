#!/bin/sh
# Build the Coq development (full .vo build) and warm the harness builds. Offline.
set -e
cd "$(dirname "$0")"
mkdir -p _build
( cd coq && coq_makefile -f _CoqProject -o Makefile && timeout 3000 make -j16 )
python3 - <<'PY'
import sys
sys.path.insert(0, ".")
import vlib
for feats in ((), ("no_unroll",)):
    b, log = vlib.cargo_build(features=feats, profile="debug")
    if b is None:
        print(log[-3000:])
        sys.exit(1)
print("setup ok")
PY
